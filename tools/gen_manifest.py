#!/usr/bin/env python3
"""Regenerates MANIFEST.json from the table below (kept in one place so it is always valid)."""
import json, os
HERE = os.path.dirname(os.path.dirname(os.path.abspath(__file__)))

TB = "rustc nightly front end, MIR construction and callee resolution; the API tables in vlib/core.py; pnet/std library semantics"

CLAIMED = {
 'C20': dict(
    text="Decides the structural clauses: per layer function every CFG path to a return logs exactly one recv and then exactly one terminal event of its own layer, send iff a reply is returned, lower layers entered in between (path-sensitive counting dataflow over all paths); MetaLogger forwards each event to the same-named Logger method once under <proto>_enabled; each of the 48 event methods of both loggers prints prolog(<proto>,<event>,false) first and ends with exactly one newline-terminated print; printed values derive from the packet/ClientInfo parameters; logfmt labels name the field printed. All paths, both formats, every drop reason - which sampled frames cannot give.",
    note="Assumes Display impls of pnet/std types print no newline; cross-frame interleaving is impossible (single thread).",
    technique="path-sensitive typestate dataflow on MIR + format-template decoding", ref="§4 C20"),
 'C09': dict(
    text="Decides the property up to HashMap semantics and cookie collisions: crate-wide, every operation on a HashMap holding TCPControlBlock values lies in proto::tcb::{is_tcb_set,get_tcb,add_tcb}; the only growth operation is one insert behind !contains_key(same key); add_tcb has one call site, inside the flag arm that (by exhaustive evaluation of the 512 flag values) is selected only by PSH|ACK supersets, and every CFG path to it establishes generate(client_info,key) == ack-1 (mod 2^32); no table function is reachable from UDP/ICMP/ARP handling, from the application layer, or on any other TCP arm.",
    note="Does not decide 32-bit cookie collisions between flows, nor HashMap internals.",
    technique="who-may-call + must-pass-through gate reachability on MIR + decision-table extraction", ref="§4 C09"),
 'C19': dict(
    text="Decided as a who-may-read property over the whole application-layer cone (every function reachable from proto::repl, resolved call graph incl. trait impls and closures): ClientInfo address/port/transport fields are read only by the three builders of address-bearing fields (STUN MAPPED-ADDRESS, portmapper, DNS A RDATA) and by the dispatcher (transport, cookie only); nothing there reads the Masscanned configuration; IP-address typed values exist only in those builders; no branch condition in the L2/L3/L4 functions depends on a port except through the SYN cookie; the payload handed to the dispatcher is the whole L4 payload on every path (UDP directly, TCP through the get_tcb callback that is invoked exactly once). This covers all 2^32 port pairs and both IP versions at once.",
    note="Differences between TCP and datagram transport that the specification itself makes (incremental vs one-shot matching, DNS fallback) are outside C19. Wall-clock reads are listed by C08.",
    technique="field read/write sets over the call-graph cone + branch-condition provenance slicing on MIR", ref="§4 C19"),
 'C08': dict(
    text="Decided as a static non-interference argument: (R1) the crate's statics are exactly three lazy cells and one constant table; the payload types of the two matcher cells, the Smack automaton, ClientInfo and the Masscanned configuration (incl. every impl behind Box<dyn Logger>) contain no interior mutability under a deep type walk, so the only shared mutable state is the Mutex<HashMap<u32,TCPControlBlock>>; (R2) that table is reached only from tcp::repl with keys whose provenance is generate(client_info, key) for the ClientInfo created fresh in reply() for this frame; (R3) UDP passes no control block, control-block fields are touched only through the tcb parameter in three functions, get_tcb looks up exactly the key it was given; (R4) the wall clock is read in five named places and never reaches a branch condition; (R5) no RNG/env/fs/thread/socket call and no order-dependent hash iteration is reachable from reply().",
    note="Cookie collisions (two flows hashing to one 32-bit key, with the constant key [0,0]) are outside this argument. Relies on Rust's aliasing rules for & / &mut.",
    technique="state inventory + deep type walk for interior mutability + key provenance + who-may-call over the call graph", ref="§4 C08"),
 'C03': dict(
    text="Decides the provenance of every address/port/protocol field written into a reply and who may write the per-frame ClientInfo: Ethernet source = configured MAC, destination = request source, EtherType constant = the dispatch value selecting its arm; IPv4/IPv6 source/destination mirrored (IPv6 source may be the solicited ND target, substituted only on the ICMPv6 arm), version constants, next-protocol constant = dispatch value of its arm; TCP/UDP ports read back from ClientInfo after the application layer ran, whose only writers are the parsing layer (value = the request getter) and the STUN change-port rewrite (+1 wrapping, under change_port, not loop-carried); each layer records its fields before handing over; exactly one transmit site, fed by reply(), once per received frame.",
    note="Byte offsets of pnet getters/setters are trusted (library).",
    technique="reaching-definition provenance tables on MIR + who-may-write sets + dominance of dispatch arms", ref="§4 C03"),
 'C02': dict(
    text="Decides the gating structure on all paths: (R1) every lower-layer call and every reply in layer_2::reply lies behind the true edge of get_authorized_eth_addr(mac, self_ip_list).contains(request destination MAC); (R1b) that set is built from exactly broadcast, own MAC, 33:33:00:00:00:01 and per configured address 01:00:5e+low 23 bits / 33:33:ff+low 24 bits (array element provenance); (R2) the three dispatch switches handle exactly {0x0806,0x0800,0x86dd}, {1,6,17}, {58,6,17}, their default edges reach no handler and no reply, and each handler sits on its own arm; (R3) before any L4 handler and any reply the deny list is absent or tested negative on the request source; (R4) every address that becomes a reply source or an advertised ARP/ND address passed a membership test, decided by a path-sensitive simulation that remembers test outcomes on value-numbered expressions (so the ICMPv6 exemption is not blamed on TCP/UDP paths); (R5) ARP/ND target gates and the interprocedural summary for the ND target handed to L3.",
    note="pnet getter semantics trusted. The contents of the configured sets are runtime values; only the tests applied to them are decided.",
    technique="must-pass-through gates + path-sensitive property simulation with value-numbered predicates on MIR", ref="§4 C02"),
 'C06': dict(
    text="(R1) the flag dispatch of tcp::repl is evaluated exhaustively for all 512 values of the 9 flag bits (partial evaluation of the pure guard region in MIR) and compared row by row with the reference policy of the statement; (R2) on the SYN-ACK arm flags=0x12 is the last write, ack = wrapping_add(seq,1), seq = generate(client_info, synack_key), header-only buffer; (R3) generate() reads exactly ip.src, ip.dst, port.src, port.dst and key[0], key[1], feeds each to the SipHash state on every path to Ok, returns the low 32 bits of finish(), and reaches no static, clock or RNG - hence identical for a retransmitted SYN and independent of history; (R4) the SYN arm touches neither the connection table nor the payload. Covers all seq values (wrapping_add), all ports, both IP versions.",
    note="The 2^-32 change-on-input-change clause is a property of SipHash (trusted). pnet bit layout of get_flags/set_flags trusted.",
    technique="exhaustive decision-table extraction (512 rows) + provenance + purity/callee-set check on MIR", ref="§4 C06"),
 'C07': dict(
    text="(R3) all 512 flag values are evaluated against the reference policy: PSH|ACK supersets select the data arm, exactly FIN|ACK the FIN|ACK reply, bare ACK/RST and the rest drop arms from which no reply construction is reachable; (R1) on the data arm add_tcb lies behind cookie == ack-1 (mod 2^32, either wrapping_sub or the guarded underflow form) and the application layer behind (already validated | cookie == ack-1), with cookie = generate(client_info,key) of this frame recorded in ClientInfo and used as the table key; from the mismatch edge neither a reply nor a table access is reachable; (R2) reply fields by provenance: ack = wrapping_add(seq, payload().len() as u32), seq = request ack, ACK|PSH only under the Some edge of the application result with the payload appended after the 20-byte header, bare ACK under None; FIN|ACK arm ack = wrapping_add(seq,1), seq = request ack, flags 0x11, stateless; (R4) no remove/clear on the table. Quantifies over all seq/ack values (wrapping ops), payload lengths and histories.",
    note="The reference connection model of the statement is matched clause by clause, not executed. Collisions of the 32-bit cookie are not decided.",
    technique="decision-table extraction + must-pass-through gates + provenance of reply fields on MIR", ref="§4 C07"),
 'C04': dict(
    text="Decides ordering and agreement, not arithmetic: (R1) each of the 7 set_checksum sites is computed over the object it is stored in, dominates the copy of that object into the enclosing payload, and no setter on the object is reachable afterwards (the identical-value UDP length rewrite is recognised); (R2) IPv4 total length / IPv6 payload length are computed from len(packet()) of the very L4 object copied in, the outer buffer is allocated as header size + that length, the Ethernet buffer likewise, IHL 5 / data offset 5 with header-sized prefixes, UDP length = len of the UDP packet on every reply path; (R3) the addresses fed to the TCP/UDP/ICMPv6 checksums are exactly the values the IP header receives along the paths through that checksum site (so the ND-target substitution is applied to both); (R4) TTL 64, DF, window 65535, hop limit 255 on exactly the Neighbor-Advert type edge and 64 under hop_limit==0 on every path; (R5) every header field a layer owns is written on every path to a reply; (R6) a zero UDP/IPv6 checksum is replaced by 0xffff.",
    note="Checksum arithmetic and setter byte offsets are pnet's (trusted); `as u16` truncation above 64 KiB is not reachable with 4096-byte frames and is not decided.",
    technique="typestate/ordering via reachability on MIR + provenance agreement between length fields, allocations and copies", ref="§4 C04"),
 'C05': dict(
    text="(R1) gates as exact dispatch facts: the ARP reply is reachable only through operation==1 (the switch has no other arm), ICMPv4 only through type==8 and code==0, ICMPv6 only through code==0 (tested before anything else) and the type edges {135,128}, with nd_ns_repl on the 135 arm and the echo builder on the 128 arm; all other values therefore reach no reply. (R2) field provenance of every reply: ARP op 2, hardware type 1, sender=(configured MAC, requested address), target=(requester pair), buffer = copy of the request, every setter on every path; echo replies type 0/129, code 0, payload = the request payload slice (identifier, sequence, data), buffers sized from that payload; NA = {136,0,flags 0x60,target=solicited target}, option {2,1,configured MAC}, buffer = packet_size(advert)+packet_size(option), populate then set_options, relayed unchanged.",
    note="pnet payload()/setter offsets trusted (in pnet the ICMP payload starts at the identifier). Membership of the target address is C02.",
    technique="must-pass-through dispatch gates + provenance tables on MIR", ref="§4 C05"),
 'C12': dict(
    text="Decides each protocol's reply-marker gate and that the responder's own output carries the marker: ARP op 2, ICMP type 0, ICMPv6 types 129/136 have no arm and replies are reachable only through the request values; all 512 TCP flag values: SYN|ACK, RST and every RST-bearing / SYN+ACK set without PSH|ACK select drop arms; STUN replies lie behind class==0 and method==1 and the response is written with class 2; SMB1/SMB2 payload dissectors are created only behind (flags & 0x80/0x1) clear, the payload slot has no other writer and the header repl() builds nothing without it; DNS replies lie behind header.QR==0 (QR = bit 15 of the flags word) and the response header sets QR=1; the two ONC-RPC signatures contain the literal message type 0 and the reply header starts with message type 1.",
    note="Not decided: the 'at most two replies' bound for messages that are simultaneously a reply of X and a valid request of another protocol Y, and the SSH/Gh0st self-similar exchanges (not in the statement's list).",
    technique="must-pass-through gates + constant extraction + exhaustive flag table on MIR", ref="§4 C12"),
 'C01': dict(
    text="Inventories every abort site (MIR Assert terminators, panicking entry points, unwrap/expect, and a table of may-panic APIs: indexing/slicing, byteorder reads, pnet payload fills) in all functions reachable from reply() - log-macro arguments and both Logger impls included, so code that only runs at higher verbosity is covered - and discharges each by a structural rule: constant conditions; unwrap origin typing (established ClientInfo field via an interprocedural must-set typestate, total packet constructors whose buffer contains minimum_packet_size as an additive term, masked conversions, constant inputs, environment-only failures; a fallible parser result is a violation); guard dominance with no intervening write for bounds, cursors (variable based), x-1, and constant ranges under len tests; type-range and allocation-size arithmetic; match-arm pinning by evaluating the arm's values; counter fields. Whatever is left must appear in the reviewed inventory rules/c01_vetted.json (keys without line numbers, one reason each); a site neither discharged nor vetted is a violation. Also: no lock re-entry from the get_tcb callback. Thorough tier repeats the analysis on release MIR (overflow checks off).",
    note="About a quarter of the sites (parser-state / automaton-table invariants, size bounds that rest on the 4096-byte capture buffer) are assumed by review, not proved; the evidence separates discharged_by_rule from assumed_by_review. Loop termination, panics inside std/dependencies on valid arguments and environment failures (stdout closed, clock before 1970, OOM) are not decided.",
    technique="abort-site inventory over the call-graph cone + guard-dominance / typestate / range discharge rules on MIR + reviewed residual", ref="§4 C01"),
 'C13': dict(
    text="(R1) http::repl returns a response only behind state == CONTENT, tested after http_parse consumed the whole segment; (R2) the request parser is extracted from MIR as a finite automaton by evaluating the loop body for every reachable state and all 256 byte values (14 states x 256 = 3584 transitions): every transition is decided, only the current byte is read (pure fold), FAIL and CONTENT are absorbing; (R5) language-level decision on the product of that automaton with two reference automata written from the statement: every request of the grammar (target, HTTP/d+.d+, CRLF or bare LF, name:value lines, empty line) reaches CONTENT, and nothing outside the most lenient reading of request-line/header-line/empty-line does - so malformed or unterminated requests are never answered, for all byte strings; (R3) the response template starts with HTTP/1.1 401, has WWW-Authenticate, an empty line before the body, Content-Length = len() of exactly the body value, nothing after the body; (R4) HTTP_VERBS has nine entries and feeds both matchers.",
    note="Not decided: that the run-time compiled method matcher (HTTP_SMACK) accepts exactly the nine methods (the FSM is analysed from the state after the method). std is_ascii_digit is modelled from its documentation.",
    technique="FSM extraction by exhaustive partial evaluation of MIR + automata inclusion against reference automata + format-template decoding", ref="§4 C13"),
 'C18': dict(
    text="SSH: the banner parser is extracted from MIR as a finite automaton over (state, prev_state) by evaluating the loop body for all reachable states x 256 bytes (15 states, one-byte push-back after a lone CR included); it is a pure fold, EOB and FAIL are absorbing, and on the product with two reference automata written from the statement every identification 'SSH-' [0-9.]+ '-' software [SP comment] CR LF (lone CR allowed inside software/comment) reaches EOB while nothing that is not 'SSH-' [0-9.]* '-' ... CR LF does; ssh::repl answers exactly the constant SSH-2.0-1 CR LF and only behind state == EOB of the state parsed from this payload. Gh0st: reply = magic ++ LE32(len(compressed)+len(magic)+8) ++ LE32(len of the buffer fed to the encoder) ++ encoder output, by provenance of the two length counters, their (x % 256, x /= 256) x4 emission loops and the order of appends.",
    note="flate2 producing a stream that inflates to its input is trusted. The SSH-2.0/SSH-1.99 prefix requirement is the dispatcher signature (C10).",
    technique="FSM extraction by exhaustive partial evaluation of MIR + automata inclusion + provenance", ref="§4 C18"),
 'C17': dict(
    text="Reader/writer agreement extracted from MIR: the reader layout of every SMB dissector (order, width and endianness of the fields, from the per-state arms of parse(): which field is written, by which reader, which state follows) and the writer layout of every repl() (ordered append sequence with byte widths and running offsets) are computed; (R1) each correlation field (SMB1 command/PIDHigh/TID/PIDLow/UID/MID, SMB2 command/MessageId/AsyncId/SessionId) is written at exactly the offset and width it was read from, the magic is first, the reply flag sits at the offset the request flags are read from, the payload follows a header of the request's header length, all appends run once on every reply path; (R2) every embedded length/offset is derived from the bytes actually appended: SecurityBufferOffset = 64 + bytes appended before the blob, blob length fields = len() of the very constant appended, ByteCount = bytes following it, WordCount*2 = parameter bytes present, NetBIOS length = len(payload) as 17-bit big-endian; (R3) only commands {0x72,0x73}/{0,1} get a dissector, a reply needs d.state == End on every path (path-sensitive), SMB2 without an offered supported dialect yields None, the SMB1 dialect index is a position() in the client's list.",
    note="The dialect strings/codes accumulated by the byte FSM and the contents of the security blobs are not decided.",
    technique="reader-layout and writer-layout extraction from MIR + offset/length arithmetic agreement", ref="§4 C17"),
 'C14': dict(
    text="(R1) header: the reader layout (6 big-endian u16 fields, from the dissector arms) and the 12-byte writer layout agree field by field; QR/OPCODE/RD are parsed at bits 15/11/8 of the flags word and serialised at bits 7/3/0 of its high byte (shift agreement), the low flags byte is 0; the response copies ID, OPCODE, RD, QDCOUNT, sets QR=1 and ANCOUNT=QDCOUNT, NSCOUNT/ARCOUNT stay 0; (R2) inside the loop over the query's questions every iteration that continues pushes exactly one echoed question (re-parsed serialisation of the parsed question) and one answer (that question's repl()), otherwise the function returns None; (R3) an answer exists only behind class==IN and type==A (enum discriminant gates), with type A, class IN, positive TTL, RDATA = octets of client_info.ip.dst (IPv4), RDLENGTH = len(RDATA), owner name copied from the question; record and question wire order name/type/class(/ttl/rdlen/rdata) with 2/2/4/2-byte big-endian fields; the u16<->enum code tables are evaluated exhaustively (A=1, IN=1, 28 and 3 are not A/IN); (R4) try_from yields Ok only behind state==End, the end-anchored signature search runs only after NO_MATCH, DNS parsing only behind id==NO_MATCH and only on the datagram path.",
    note="Label structure of names (lengths 0..63, compression, zero bytes inside labels) is not interpreted by the code and not decided here; equality of the number of parsed questions with QDCOUNT is a parser-state invariant (not decided).",
    technique="reader/writer layout extraction + provenance + loop-body must-pass + exhaustive evaluation of code tables on MIR", ref="§4 C14"),
 'C15': dict(
    text="(R1) the transaction id is read as big-endian u128 from bytes 4..20 and the serializer writes id.to_be_bytes() at offset 4 after the 2-byte length at offset 2; the class decoder is evaluated on all 65536 leading byte pairs and equals (byte0 bit0, byte1 bit4); with first byte 00 the request test (class 0, method 1) holds for second byte 01 only; the response is written with class 2 / method 1 and the serializer's two type bytes evaluate to 01 01; response.id is the parsed request id; set_length() (0 then += 4 + attr.len()) runs after the attribute push and before serialisation; (R2) the single attribute pushed is MAPPED-ADDRESS built from client_info.ip.src / port.src with type 1, reserved 0, family 1/2 and value length 4+4 / 4+16 selected on the address variant, serialised type,length,reserved,family,port(be),octets. The change-port rewrite is C03-R2, the class/method gates C12-R2.",
    note="Malformed TLVs are only decided as far as no-panic (C01). The extracted method decoder mis-places method bits above bit 3; harmless behind the dispatcher signature (00 01) and reported as an observation, not claimed.",
    technique="provenance + writer layout + exhaustive evaluation of the bit-field codec expressions on MIR", ref="§4 C15"),
}

NOT_YET = {}

def main():
    props = [json.loads(l) for l in open(os.path.join(HERE, 'properties.jsonl'))]
    checks = []
    na = []
    for p in props:
        pid = p['id']
        if pid in CLAIMED:
            c = CLAIMED[pid]
            checks.append({
                'property_id': pid,
                'quick_cmd': './check %s --tier quick' % pid,
                'thorough_cmd': './check %s --tier thorough' % pid,
                'evidence_file': 'evidence/%s.json' % pid,
                'replay_cmd_template': './check %s --replay {path}' % pid,
                'engine': 'mirfacts+rules',
                'level_claimed': {'category': 'other', 'text': c['text'], 'design_ref': c['ref']},
                'level_note': c['note'] + ' Trusted base: ' + TB,
                'technique': c['technique'],
            })
        else:
            na.append({'property_id': pid, 'reason': NOT_YET.get(pid, 'static rules for this property are not built yet in this tree (work in progress; see DESIGN.md §4 for the plan) - not claimed until the check exists and is silent on the unchanged tree')})
    m = {
        'version': 1,
        'setup_cmd': 'cd /verif && (cd mirfacts && CARGO_NET_OFFLINE=true cargo build --release --offline) && ./check --warm dev',
        'hooks': {
            'guard': 'ivre_masscanned_verif',
            'enable': 'none needed: analysis reads the unmodified source through a rustc_private driver (RUSTC_WORKSPACE_WRAPPER under cargo +nightly check); no hook code exists in /repo',
            'baseline_off_cmd': 'cd /repo && cargo test --workspace --no-fail-fast --offline',
            'source_commits': [],
            'add_only': True,
        },
        'engines': [
            {'name': 'mirfacts', 'path': 'mirfacts/', 'serves_properties': [c['property_id'] for c in checks],
             'kind_free_text': 'rustc_private driver (nightly) that dumps type-checked MIR facts (resolved callees, constants, promoteds, places with field names, ADT layouts, interior-mutability walk) of crate masscanned as JSON'},
            {'name': 'rules', 'path': 'vlib/ rules/', 'serves_properties': [c['property_id'] for c in checks],
             'kind_free_text': 'Python rule engine over the facts: CFG, dominators/gate reachability, reaching-definition provenance normal form, path-sensitive finite-state dataflow, decision-table extraction, call graph, field read/write sets'},
        ],
        'checks': checks,
        'not_applicable': na,
        'notes': 'Technique family: static analysis only. Exit 0 = all rule instances hold; exit 1 + VIOLATION line = a rule instance fails on the current tree; exit 2 (no VIOLATION line) = the checker could not decide (build failure, anchor function missing, instance floor not met) and fails closed. known_findings.json lists fixed/known genuine defects.',
    }
    with open(os.path.join(HERE, 'MANIFEST.json'), 'w') as fh:
        json.dump(m, fh, indent=1)
    print('claimed', [c['property_id'] for c in checks], 'not_applicable', len(na))

if __name__ == '__main__':
    main()
