#!/usr/bin/env python3
"""Development aid (never used by the registered checks): a mutation campaign.
   Simple source mutants of /repo's non-test code are generated; each is built and run against the repository's own
   tests in a scratch worktree; the *survivors* (compile, all tests pass) are what the checks are for: their facts are
   extracted and all rules are run on them.  Output: one JSON line per mutant in <out>/results.jsonl.

   tools/mutation_campaign.py gen  <out> [--per-file N] [--seed S]
   tools/mutation_campaign.py run  <out> --workers W
   tools/mutation_campaign.py report <out>
"""
import sys, os, re, json, random, subprocess, shutil, time
from concurrent.futures import ThreadPoolExecutor

HERE = os.path.dirname(os.path.dirname(os.path.abspath(__file__)))
REPO = '/repo'
PROPS = ['C%02d' % i for i in range(1, 21)]
KNOWN_KEYS = {'proto::repl:handler-input=current-segment'}

OPS = [
    ('rel', r'(?<![=!<>])==(?!=)', '!='), ('rel', r'!=', '=='), ('rel', r'(?<![<-])<(?![<=])(?=\s)', '<='), ('rel', r'<=', '<'),
    ('rel', r'(?<![->=])>(?![>=])(?=\s)', '>='), ('rel', r'>=', '>'),
    ('bool', r'&&', '||'), ('bool', r'\|\|', '&&'),
    ('arith', r'(?<=\s)\+(?=\s)', '-'), ('arith', r'(?<=\s)-(?=\s)', '+'),
    ('shift', r'>>', '<<'), ('shift', r'<<', '>>'),
    ('bit', r'(?<=\s)&(?=\s)', '|'), ('bit', r'(?<=\s)\|(?=\s)', '&'),
    ('neg', r'if !', 'if '),
]


def code_lines(path):
    """(line index, text) of the non-test part of a source file, comments and log-only lines excluded"""
    src = open(path).read().split('\n')
    out = []
    in_block = False
    for i, l in enumerate(src):
        if re.match(r'\s*#\[cfg\(test\)\]', l):
            break
        s = l.strip()
        if in_block:
            if '*/' in s:
                in_block = False
            continue
        if s.startswith('/*'):
            if '*/' not in s:
                in_block = True
            continue
        if not s or s.startswith('//') or s.startswith('*') or s.startswith('use ') or s.startswith('#['):
            continue
        if re.match(r'(warn|info|debug|error|trace|println|panic|assert|assert_eq)!\(', s):
            continue
        out.append((i, l))
    return src, out


def gen(out, per_file, seed):
    rnd = random.Random(seed)
    muts = []
    files = sorted(subprocess.check_output(['git', '-C', REPO, 'ls-files', 'src'], text=True).split())
    files = [f for f in files if f.endswith('.rs')]
    if os.environ.get('MUT_FILES'):
        files = [f for f in files if re.search(os.environ['MUT_FILES'], f)]
    for rel in files:
        src, lines = code_lines(os.path.join(REPO, rel))
        cands = []
        for (i, l) in lines:
            code = l.split('//')[0]
            if '"' in code and re.search(r'(warn|info|debug|error|trace)!', code):
                continue
            for (op, rx, rep) in OPS:
                for m in re.finditer(rx, code):
                    # skip generics / lifetimes / arrows / references
                    ctx = code[max(0, m.start() - 2):m.end() + 2]
                    if op in ('rel',) and re.search(r'->|=>|<\w+>|::<', code[max(0, m.start() - 12):m.end() + 12]) and rep in ('<=', '>=', '<', '>'):
                        continue
                    cands.append({'file': rel, 'line': i, 'col': m.start(), 'old': m.group(0), 'new': rep, 'op': op})
            # numeric constants
            for m in re.finditer(r'(?<![\w.])(0x[0-9a-fA-F_]+|\d+)(?![\w.])', code):
                tok = m.group(1)
                try:
                    v = int(tok.replace('_', ''), 0)
                except ValueError:
                    continue
                new = str(v + 1) if not tok.startswith('0x') else hex(v + 1)
                cands.append({'file': rel, 'line': i, 'col': m.start(), 'old': tok, 'new': new, 'op': 'const+1'})
            # early returns / option results
            if re.match(r'\s*return None;\s*$', code):
                cands.append({'file': rel, 'line': i, 'col': 0, 'old': code, 'new': re.match(r'\s*', code).group(0) + '/* return removed */', 'op': 'del-return'})
            for m in re.finditer(r'\.\.(?=[\w(])', code):
                if re.search(r'\d\.\.|\w\.\.\w|\]\.\.|\)\.\.', code[max(0, m.start() - 1):m.end() + 1]) and '..=' not in code[m.start():m.start() + 3]:
                    cands.append({'file': rel, 'line': i, 'col': m.start(), 'old': '..', 'new': '..=', 'op': 'range-incl'})
            for m in re.finditer(r'\bwrapping_add\b', code):
                cands.append({'file': rel, 'line': i, 'col': m.start(), 'old': 'wrapping_add', 'new': 'wrapping_sub', 'op': 'arith'})
            for m in re.finditer(r'\bis_some\(\)', code):
                cands.append({'file': rel, 'line': i, 'col': m.start(), 'old': 'is_some()', 'new': 'is_none()', 'op': 'neg'})
            for m in re.finditer(r'\bis_none\(\)', code):
                cands.append({'file': rel, 'line': i, 'col': m.start(), 'old': 'is_none()', 'new': 'is_some()', 'op': 'neg'})
            for m in re.finditer(r'\btrue\b', code):
                cands.append({'file': rel, 'line': i, 'col': m.start(), 'old': 'true', 'new': 'false', 'op': 'bool-const'})
            for m in re.finditer(r'\bfalse\b', code):
                cands.append({'file': rel, 'line': i, 'col': m.start(), 'old': 'false', 'new': 'true', 'op': 'bool-const'})
            for m in re.finditer(r'get_source\(\)', code):
                cands.append({'file': rel, 'line': i, 'col': m.start(), 'old': 'get_source()', 'new': 'get_destination()', 'op': 'swap-getter'})
            for m in re.finditer(r'get_destination\(\)', code):
                cands.append({'file': rel, 'line': i, 'col': m.start(), 'old': 'get_destination()', 'new': 'get_source()', 'op': 'swap-getter'})
            for m in re.finditer(r'\.src\b', code):
                cands.append({'file': rel, 'line': i, 'col': m.start(), 'old': '.src', 'new': '.dst', 'op': 'swap-field'})
            for m in re.finditer(r'\.dst\b', code):
                cands.append({'file': rel, 'line': i, 'col': m.start(), 'old': '.dst', 'new': '.src', 'op': 'swap-field'})
            # statement deletion: a call statement on its own line
            if re.match(r'\s*[\w.]+\.(set_\w+|push|push_str|extend_from_slice|append|insert|populate|\w+_drop|\w+_send|\w+_recv)\(.*\);\s*$', code):
                cands.append({'file': rel, 'line': i, 'col': 0, 'old': code, 'new': re.match(r'\s*', code).group(0) + '/* removed */', 'op': 'del-stmt'})
        rnd.shuffle(cands)
        # spread over operators
        seen = {}
        picked = []
        for c in cands:
            k = c['op']
            if seen.get(k, 0) >= max(2, per_file // 4):
                continue
            seen[k] = seen.get(k, 0) + 1
            picked.append(c)
            if len(picked) >= per_file:
                break
        muts += picked
    os.makedirs(out, exist_ok=True)
    if os.environ.get('MUT_EXCLUDE'):
        seen_ = set()
        for p_ in os.environ['MUT_EXCLUDE'].split(':'):
            for x in json.load(open(p_)):
                seen_.add((x['file'], x['line'], x['col'], x['old'], x['new']))
        muts = [m for m in muts if (m['file'], m['line'], m['col'], m['old'], m['new']) not in seen_]
    for k, m in enumerate(muts):
        m['id'] = k
    json.dump(muts, open(os.path.join(out, 'mutants.json'), 'w'), indent=0)
    print('%d mutants in %d files' % (len(muts), len(files)))


def sh(cmd, **k):
    return subprocess.run(cmd, capture_output=True, text=True, **k)


def setup_worker(i):
    wt = '/tmp/mw%d' % i
    tg = '/tmp/mw%d-target' % i
    if not os.path.isdir(wt):
        sh(['git', '-C', REPO, 'worktree', 'add', '--detach', wt, 'HEAD'])
    sh(['git', '-C', wt, 'checkout', '-q', '--', '.'])
    if not os.path.isdir(tg) and os.path.isdir('/tmp/wt-target'):
        shutil.copytree('/tmp/wt-target', tg, symlinks=True)
    return wt, tg


def run_one(m, wt, tg, out):
    p = os.path.join(wt, m['file'])
    src = open(p).read().split('\n')
    l = src[m['line']]
    if m['op'] == 'del-stmt':
        src[m['line']] = m['new']
    else:
        if l[m['col']:m['col'] + len(m['old'])] != m['old']:
            return dict(m, status='stale')
        src[m['line']] = l[:m['col']] + m['new'] + l[m['col'] + len(m['old']):]
    open(p, 'w').write('\n'.join(src))
    res = dict(m, mutated=src[m['line']].strip()[:160], original=l.strip()[:160])
    try:
        env = dict(os.environ, CARGO_TARGET_DIR=tg, CARGO_NET_OFFLINE='true')
        r = sh(['cargo', 'test', '--offline'], cwd=wt, env=env, timeout=600)
        txt = r.stdout + r.stderr
        mres = re.search(r'test result: (\w+)\. (\d+) passed; (\d+) failed', txt)
        if 'error' in txt and not mres:
            res['status'] = 'no-compile'
            return res
        if not mres or mres.group(1) != 'ok':
            res['status'] = 'killed-by-tests'
            return res
        res['status'] = 'survived'
        # facts + rules
        env2 = dict(os.environ, VERIF_REPO=wt, CARGO_NET_OFFLINE='true')
        r2 = sh([sys.executable, '-c', "import sys; sys.path.insert(0, %r)\nfrom vlib import extract\nprint(extract.facts_path('dev')[0])" % HERE], env=env2, timeout=900)
        fp = r2.stdout.strip().split('\n')[-1] if r2.returncode == 0 else None
        if not fp or not os.path.exists(fp):
            res['checks'] = 'extract-failed'
            return res
        mine = os.path.join(out, 'facts-%d.json' % m['id'])
        shutil.copy(fp, mine)
        r3 = sh([sys.executable, os.path.join(HERE, 'tools', 'run_on_facts.py'), mine] + PROPS, env=dict(os.environ, MAXV='4'), timeout=1800)
        fired, errs, first = [], [], {}
        cur = None
        for line in r3.stdout.split('\n'):
            mm = re.match(r'^(C\d\d): (\d+) violations', line)
            if mm:
                cur = mm.group(1)
                continue
            me = re.match(r'^(C\d\d): ERROR (.*)', line)
            if me:
                errs.append(me.group(1))
                first[me.group(1)] = me.group(2)[:160]
                continue
            mv = re.match(r'^\s+(C\d\d-R\w+) (.*?) \| ', line)
            if mv and cur:
                if mv.group(2) in KNOWN_KEYS:
                    continue
                if cur not in fired:
                    fired.append(cur)
                    first[cur] = '%s %s' % (mv.group(1), mv.group(2)[:100])
        res['fired'] = fired
        res['errors'] = errs
        res['first'] = first
        os.remove(mine)
        return res
    except subprocess.TimeoutExpired:
        res['status'] = 'timeout'
        return res
    finally:
        sh(['git', '-C', wt, 'checkout', '-q', '--', '.'])


def run(out, workers):
    muts = json.load(open(os.path.join(out, 'mutants.json')))
    done = set()
    rp = os.path.join(out, 'results.jsonl')
    if os.path.exists(rp):
        for l in open(rp):
            try:
                done.add(json.loads(l)['id'])
            except Exception:
                pass
    todo = [m for m in muts if m['id'] not in done]
    ws = [setup_worker(i) for i in range(workers)]
    import queue
    q = queue.Queue()
    for m in todo:
        q.put(m)
    lock = __import__('threading').Lock()

    def work(i):
        wt, tg = ws[i]
        while True:
            try:
                m = q.get_nowait()
            except queue.Empty:
                return
            t0 = time.time()
            try:
                r = run_one(m, wt, tg, out)
            except Exception as e:
                r = dict(m, status='error', error=str(e)[:200])
            r['secs'] = round(time.time() - t0, 1)
            with lock:
                with open(rp, 'a') as fh:
                    fh.write(json.dumps(r) + '\n')
    with ThreadPoolExecutor(workers) as ex:
        list(ex.map(work, range(workers)))


def report(out):
    rs = [json.loads(l) for l in open(os.path.join(out, 'results.jsonl'))]
    import collections
    st = collections.Counter(r['status'] for r in rs)
    print('mutants: %d  %s' % (len(rs), dict(st)))
    sv = [r for r in rs if r['status'] == 'survived']
    det = [r for r in sv if r.get('fired')]
    nov = [r for r in sv if not r.get('fired') and r.get('errors')]
    und = [r for r in sv if not r.get('fired') and not r.get('errors')]
    print('survivors: %d, reported by >=1 check: %d, no-verdict only: %d, silent: %d' % (len(sv), len(det), len(nov), len(und)))
    print('--- silent survivors')
    for r in sorted(und, key=lambda r: (r['file'], r['line'])):
        print('  #%d %s:%d [%s]  %s   =>   %s' % (r['id'], r['file'], r['line'] + 1, r['op'], r.get('original', '')[:90], r.get('mutated', '')[:90]))
    print('--- no verdict only')
    for r in nov:
        print('  #%d %s:%d [%s] %s => %s  %s' % (r['id'], r['file'], r['line'] + 1, r['op'], r.get('original', '')[:60], r.get('mutated', '')[:60], r.get('errors')))


if __name__ == '__main__':
    a = sys.argv[1:]
    if a[0] == 'gen':
        pf = int(a[a.index('--per-file') + 1]) if '--per-file' in a else 12
        sd = int(a[a.index('--seed') + 1]) if '--seed' in a else 1
        gen(a[1], pf, sd)
    elif a[0] == 'run':
        run(a[1], int(a[a.index('--workers') + 1]) if '--workers' in a else 4)
    elif a[0] == 'report':
        report(a[1])
