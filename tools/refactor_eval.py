#!/usr/bin/env python3
"""Behaviour-preserving refactorings must leave every check silent.
   tools/refactor_eval.py R1 R2 ...   evaluates /tmp/seed/<R>/out/refactorN.diff
   tools/refactor_eval.py --stored    re-evaluates /verif/selftest/refactors/*.diff
   For each patch: apply to /repo, run all checks (in parallel), revert.  Prints which checks fired."""
import sys, os, glob, json, subprocess
from concurrent.futures import ThreadPoolExecutor
REPO = '/repo'
HERE = os.path.dirname(os.path.dirname(os.path.abspath(__file__)))


def sh(*a, **k):
    return subprocess.run(*a, capture_output=True, text=True, **k)


def run_checks(props):
    # warm the facts once so the parallel checks do not queue on the extraction lock
    w = sh([os.path.join(HERE, 'check'), '--warm', 'dev'])
    if w.returncode:
        return {'_extract': (2, (w.stdout + w.stderr)[-1500:])}

    def one(p):
        r = sh([os.path.join(HERE, 'check'), p])
        lines = [l.strip() for l in r.stdout.splitlines() if l.startswith('VIOLATION') or l.startswith('  instance') or l.startswith('  rule') or l.startswith('  at')]
        return p, (r.returncode, ' '.join(lines[:12])[:900] if r.returncode == 1 else r.stderr[-900:] if r.returncode else '')
    with ThreadPoolExecutor(8) as ex:
        return dict(ex.map(one, props))


try:
    EXPECTED = json.load(open(os.path.join(HERE, 'selftest', 'refactors', 'EXPECTED.json')))
except Exception:
    EXPECTED = {}


def main():
    args = sys.argv[1:]
    m = json.load(open(os.path.join(HERE, 'MANIFEST.json')))
    props = [c['property_id'] for c in m['checks']]
    if args and args[0] == '--stored':
        diffs = sorted(glob.glob(os.path.join(HERE, 'selftest', 'refactors', '*.diff')))
    else:
        diffs = []
        for r in args:
            diffs += sorted(glob.glob('/tmp/seed/%s/out/refactor*.diff' % r))
    st = sh(['git', '-C', REPO, 'status', '--porcelain', '--untracked-files=no']).stdout
    if st.strip():
        print('repo not clean:', st)
        sys.exit(3)
    bad = 0
    for d in diffs:
        name = d.split('/tmp/seed/')[-1].replace('/out/', '-') if d.startswith('/tmp/seed/') else os.path.basename(d)
        try:
            r = sh(['git', '-C', REPO, 'apply', d])
            if r.returncode:
                print('%s: PATCH DOES NOT APPLY %s' % (name, r.stderr[:200]))
                continue
            res = run_checks(props)
            fired = {p: v for p, v in res.items() if v[0]}
            exp = EXPECTED.get(os.path.basename(d), {})
            for p_ in list(fired):
                if p_ in exp and fired[p_][0] in (1, 2):
                    print('%s: %s %s, as documented: %s' % (name, p_, 'reports' if fired[p_][0] == 1 else 'gives no verdict', exp[p_][:160]))
                    del fired[p_]
            if fired:
                bad += 1
                print('%s: FALSE ALARM in %s' % (name, sorted(fired)))
                for p, (rc, txt) in sorted(fired.items()):
                    print('   %s rc=%d %s' % (p, rc, txt))
            else:
                print('%s: silent (%d checks)' % (name, len(res)))
        finally:
            sh(['git', '-C', REPO, 'checkout', '--', '.'])
    print('refactorings: %d, with alarms: %d' % (len(diffs), bad))
    sys.exit(1 if bad else 0)


main()
