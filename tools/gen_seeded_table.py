#!/usr/bin/env python3
"""Rewrites the seeded-changes table of DESIGN.md from seeded/*/meta.json."""
import json, glob, os, re
ROOT = os.path.dirname(os.path.dirname(os.path.abspath(__file__)))
rows = ['| seed | breaks | what the change does | needs | checks that fire (first failing instance) |', '|------|--------|----------------------|-------|--------------------------------------------|']
for d in sorted(glob.glob(ROOT + '/seeded/*')):
    m = json.load(open(d + '/meta.json'))
    fi = m.get('fired_instances', {})
    fired = '; '.join('%s (%s)' % (p, (fi.get(p) or ['?'])[0].replace('instance ', '')[:60]) for p in m.get('checks_fired', [])) or '**none**'
    def cell(x):
        return re.sub(r'\s+', ' ', str(x)).replace('|', '/')[:230]
    rows.append('| %s | %s | %s | %s | %s |' % (os.path.basename(d), m.get('property'), cell(m.get('summary', '')), cell(m.get('needs', '')), cell(fired)))
s = open(ROOT + '/DESIGN.md').read()
table = '<!-- SEEDED-TABLE-BEGIN -->\n' + '\n'.join(rows) + '\n<!-- SEEDED-TABLE-END -->'
s = re.sub(r'<!-- SEEDED-TABLE-BEGIN -->.*<!-- SEEDED-TABLE-END -->', lambda m_: table, s, flags=re.S)
open(ROOT + '/DESIGN.md', 'w').write(s)
print(len(rows) - 2, 'seeds')
