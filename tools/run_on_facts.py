#!/usr/bin/env python3
"""Development aid: run the rules of one or more properties on a saved facts file instead of /repo's tree
   (tools/run_on_facts.py <facts.json> C06 C07 ...).  Writes nothing under evidence/; prints the violations.
   Never used by the registered checks."""
import sys, os, json
HERE = os.path.dirname(os.path.dirname(os.path.abspath(__file__)))
sys.path.insert(0, HERE)
from vlib import extract, runner
import importlib, traceback


def main():
    path = sys.argv[1]
    extract.facts_path = lambda config='dev': (path, {'source_hash': 'file', 'source_files': 0, 'config': config, 'cached': True})
    rc = 0
    for prop in sys.argv[2:]:
        ctx = runner.Ctx(prop.upper(), 'quick')
        try:
            importlib.import_module('rules.' + prop.lower()).run(ctx)
        except Exception as e:
            print('%s: ERROR %s: %s' % (prop, type(e).__name__, str(e)[:300]))
            if os.environ.get('TB'):
                traceback.print_exc()
            rc = 2
            continue
        bad = []
        for rid in ctx.rep.order:
            for inst in ctx.rep.rules[rid]['instances']:
                if not inst['ok']:
                    bad.append((rid, inst))
        print('%s: %d violations' % (prop, len(bad)))
        for rid, inst in bad[:int(os.environ.get('MAXV', '12'))]:
            print('   %s %s | %s | %s' % (rid, inst['key'], inst.get('loc', ''), str(inst['detail'])[:260]))
        if bad:
            rc = 1
    sys.exit(rc)


main()
