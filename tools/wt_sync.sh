#!/bin/bash
# Bring the scratch worktree /tmp/wt to /repo HEAD + /repo's uncommitted diff + the demonstration tests.
set -e
[ -d /tmp/wt ] || git -C /repo worktree add -f --detach /tmp/wt HEAD >/dev/null
cd /tmp/wt
git checkout -q -f --detach $(git -C /repo rev-parse HEAD)
git clean -qfd
git -C /repo diff | git apply 2>/dev/null || true
cp /verif/demos/vp_demo.rs src/vp_demo.rs
printf '\n#[cfg(test)]\nmod vp_demo;\n' >> src/masscanned.rs
