#!/usr/bin/env python3
"""Apply a mutation to /repo, run checks, revert.  For developing/validating the rules only.
   tools/mut.py --diff file.diff [props...]
   tools/mut.py --sub <relpath> <old> <new> [props...]      (exact, first occurrence; must exist)
   add --test to also run the repo's unit tests on the mutated tree."""
import sys, subprocess, os, json
REPO = '/repo'
HERE = os.path.dirname(os.path.dirname(os.path.abspath(__file__)))

def sh(*a, **k):
    return subprocess.run(*a, **k)

def main():
    args = sys.argv[1:]
    test = False
    if '--test' in args:
        args.remove('--test'); test = True
    st = sh(['git', '-C', REPO, 'status', '--porcelain', '--untracked-files=no'], capture_output=True, text=True).stdout
    if st.strip():
        print('repo not clean:', st); sys.exit(3)
    try:
        if args[0] == '--diff':
            r = sh(['git', '-C', REPO, 'apply', os.path.abspath(args[1])])
            if r.returncode: print('patch failed'); sys.exit(3)
            props = args[2:]
        elif args[0] == '--sub':
            p = os.path.join(REPO, args[1])
            s = open(p).read()
            if args[2] not in s: print('pattern not found'); sys.exit(3)
            open(p, 'w').write(s.replace(args[2], args[3], 1))
            props = args[4:]
        else:
            print(__doc__); sys.exit(3)
        if not props:
            m = json.load(open(os.path.join(HERE, 'MANIFEST.json')))
            props = [c['property_id'] for c in m['checks']]
        if test:
            r = sh('cargo test --offline 2>&1 | tail -3', shell=True, cwd=REPO, capture_output=True, text=True)
            print('TESTS:', r.stdout.strip().replace('\n', ' | '))
        fired = []
        for p in props:
            r = sh([os.path.join(HERE, 'check'), p], capture_output=True, text=True)
            lines = [l for l in r.stdout.splitlines() if l.startswith('VIOLATION') or l.startswith('  instance') or l.startswith('  rule')]
            print('%s rc=%d %s' % (p, r.returncode, '' if r.returncode == 0 else ' '.join(l.strip() for l in lines[:9])[:600]))
            if r.returncode == 2: print(r.stderr[-800:])
            if r.returncode: fired.append(p)
        print('FIRED:', fired)
    finally:
        sh(['git', '-C', REPO, 'checkout', '--', '.'])

main()
