#!/usr/bin/env python3
"""Development aid (never used by the registered checks): targeted regression of rule edits on a corpus of saved
   fact files - one per stored seeded change (seeded/*/patch.diff), one per stored refactoring
   (selftest/refactors/*.diff, named R_<name>.json) and BASE.json (the unchanged tree).

   tools/corpus_eval.py <corpus dir> C06 C07 ...   [--only seeds|refactors]

   For each property P given: every seeded change whose meta.json lists P in checks_fired must still be reported by P,
   every refactoring must leave P silent unless selftest/refactors/EXPECTED.json documents P for it, BASE must be silent.
   Exit 1 if a detection was lost or an undocumented alarm appeared."""
import sys, os, json, glob, subprocess
from concurrent.futures import ThreadPoolExecutor
HERE = os.path.dirname(os.path.dirname(os.path.abspath(__file__)))


def run(facts, prop):
    r = subprocess.run([sys.executable, os.path.join(HERE, 'tools', 'run_on_facts.py'), facts, prop],
                       capture_output=True, text=True, env=dict(os.environ, MAXV='4'))
    return r.returncode, r.stdout.strip()


def main():
    args = [a for a in sys.argv[1:] if not a.startswith('--')]
    only = None
    if '--only' in sys.argv:
        only = sys.argv[sys.argv.index('--only') + 1]
        args = [a for a in args if a != only]
    corpus, props = args[0], [p.upper() for p in args[1:]]
    exp = json.load(open(os.path.join(HERE, 'selftest', 'refactors', 'EXPECTED.json')))
    jobs = []
    for f in sorted(glob.glob(os.path.join(corpus, '*.json'))):
        name = os.path.basename(f)[:-5]
        kind = 'base' if name == 'BASE' else 'refactor' if name.startswith('R_') else 'seed'
        if only and kind != 'base' and not kind.startswith(only.rstrip('s')):
            continue
        for p in props:
            jobs.append((f, name, kind, p))
    with ThreadPoolExecutor(int(os.environ.get('J', '16'))) as ex:
        res = list(ex.map(lambda j: run(j[0], j[3]), jobs))
    bad = 0
    stats = {}
    for (f, name, kind, p), (rc, out) in zip(jobs, res):
        st = stats.setdefault(p, {'seed_kept': 0, 'seed_lost': 0, 'seed_new': 0, 'ref_silent': 0, 'ref_doc': 0, 'ref_alarm': 0})
        if kind == 'seed':
            mj = json.load(open(os.path.join(HERE, 'seeded', name, 'meta.json')))
            was = p in mj.get('checks_fired', [])
            if was and rc != 1:
                bad += 1; st['seed_lost'] += 1
                print('LOST  %s %s rc=%d %s' % (name, p, rc, out[:300]))
            elif was:
                st['seed_kept'] += 1
            elif rc == 1:
                st['seed_new'] += 1
                print('new   %s now also reported by %s: %s' % (name, p, out.replace('\n', ' ')[:260]))
            elif rc:
                print('note  %s %s rc=%d %s' % (name, p, rc, out[:200]))
        else:
            doc = exp.get(name[2:] + '.diff', {}).get(p) if kind == 'refactor' else None
            if rc == 0:
                st['ref_silent'] += 1
            elif doc:
                st['ref_doc'] += 1
            else:
                bad += 1; st['ref_alarm'] += 1
                print('ALARM %s %s rc=%d %s' % (name, p, rc, out[:600]))
    for p, st in sorted(stats.items()):
        print(p, st)
    sys.exit(1 if bad else 0)


main()
