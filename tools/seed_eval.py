#!/usr/bin/env python3
"""Evaluate the seeded defects a sub-agent left in /tmp/seed/<ID>/out:
 1. confirm in the scratch worktree /tmp/wt that the demo fails with the patch and passes without, and that the 93 tests pass;
 2. apply the patch to /repo, run every registered check, revert;
 3. store patch, demo and meta under /verif/seeded/<ID>-<n>/.
usage: tools/seed_eval.py C07 [C09 ...]"""
import sys, os, subprocess, json, glob, shutil, re
ROOT = os.path.dirname(os.path.dirname(os.path.abspath(__file__)))
WT, TGT = '/tmp/wt', '/tmp/wt-target'


def sh(cmd, **k):
    return subprocess.run(cmd, shell=True, capture_output=True, text=True, **k)


def wt_reset():
    head = sh('git -C /repo rev-parse HEAD').stdout.strip()
    sh('git -C %s checkout -q -f --detach %s && git -C %s clean -qfd' % (WT, head, WT))


def run_tests(flt=''):
    r = sh('cd %s && CARGO_TARGET_DIR=%s cargo test --offline %s 2>&1 | grep -E "^test result|^test .*FAILED|error(\\[|:)" | head -20' % (WT, TGT, flt))
    return r.stdout


def recheck_stored(props, only=None):
    """Re-run all checks on every stored seed and refresh checks_fired in its meta.json."""
    for d in sorted(glob.glob(os.path.join(ROOT, 'seeded', '*'))):
        patch = d + '/patch.diff'
        if only and os.path.basename(d) not in only:
            continue
        st = sh('git -C /repo status --porcelain --untracked-files=no').stdout.strip()
        if st:
            print('/repo not clean'); return
        fired, broken, details = [], [], {}
        try:
            if sh('git -C /repo apply %s' % patch).returncode:
                print(os.path.basename(d), 'patch does not apply'); continue
            sh('%s/check --warm dev' % ROOT)       # one extraction, then the 20 checks in parallel
            from concurrent.futures import ThreadPoolExecutor
            with ThreadPoolExecutor(10) as ex:
                results = list(ex.map(lambda p_: (p_, sh('%s/check %s' % (ROOT, p_))), props))
            for p, r in results:
                if r.returncode == 1:
                    fired.append(p)
                    details[p] = [l.strip() for l in r.stdout.splitlines() if l.startswith('  instance')][:4]
                elif r.returncode != 0:
                    broken.append(p)
        finally:
            sh('git -C /repo checkout -- . && git -C /repo clean -qfd src')
        mj = json.load(open(d + '/meta.json'))
        mj.update({'checks_fired': fired, 'checks_broken': broken, 'fired_instances': details})
        json.dump(mj, open(d + '/meta.json', 'w'), indent=1)
        own = mj.get('property') in fired
        print('%-8s breaks %s  fired=%s%s %s' % (os.path.basename(d), mj.get('property'), fired, ' broken=%s' % broken if broken else '', '' if own else '   <-- own property NOT fired'))


def main():
    props = [c['property_id'] for c in json.load(open(os.path.join(ROOT, 'MANIFEST.json')))['checks']]
    if sys.argv[1:2] == ['--stored']:
        recheck_stored(props, set(sys.argv[2:]))
        return
    for pid in sys.argv[1:]:
        out = '/tmp/seed/%s/out' % pid
        for patch in sorted(glob.glob(out + '/patch*.diff')):
            n = re.search(r'patch(\d*)\.diff', patch).group(1) or '1'
            demo = out + '/seed_demo%s.rs' % n
            if not os.path.exists(demo):
                demo = out + '/seed_demo.rs'
            meta = out + '/meta%s.json' % n
            prop = ('C' + pid[1:]) if pid[0] in 'HKLM' else pid
            name = ('%s-%s%s' % (prop, pid[0].lower(), n)) if pid[0] in 'HKLM' else '%s-%s' % (pid, n)
            print('=====', name)
            # 1. confirm
            wt_reset()
            shutil.copy(demo, WT + '/src/seed_demo.rs')
            open(WT + '/src/masscanned.rs', 'a').write('\n#[cfg(test)]\nmod seed_demo;\n')
            base = run_tests()
            ap = sh('cd %s && git apply %s' % (WT, patch))
            if ap.returncode:
                print('  patch does not apply:', ap.stderr[:200]); continue
            withp = run_tests()
            demo_fail = 'FAILED' in withp
            m = re.search(r'(\d+) passed; (\d+) failed', withp)
            mb = re.search(r'(\d+) passed; (\d+) failed', base)
            nonseed_fail = [l for l in withp.splitlines() if re.match(r'^test \S+ \.\.\. FAILED', l) and 'seed_demo' not in l]
            print('  without patch: %s | with patch: %s | non-demo failures: %s' % (mb.group(0) if mb else base[:80], m.group(0) if m else withp[:80], nonseed_fail))
            confirmed = bool(mb) and mb.group(2) == '0' and demo_fail and not nonseed_fail
            # 2. my checks
            st = sh('git -C /repo status --porcelain --untracked-files=no').stdout.strip()
            if st:
                print('  /repo not clean, skipping'); continue
            fired, broken = [], []
            try:
                a2 = sh('git -C /repo apply %s' % patch)
                if a2.returncode:
                    print('  patch does not apply to /repo'); continue
                details = {}
                sh('%s/check --warm dev' % ROOT)       # one extraction, then the 20 checks in parallel
                from concurrent.futures import ThreadPoolExecutor
                with ThreadPoolExecutor(10) as ex:
                    results = list(ex.map(lambda p_: (p_, sh('%s/check %s' % (ROOT, p_))), props))
                for p, r in results:
                    if r.returncode == 1:
                        fired.append(p)
                        details[p] = [l.strip() for l in r.stdout.splitlines() if l.startswith('  instance')][:4]
                    elif r.returncode != 0:
                        broken.append(p)
            finally:
                sh('git -C /repo checkout -- . && git -C /repo clean -qfd src')
            print('  confirmed=%s fired=%s broken=%s' % (confirmed, fired, broken))
            for p, d in details.items():
                print('     %s: %s' % (p, d))
            # 3. store
            if confirmed:
                d = os.path.join(ROOT, 'seeded', name)
                os.makedirs(d, exist_ok=True)
                shutil.copy(patch, d + '/patch.diff')
                shutil.copy(demo, d + '/seed_demo.rs')
                mj = {}
                try:
                    mj = json.load(open(meta))
                except Exception:
                    pass
                mj.update({'property': prop, 'round': {'H': 'hard', 'K': 'hard2', 'L': 'hard3', 'M': 'round6'}.get(pid[0], 'first'), 'confirmed_by_me': 'scratch worktree /tmp/wt at /repo HEAD: demo passes without the patch (%s), fails with it (%s), no other test fails' % (mb.group(0), m.group(0) if m else '?'),
                           'checks_fired': fired, 'checks_broken': broken, 'fired_instances': details})
                json.dump(mj, open(d + '/meta.json', 'w'), indent=1)
    wt_reset()


main()
