#!/usr/bin/env python3
"""Freeze the list of functions the rule set knows (rules/anchors.json).  Run on a tree the rules were reviewed
against; any crate-local function that is not in this list is treated as an extracted helper and inlined into its
callers before the rules run (vlib/inline.py)."""
import json, os, sys
HERE = os.path.dirname(os.path.dirname(os.path.abspath(__file__)))
sys.path.insert(0, HERE)
from vlib import extract
path, info = extract.facts_path('dev')
d = json.load(open(path))
fns = sorted(f['id'] for f in d['fns'] if f['kind'] != 'Closure')
json.dump({'source_hash': info['source_hash'], 'count': len(fns), 'functions': fns}, open(os.path.join(HERE, 'rules', 'anchors.json'), 'w'), indent=0)
print(len(fns), 'anchors')
