#!/usr/bin/env python3
"""Refreshes the `rules (instances)` column of DESIGN.md 8.2 from evidence/*.json (run ./check --all first)."""
import json, os, re
ROOT = os.path.dirname(os.path.dirname(os.path.abspath(__file__)))
s = open(ROOT + '/DESIGN.md').read()
i = s.index('### 8.2')
j = s.index('### 8.3')
sec = s[i:j]
out = []
for line in sec.splitlines():
    m = re.match(r'^\| (C\d\d) \| (.*?) \| (.*?) \| (.*) \|$', line)
    if not m:
        out.append(line)
        continue
    pid = m.group(1)
    ev = json.load(open('%s/evidence/%s.json' % (ROOT, pid)))
    rules = ev['coverage']['rules']
    old_names = dict(re.findall(r'(R\d+\w*) ([^,(]*?) \(\d+', m.group(2)))
    cells = []
    for rid, r in rules.items():
        short = rid.split('-', 1)[1]
        name = old_names.get(short, '').strip()
        cells.append('%s%s (%d)' % (short, (' ' + name) if name else '', r['instances']))
    out.append('| %s | %s | %s | %s |' % (pid, ', '.join(cells), m.group(3), m.group(4)))
s = s[:i] + '\n'.join(out) + '\n' + s[j:]
open(ROOT + '/DESIGN.md', 'w').write(s)
print('ok')
