#!/usr/bin/env python3
"""Builds rules/c01_vetted.json: the reviewed inventory of abort sites that no structural rule discharges.
Each residual key (function | kind | operand heads, no line numbers) must match exactly one reviewed pattern below;
the reason was written after reading the code.  Run after `C01_DUMP=.work/c01_residual.txt ./check C01` on a tree where
every residual site has been reviewed.  Unmatched keys are printed and NOT added."""
import re, json, sys, collections

PATTERNS = [
 # ---- byte-wise dissectors (SMB / DNS): invariants of PacketDissector
 (r'^<proto::smb::SMB[12]\w+ as proto::dissector::MPacket>::parse\|bounds\|in:arg1\.d\.i\|c:(4|8|16)$', 'fsm-invariant',
  'fixed-size field buffer indexed by d.i: d.i is 0 on entering the state (next_state resets it) and the state is left by next_state_when_i_reaches(.., N) right after the increment that makes it N, so d.i < N inside the state'),
 (r'^<proto::dns::DNSPacket as proto::dissector::MPacket>::parse\|(Sub|vec-index)\|', 'fsm-invariant',
  'qd/rr is pushed to before DNSState::Query/Answer is entered (and again before each further record), so len >= 1 and len-1 is a valid index in those states'),
 (r'^proto::dissector::PacketDissector::<T>::_read_ulesize\|(Mul\|c:8\|in:arg1\.i|Shl\|\(c:8 Mul in:arg1\.i\)|Add\|arg3\|)', 'fsm-invariant',
  'self.i < size <= 8 while a little-endian field is being read (reset by next_state_when_i_reaches), so 8*i <= 56 and value + (byte << 8*i) < 2^64'),
 (r'^proto::dissector::PacketDissector::<T>::_read_usize\|Add\|\(arg3 Shl c:8\)\|in:arg2$', 'fsm-invariant',
  'big-endian accumulation of at most 4 bytes into a usize that started at 0 for this field: (value << 8) + byte < 2^32'),
 # ---- RPC
 (r'^proto::rpc::read_u32\|(Add\|\(arg3 Mul c:256\)\|arg2|Mul\|arg3\|c:256)$', 'fsm-invariant',
  'each 32-bit field is accumulated from 0 over exactly 4 bytes (cur_len counts to 4, the state machine only moves forward, End is absorbing), so value*256+byte < 2^32'),
 (r'^proto::rpc::read_u32\|Add\|in:arg1\.cur_len\|c:1$|^proto::rpc::rpc_parse\|Add\|loopvar\|c:1$', 'fsm-invariant',
  'cur_len is reset to 0 as soon as it reaches 4'),
 (r'^proto::rpc::read_string\|Sub\|in:arg1\.data_len\|c:1$', 'fsm-invariant',
  'RpcState::Creds is entered only with data_len != 0 and left when it reaches 0; RpcState::Verif is never entered (VerifLen always continues to End)'),
 (r'^proto::rpc::get_nth_byte\|(Shl|Shr|Sub|unwrap)\|', 'caller-range',
  'every caller passes the loop variable of `for i in 0..4` (push_u32, repl_tcp), so 3-nth is 0..3, the shift is 0..24 and the masked byte fits u8'),
 (r'^proto::rpc::(push_string_pad|repl_tcp|repl_udp)\|unwrap\|try_into\(len\(\)\)$', 'size-bound',
  'length of a reply / formatted address / datagram converted to u32: all are far below 4 GiB (frames are at most 4096 bytes, replies are built from fixed templates)'),
 (r'^proto::rpc::build_repl_portmap\|panic\|Wrong RPC version$', 'caller-gate',
  'build_repl_portmap is only called from build_repl behind the test 2 <= prog_version <= 4, and prog_version is not written in between'),
 (r'^proto::rpc::repl_tcp\|panic\|explicit panic$|^proto::http::repl\|panic\|explicit panic$', 'flow-invariant',
  'the control block holds the HTTP (resp. RPC) variant only when it was created by this very handler, and the protocol id of a flow is sticky (proto::repl never changes an id in 1..=8), so the other variant cannot be met here (ingredients checked by C11-R2)'),
 # ---- HTTP / SSH cursors
 (r'^proto::http::http_parse\|Sub\|loopvar\|c:1$', 'callee-contract',
  'i -= 1 directly after Smack::search_next(.., data, &mut i) that was called with i < data.len(): search_next consumes at least one byte (inner_match runs at least one iteration or the match branch adds 1), so i >= 1'),
 (r'^proto::http::http_parse\|slice-index\|arg2\|Range\{\}$', 'callee-contract',
  'data[i_save..i]: i_save is the cursor before search_next and i the cursor after it; search_next only advances the offset and never beyond data.len()'),
 (r'^proto::(http::http_parse|ssh::ssh_parse)\|Add\|loopvar\|c:1$', 'cursor',
  'i += 1 at the bottom of `while i < data.len()`; i is at most data.len() <= isize::MAX there'),
 (r'^proto::ssh::ssh_parse\|Sub\|loopvar\|c:1$', 'fsm-invariant',
  'i -= 1 in state LF: that state is entered only after a CR was consumed earlier in the same call (ssh::repl parses with a fresh ProtocolState), so i >= 1'),
 # ---- STUN
 (r'^proto::stun::StunPacket::get_attributes\|(Add|vec-index)\|', 'loop-guard',
  'loop condition i + 4 < data.len() (i <= 4096): i+4 and i + 4 + attr.len() (u16) cannot overflow usize, and data[i..] has i < len'),
 (r'^proto::stun::StunPacket::new\|(Add\|c:20\|read_u16\(index\(\)\)|slice-index\|arg1\|Range\{\})$', 'size-bound',
  '(20 + length) in u16 after the test data.len() >= 20 + length: a payload of 65516 bytes or more cannot arrive (capture buffer 4096 bytes, UDP/TCP payload < 65516); the slice 20..20+length is inside data by the same test'),
 (r'^proto::stun::StunPacket::set_length\|Add\|', 'reply-shape',
  'set_length runs on the response only, which carries exactly one MAPPED-ADDRESS attribute (length 8 or 20): 4 + 20 fits u16'),
 # ---- time
 (r'repl\|(Add\|c:11644473600\|as_secs\(duration_since\(\)\)|Mul\|\(c:11644473600 Add as_secs\(\)\)\|c:\d+)$', 'environment',
  'Windows FILETIME of the current time: (11644473600 + unix_secs) * 10^7 fits u64 until the year 30828'),
 # ---- L3/L4
 (r'^layer_3::ipv4::repl\|unwrap\|try_into\(len\(\)\)$', 'size-bound',
  'UDP reply length to u16: application replies are fixed templates or at most a few bytes per question of a <= 4096 byte request, far below 64 KiB'),
 (r'^layer_4::tcp::repl\|unwrap\|generate\(arg3,arg2\.synack_key\)$', 'established',
  'generate() fails only if an address/port field is None or the two addresses are of different families; all four are established (C01-R2 typestate) and both addresses come from one IP header (C03-R2)'),
 (r'^layer_4::tcp::repl\|unwrap\|sel\{generate\(\)\|in:arg3\.cookie\}$', 'established',
  'client_info.cookie is Some(cookie) on the Ok path of generate(); the Err path cannot happen (previous entry)'),
 # ---- smack automaton (built once from constant patterns by Smack::compile)
 (r'^smack::smack::Smack::(inner_match|inner_match_shift7|search_next|search_next_end)\|', 'automaton-invariant',
  'indices into the compiled automaton: every transition target is a row < m_state_count (= rows of transitions and of m_match), columns are symbols < 2^row_shift, char_to_symbol has 258 entries (ALPHABET_SIZE) and is indexed by a byte or CHAR_ANCHOR_END=257, the per-row match list is indexed by a count in 1..=m_count; the input vector px is indexed by idx < length = px.len(); offsets only grow up to len'),
]


def main():
    items = collections.OrderedDict()
    cur = None
    for l in open('/verif/.work/c01_residual.txt'):
        if not l.startswith('      '):
            cur = l.rstrip('\n')
            items[cur] = 0
        else:
            items[cur] += 1
    out = {}
    bad = 0
    for k, n in items.items():
        ms = [(c, r) for (rx, c, r) in PATTERNS if re.search(rx, k)]
        if len(ms) != 1:
            print('UNMATCHED' if not ms else 'AMBIGUOUS', n, k)
            bad += 1
            continue
        out[k] = {'count': n, 'class': ms[0][0], 'reason': ms[0][1]}
    json.dump(out, open('/verif/rules/c01_vetted.json', 'w'), indent=1, sort_keys=True)
    print('vetted keys', len(out), 'sites', sum(v['count'] for v in out.values()), 'unmatched', bad)


main()
