#![feature(rustc_private)]
extern crate rustc_abi;
extern crate rustc_ast;
extern crate rustc_driver;
extern crate rustc_hir;
extern crate rustc_interface;
extern crate rustc_middle;
extern crate rustc_span;

use rustc_driver::Compilation;
use rustc_hir::def::DefKind;
use rustc_hir::def_id::DefId;
use rustc_middle::mir::{self, Body, Operand, Place, Rvalue, StatementKind, TerminatorKind};
use rustc_middle::ty::{self, TyCtxt};
use std::fmt::Write as _;

fn esc(s: &str) -> String {
    let mut o = String::with_capacity(s.len() + 2);
    o.push('"');
    for c in s.chars() {
        match c {
            '"' => o.push_str("\\\""),
            '\\' => o.push_str("\\\\"),
            '\n' => o.push_str("\\n"),
            '\r' => o.push_str("\\r"),
            '\t' => o.push_str("\\t"),
            c if (c as u32) < 0x20 => {
                let _ = write!(o, "\\u{:04x}", c as u32);
            }
            c => o.push(c),
        }
    }
    o.push('"');
    o
}

struct Cx<'tcx> {
    tcx: TyCtxt<'tcx>,
}

impl<'tcx> Cx<'tcx> {
    fn span(&self, sp: rustc_span::Span) -> String {
        let sm = self.tcx.sess.source_map();
        // outermost call site if from expansion
        let exp = sp.from_expansion();
        let root = sp.source_callsite();
        let lo = sm.lookup_char_pos(root.lo());
        let mac = if exp {
            let mut name = String::new();
            for e in sp.macro_backtrace() {
                name = format!("{}", e.kind.descr());
            }
            name
        } else {
            String::new()
        };
        format!(
            "{{\"file\":{},\"line\":{},\"exp\":{},\"macro\":{}}}",
            esc(&format!("{}", lo.file.name.prefer_local_unconditionally())),
            lo.line,
            exp,
            esc(&mac)
        )
    }

    fn place(&self, body: &Body<'tcx>, p: &Place<'tcx>) -> String {
        let mut projs: Vec<String> = vec![];
        for (base, elem) in p.iter_projections() {
            match elem {
                mir::ProjectionElem::Deref => projs.push("\"deref\"".into()),
                mir::ProjectionElem::Field(fidx, _) => {
                    let bty = base.ty(body, self.tcx);
                    let mut name = format!("{}", fidx.index());
                    let mut adtn = String::new();
                    if let ty::Adt(adt, _) = bty.ty.kind() {
                        let var = match bty.variant_index {
                            Some(v) => adt.variant(v),
                            None => {
                                if adt.is_enum() {
                                    adt.variant(rustc_abi::FIRST_VARIANT)
                                } else {
                                    adt.non_enum_variant()
                                }
                            }
                        };
                        if fidx.index() < var.fields.len() {
                            name = var.fields[fidx].name.to_string();
                        }
                        adtn = self.tcx.def_path_str(adt.did());
                    }
                    projs.push(format!("{{\"f\":{},\"adt\":{},\"i\":{}}}", esc(&name), esc(&adtn), fidx.index()));
                }
                mir::ProjectionElem::Downcast(sym, vidx) => {
                    let n = sym.map(|s| s.to_string()).unwrap_or_default();
                    projs.push(format!("{{\"downcast\":{},\"v\":{}}}", esc(&n), vidx.index()));
                }
                mir::ProjectionElem::Index(l) => projs.push(format!("{{\"index\":{}}}", l.index())),
                mir::ProjectionElem::ConstantIndex { offset, from_end, .. } => {
                    projs.push(format!("{{\"cidx\":{},\"from_end\":{}}}", offset, from_end))
                }
                mir::ProjectionElem::Subslice { from, to, from_end } => {
                    projs.push(format!("{{\"subslice\":[{},{}],\"from_end\":{}}}", from, to, from_end))
                }
                _ => projs.push("\"other\"".into()),
            }
        }
        format!("{{\"l\":{},\"p\":[{}]}}", p.local.index(), projs.join(","))
    }

    fn constant(&self, did: DefId, c: &mir::ConstOperand<'tcx>) -> String {
        let tcx = self.tcx;
        let tenv = ty::TypingEnv::post_analysis(tcx, did);
        let ty = c.const_.ty();
        let mut parts: Vec<String> = vec![format!("\"k\":\"const\",\"ty\":{}", esc(&format!("{:?}", ty)))];
        if let ty::FnDef(fd, _) = ty.kind() {
            parts.push(format!("\"fn\":{}", esc(&tcx.def_path_str(*fd))));
        }
        if let mir::Const::Unevaluated(uv, _) = c.const_ {
            match uv.promoted {
                Some(p) => parts.push(format!("\"promoted\":{}", p.index())),
                None => parts.push(format!("\"name\":{}", esc(&tcx.def_path_str(uv.def)))),
            }
        }
        if let Some(si) = c.const_.try_eval_scalar_int(tcx, tenv) {
            parts.push(format!("\"val\":{}", si.to_bits_unchecked()));
        } else if let Ok(val) = c.const_.eval(tcx, tenv, c.span) {
            // slices (&str, &[u8])
            if let Some(bytes) = (if matches!(val, mir::ConstValue::Slice { .. }) { val.try_get_slice_bytes_for_diagnostics(tcx) } else { None }) {
                if let Ok(s) = std::str::from_utf8(bytes) {
                    if matches!(ty.kind(), ty::Ref(_, t, _) if t.is_str()) {
                        parts.push(format!("\"str\":{}", esc(s)));
                    }
                }
                let hex: String = bytes.iter().map(|b| format!("{:02x}", b)).collect();
                parts.push(format!("\"bytes\":{}", esc(&hex)));
            } else if let mir::ConstValue::Indirect { alloc_id, offset } = val {
                // `const X: [u8; N] = [..]` used by value: the bytes themselves
                if let ty::Array(et, n) = ty.kind() {
                    if *et == tcx.types.u8 {
                        if let Some(n) = n.try_to_target_usize(tcx) {
                            if let rustc_middle::mir::interpret::GlobalAlloc::Memory(a) = tcx.global_alloc(alloc_id) {
                                let a = a.inner();
                                let off = offset.bytes() as usize;
                                if a.len() >= off + n as usize {
                                    let b = a.inspect_with_uninit_and_ptr_outside_interpreter(off..off + n as usize);
                                    let hex: String = b.iter().map(|b| format!("{:02x}", b)).collect();
                                    parts.push(format!("\"bytes\":{}", esc(&hex)));
                                }
                            }
                        }
                    }
                }
                // `const X: [u32; N] = [..]` (any integer element type) used by value: the element values
                if let ty::Array(et, n) = ty.kind() {
                    let esz = match et.kind() {
                        ty::Uint(u) => u.bit_width().map(|w| w / 8).or(Some(8)),
                        ty::Int(i) => i.bit_width().map(|w| w / 8).or(Some(8)),
                        _ => None,
                    };
                    if let (Some(esz), Some(n)) = (esz, n.try_to_target_usize(tcx)) {
                        let esz = esz as usize;
                        if esz > 1 && esz <= 8 && n <= 4096 {
                            if let rustc_middle::mir::interpret::GlobalAlloc::Memory(a) = tcx.global_alloc(alloc_id) {
                                let a = a.inner();
                                let off = offset.bytes() as usize;
                                let tot = esz * n as usize;
                                if a.len() >= off + tot {
                                    let b = a.inspect_with_uninit_and_ptr_outside_interpreter(off..off + tot);
                                    let mut vals: Vec<String> = Vec::new();
                                    for k in 0..n as usize {
                                        let mut v: u64 = 0;
                                        for j in 0..esz {
                                            v |= (b[k * esz + j] as u64) << (8 * j);
                                        }
                                        vals.push(format!("{}", v));
                                    }
                                    parts.push(format!("\"ints\":[{}],\"ety\":{}", vals.join(","), esc(&format!("{:?}", et))));
                                }
                            }
                        }
                    }
                }
                // `const X: &[u8] = b"..."`: a fat pointer stored in memory
                if let ty::Ref(_, inner, _) = ty.kind() {
                    let is_bytes = matches!(inner.kind(), ty::Slice(e) if *e == tcx.types.u8) || inner.is_str();
                    if is_bytes {
                        if let rustc_middle::mir::interpret::GlobalAlloc::Memory(a) = tcx.global_alloc(alloc_id) {
                            let a = a.inner();
                            let off = offset.bytes() as usize;
                            if a.len() >= off + 16 {
                                let raw = a.inspect_with_uninit_and_ptr_outside_interpreter(off..off + 16);
                                let mut p8 = [0u8; 8];
                                p8.copy_from_slice(&raw[0..8]);
                                let mut l8 = [0u8; 8];
                                l8.copy_from_slice(&raw[8..16]);
                                let poff = u64::from_le_bytes(p8) as usize;
                                let len = u64::from_le_bytes(l8) as usize;
                                if let Some(prov) = a.provenance().ptrs().get(&rustc_abi::Size::from_bytes(off as u64)) {
                                    if let Some(rustc_middle::mir::interpret::GlobalAlloc::Memory(t)) = tcx.try_get_global_alloc(prov.alloc_id()) {
                                        let t = t.inner();
                                        if t.len() >= poff + len {
                                            let b = t.inspect_with_uninit_and_ptr_outside_interpreter(poff..poff + len);
                                            let hex: String = b.iter().map(|b| format!("{:02x}", b)).collect();
                                            parts.push(format!("\"bytes\":{}", esc(&hex)));
                                        }
                                    }
                                }
                            }
                        }
                    }
                }
            } else if let mir::ConstValue::Scalar(rustc_middle::mir::interpret::Scalar::Ptr(ptr, _)) = val {
                // &[u8; N]
                if let ty::Ref(_, inner, _) = ty.kind() {
                    if let ty::Array(et, n) = inner.kind() {
                        if *et == tcx.types.u8 {
                            if let Some(n) = n.try_to_target_usize(tcx) {
                                let (prov, off) = ptr.into_raw_parts();
                                if let Some(rustc_middle::mir::interpret::GlobalAlloc::Memory(a)) =
                                    tcx.try_get_global_alloc(prov.alloc_id())
                                {
                                    let start = off.bytes() as usize;
                                    let b = a.inner().inspect_with_uninit_and_ptr_outside_interpreter(start..start + n as usize);
                                    let hex: String = b.iter().map(|b| format!("{:02x}", b)).collect();
                                    parts.push(format!("\"bytes\":{}", esc(&hex)));
                                }
                            }
                        }
                    }
                }
            }
        }
        format!("{{{}}}", parts.join(","))
    }

    fn operand(&self, did: DefId, body: &Body<'tcx>, o: &Operand<'tcx>) -> String {
        match o {
            Operand::Copy(p) => format!("{{\"k\":\"copy\",\"place\":{}}}", self.place(body, p)),
            Operand::Move(p) => format!("{{\"k\":\"move\",\"place\":{}}}", self.place(body, p)),
            Operand::Constant(c) => self.constant(did, c),
            _ => format!("{{\"k\":\"other\",\"text\":{}}}", esc(&format!("{:?}", o))),
        }
    }

    fn rvalue(&self, did: DefId, body: &Body<'tcx>, rv: &Rvalue<'tcx>) -> String {
        match rv {
            Rvalue::Use(o, _) => format!("{{\"k\":\"use\",\"a\":{}}}", self.operand(did, body, o)),
            Rvalue::Ref(_, bk, p) => format!(
                "{{\"k\":\"ref\",\"mut\":{},\"place\":{}}}",
                matches!(bk, mir::BorrowKind::Mut { .. }),
                self.place(body, p)
            ),
            Rvalue::RawPtr(_, p) => format!("{{\"k\":\"rawptr\",\"place\":{}}}", self.place(body, p)),
            Rvalue::BinaryOp(op, ops) => format!(
                "{{\"k\":\"bin\",\"op\":{},\"a\":{},\"b\":{}}}",
                esc(&format!("{:?}", op)),
                self.operand(did, body, &ops.0),
                self.operand(did, body, &ops.1)
            ),
            Rvalue::UnaryOp(op, o) => format!(
                "{{\"k\":\"un\",\"op\":{},\"a\":{}}}",
                esc(&format!("{:?}", op)),
                self.operand(did, body, o)
            ),
            Rvalue::Cast(k, o, t) => format!(
                "{{\"k\":\"cast\",\"kind\":{},\"a\":{},\"ty\":{}}}",
                esc(&format!("{:?}", k)),
                self.operand(did, body, o),
                esc(&format!("{:?}", t))
            ),
            Rvalue::Aggregate(kind, ops) => {
                let o: Vec<String> = ops.iter().map(|x| self.operand(did, body, x)).collect();
                let k = match &**kind {
                    mir::AggregateKind::Adt(adid, vidx, _, _, _) => {
                        let adt = self.tcx.adt_def(*adid);
                        let v = adt.variant(*vidx);
                        format!(
                            "\"agg\":\"adt\",\"adt\":{},\"variant\":{},\"vidx\":{}",
                            esc(&self.tcx.def_path_str(*adid)),
                            esc(&v.name.to_string()),
                            vidx.index()
                        )
                    }
                    mir::AggregateKind::Tuple => "\"agg\":\"tuple\"".to_string(),
                    mir::AggregateKind::Array(_) => "\"agg\":\"array\"".to_string(),
                    mir::AggregateKind::Closure(cd, _) => {
                        format!("\"agg\":\"closure\",\"closure\":{}", esc(&self.tcx.def_path_str(*cd)))
                    }
                    _ => "\"agg\":\"other\"".to_string(),
                };
                format!("{{\"k\":\"agg\",{},\"ops\":[{}]}}", k, o.join(","))
            }
            Rvalue::Discriminant(p) => format!("{{\"k\":\"discr\",\"place\":{}}}", self.place(body, p)),
            Rvalue::CopyForDeref(p) => format!("{{\"k\":\"use\",\"a\":{{\"k\":\"copy\",\"place\":{}}}}}", self.place(body, p)),
            Rvalue::Repeat(o, _) => format!("{{\"k\":\"repeat\",\"a\":{}}}", self.operand(did, body, o)),
            other => format!("{{\"k\":\"other\",\"text\":{}}}", esc(&format!("{:?}", other))),
        }
    }

    fn callee(&self, did: DefId, body: &Body<'tcx>, func: &Operand<'tcx>) -> String {
        let tcx = self.tcx;
        let fty = func.ty(body, tcx);
        if let ty::FnDef(cdid, args) = fty.kind() {
            let tenv = ty::TypingEnv::post_analysis(tcx, did);
            let decl = tcx.def_path_str(*cdid);
            let mut resolved: Vec<String> = vec![];
            let mut kind = "direct";
            match ty::Instance::try_resolve(tcx, tenv, *cdid, args) {
                Ok(Some(inst)) => {
                    if let ty::InstanceKind::Virtual(..) = inst.def {
                        kind = "virtual";
                    }
                    resolved.push(tcx.def_path_str(inst.def_id()));
                }
                _ => {
                    kind = "unresolved";
                }
            }
            let trait_of = tcx.trait_of_assoc(*cdid).map(|t| tcx.def_path_str(t)).unwrap_or_default();
            let r: Vec<String> = resolved.iter().map(|s| esc(s)).collect();
            format!(
                "\"callee\":{},\"resolved\":[{}],\"ckind\":{},\"trait\":{},\"name\":{}",
                esc(&decl),
                r.join(","),
                esc(kind),
                esc(&trait_of),
                esc(&tcx.item_name(*cdid).to_string())
            )
        } else {
            format!("\"callee\":\"<indirect>\",\"resolved\":[],\"ckind\":\"indirect\",\"trait\":\"\",\"name\":\"\"")
        }
    }

    fn body(&self, did: DefId, body: &Body<'tcx>, out: &mut String) {
        let tcx = self.tcx;
        let mut names: std::collections::HashMap<usize, String> = Default::default();
        for v in body.var_debug_info.iter() {
            if let mir::VarDebugInfoContents::Place(p) = v.value {
                if p.projection.is_empty() {
                    names.insert(p.local.index(), v.name.to_string());
                }
            }
        }
        out.push_str("\"locals\":[");
        for (i, l) in body.local_decls.iter_enumerated() {
            if i.index() > 0 {
                out.push(',');
            }
            let n = names.get(&i.index()).cloned().unwrap_or_default();
            let _ = write!(out, "{{\"ty\":{},\"name\":{}}}", esc(&format!("{:?}", l.ty)), esc(&n));
        }
        out.push_str("],\"blocks\":[");
        for (bb, data) in body.basic_blocks.iter_enumerated() {
            if bb.index() > 0 {
                out.push(',');
            }
            let _ = write!(out, "{{\"cleanup\":{},\"stmts\":[", data.is_cleanup);
            let mut first = true;
            for st in data.statements.iter() {
                if let StatementKind::Assign(b) = &st.kind {
                    let (pl, rv) = &**b;
                    if !first {
                        out.push(',');
                    }
                    first = false;
                    let _ = write!(
                        out,
                        "{{\"lhs\":{},\"rv\":{},\"line\":{}}}",
                        self.place(body, pl),
                        self.rvalue(did, body, rv),
                        tcx.sess.source_map().lookup_char_pos(st.source_info.span.source_callsite().lo()).line
                    );
                }
            }
            out.push_str("],\"term\":");
            let term = data.terminator();
            let sp = self.span(term.source_info.span);
            match &term.kind {
                TerminatorKind::Call { func, args, destination, target, .. } => {
                    let a: Vec<String> = args.iter().map(|x| self.operand(did, body, &x.node)).collect();
                    let _ = write!(
                        out,
                        "{{\"k\":\"call\",{},\"args\":[{}],\"dest\":{},\"target\":{},\"span\":{}}}",
                        self.callee(did, body, func),
                        a.join(","),
                        self.place(body, destination),
                        target.map(|t| t.index() as i64).unwrap_or(-1),
                        sp
                    );
                }
                TerminatorKind::SwitchInt { discr, targets } => {
                    let tg: Vec<String> = targets.iter().map(|(v, t)| format!("[{},{}]", v, t.index())).collect();
                    let _ = write!(
                        out,
                        "{{\"k\":\"switch\",\"discr\":{},\"targets\":[{}],\"otherwise\":{},\"span\":{}}}",
                        self.operand(did, body, discr),
                        tg.join(","),
                        targets.otherwise().index(),
                        sp
                    );
                }
                TerminatorKind::Assert { cond, expected, msg, target, .. } => {
                    let (k, ops): (String, Vec<String>) = match &**msg {
                        mir::AssertKind::BoundsCheck { len, index } => {
                            ("bounds".into(), vec![self.operand(did, body, len), self.operand(did, body, index)])
                        }
                        mir::AssertKind::Overflow(op, a, b) => (
                            format!("overflow:{:?}", op),
                            vec![self.operand(did, body, a), self.operand(did, body, b)],
                        ),
                        mir::AssertKind::OverflowNeg(a) => ("overflowneg".into(), vec![self.operand(did, body, a)]),
                        mir::AssertKind::DivisionByZero(a) => ("div0".into(), vec![self.operand(did, body, a)]),
                        mir::AssertKind::RemainderByZero(a) => ("rem0".into(), vec![self.operand(did, body, a)]),
                        other => {
                            let d = format!("{:?}", other);
                            let name: String = d.chars().take_while(|c| c.is_alphanumeric() || *c == '_').collect();
                            (format!("other:{}", name), vec![])
                        }
                    };
                    let _ = write!(
                        out,
                        "{{\"k\":\"assert\",\"kind\":{},\"cond\":{},\"expected\":{},\"ops\":[{}],\"target\":{},\"span\":{}}}",
                        esc(&k),
                        self.operand(did, body, cond),
                        expected,
                        ops.join(","),
                        target.index(),
                        sp
                    );
                }
                TerminatorKind::Goto { target } => {
                    let _ = write!(out, "{{\"k\":\"goto\",\"target\":{}}}", target.index());
                }
                TerminatorKind::Return => out.push_str("{\"k\":\"return\"}"),
                TerminatorKind::Unreachable => out.push_str("{\"k\":\"unreachable\"}"),
                TerminatorKind::Drop { place, target, .. } => {
                    let _ = write!(out, "{{\"k\":\"drop\",\"place\":{},\"target\":{}}}", self.place(body, place), target.index());
                }
                TerminatorKind::UnwindResume => out.push_str("{\"k\":\"resume\"}"),
                TerminatorKind::FalseEdge { real_target, .. } => {
                    let _ = write!(out, "{{\"k\":\"goto\",\"target\":{}}}", real_target.index());
                }
                TerminatorKind::FalseUnwind { real_target, .. } => {
                    let _ = write!(out, "{{\"k\":\"goto\",\"target\":{}}}", real_target.index());
                }
                other => {
                    let _ = write!(out, "{{\"k\":\"other\",\"text\":{}}}", esc(&format!("{:?}", other)));
                }
            }
            out.push('}');
        }
        out.push(']');
    }
}

fn deep_cells<'tcx>(
    tcx: TyCtxt<'tcx>,
    t: ty::Ty<'tcx>,
    seen: &mut std::collections::HashSet<ty::Ty<'tcx>>,
    chain: &mut Vec<String>,
    out: &mut Vec<String>,
) {
    if !seen.insert(t) || chain.len() > 40 {
        return;
    }
    match t.kind() {
        ty::Adt(adt, args) => {
            let name = tcx.def_path_str(adt.did());
            if adt.is_unsafe_cell() {
                let mut c = chain.clone();
                c.push(format!("{:?}", t));
                out.push(c.join(" > "));
                return;
            }
            chain.push(name);
            for a in args.iter() {
                if let Some(at) = a.as_type() {
                    deep_cells(tcx, at, seen, chain, out);
                }
            }
            for v in adt.variants().iter() {
                for f in v.fields.iter() {
                    let ft = f.ty(tcx, args);
                    deep_cells(tcx, ft, seen, chain, out);
                }
            }
            chain.pop();
        }
        ty::Ref(_, inner, _) => deep_cells(tcx, *inner, seen, chain, out),
        ty::RawPtr(inner, _) => deep_cells(tcx, *inner, seen, chain, out),
        ty::Array(inner, _) => deep_cells(tcx, *inner, seen, chain, out),
        ty::Slice(inner) => deep_cells(tcx, *inner, seen, chain, out),
        ty::Tuple(ts) => {
            for x in ts.iter() {
                deep_cells(tcx, x, seen, chain, out);
            }
        }
        ty::Dynamic(preds, ..) => {
            if let Some(p) = preds.principal_def_id() {
                chain.push(format!("dyn {}", tcx.def_path_str(p)));
                for imp in tcx.all_impls(p) {
                    let st = tcx.type_of(imp).instantiate_identity().skip_norm_wip();
                    deep_cells(tcx, st, seen, chain, out);
                }
                chain.pop();
            }
        }
        _ => {}
    }
}

fn cells_of<'tcx>(tcx: TyCtxt<'tcx>, t: ty::Ty<'tcx>) -> String {
    let mut seen = Default::default();
    let mut chain = vec![];
    let mut out = vec![];
    deep_cells(tcx, t, &mut seen, &mut chain, &mut out);
    let v: Vec<String> = out.iter().map(|s| esc(s)).collect();
    format!("[{}]", v.join(","))
}

struct Cb {
    fmt: Vec<String>,
}

struct FmtVis<'a> {
    out: &'a mut Vec<String>,
    sm: &'a rustc_span::source_map::SourceMap,
}
impl<'a, 'ast> rustc_ast::visit::Visitor<'ast> for FmtVis<'a> {
    fn visit_expr(&mut self, e: &'ast rustc_ast::Expr) {
        if let rustc_ast::ExprKind::FormatArgs(fa) = &e.kind {
            let mut pieces = vec![];
            for p in fa.template.iter() {
                match p {
                    rustc_ast::FormatArgsPiece::Literal(s) => pieces.push(format!("{{\"lit\":{}}}", esc(s.as_str()))),
                    rustc_ast::FormatArgsPiece::Placeholder(ph) => {
                        let idx = match ph.argument.index {
                            Ok(i) => i as i64,
                            Err(_) => -1,
                        };
                        pieces.push(format!("{{\"arg\":{}}}", idx))
                    }
                }
            }
            let root = fa.span.source_callsite();
            let lo = self.sm.lookup_char_pos(root.lo());
            let inner = self.sm.lookup_char_pos(fa.span.lo());
            let args: Vec<String> = fa
                .arguments
                .all_args()
                .iter()
                .map(|a| esc(&self.sm.span_to_snippet(a.expr.span).unwrap_or_default()))
                .collect();
            self.out.push(format!(
                "{{\"file\":{},\"line\":{},\"inner_line\":{},\"pieces\":[{}],\"args\":[{}]}}",
                esc(&format!("{}", lo.file.name.prefer_local_unconditionally())),
                lo.line,
                inner.line,
                pieces.join(","),
                args.join(",")
            ));
        }
        rustc_ast::visit::walk_expr(self, e);
    }
}

impl rustc_driver::Callbacks for Cb {
    fn after_expansion<'tcx>(&mut self, _c: &rustc_interface::interface::Compiler, tcx: TyCtxt<'tcx>) -> Compilation {
        if tcx.crate_name(rustc_hir::def_id::LOCAL_CRATE).as_str() != "masscanned" {
            return Compilation::Continue;
        }
        let (_resolver, krate) = &*tcx.resolver_for_lowering().borrow();
        let sm = tcx.sess.source_map();
        let mut v = FmtVis { out: &mut self.fmt, sm };
        rustc_ast::visit::walk_crate(&mut v, krate);
        Compilation::Continue
    }

    fn after_analysis<'tcx>(&mut self, _c: &rustc_interface::interface::Compiler, tcx: TyCtxt<'tcx>) -> Compilation {
        if tcx.crate_name(rustc_hir::def_id::LOCAL_CRATE).as_str() != "masscanned" {
            return Compilation::Continue;
        }
        let cx = Cx { tcx };
        let mut out = String::new();
        out.push_str("{\"crate\":\"masscanned\",\"fns\":[");
        let mut first = true;
        let mut statics: Vec<String> = vec![];
        for ldid in tcx.mir_keys(()) {
            let did = ldid.to_def_id();
            let kind = tcx.def_kind(did);
            if let DefKind::Static { mutability, .. } = kind {
                let t = tcx.type_of(did).instantiate_identity().skip_norm_wip();
                let tenv = ty::TypingEnv::post_analysis(tcx, did);
                let mut payload = String::new();
                let mut payload_cells = "[]".to_string();
                if let ty::Adt(adt, args) = t.kind() {
                    if tcx.def_path_str(adt.did()).ends_with("lazy::Lazy") {
                        if let Some(p) = args.iter().next().and_then(|a| a.as_type()) {
                            payload = format!("{:?}", p);
                            payload_cells = cells_of(tcx, p);
                        }
                    }
                }
                statics.push(format!(
                    "{{\"id\":{},\"ty\":{},\"mut\":{},\"freeze\":{},\"cells\":{},\"payload\":{},\"payload_cells\":{}}}",
                    esc(&tcx.def_path_str(did)),
                    esc(&format!("{:?}", t)),
                    matches!(mutability, rustc_ast::Mutability::Mut),
                    t.is_freeze(tcx, tenv),
                    cells_of(tcx, t),
                    esc(&payload),
                    payload_cells
                ));
                continue;
            }
            if !matches!(kind, DefKind::Fn | DefKind::AssocFn | DefKind::Closure) {
                continue;
            }
            let body = tcx.optimized_mir(did);
            if !first {
                out.push(',');
            }
            first = false;
            let parent = if matches!(kind, DefKind::Closure) {
                tcx.def_path_str(tcx.typeck_root_def_id(did))
            } else {
                String::new()
            };
            let impl_trait = tcx
                .impl_of_assoc(did)
                .and_then(|i| tcx.impl_opt_trait_ref(i))
                .map(|tr| format!("{:?}", tr.skip_binder()))
                .unwrap_or_default();
            let _ = write!(
                out,
                "{{\"id\":{},\"kind\":{},\"parent\":{},\"impl_trait\":{},\"name\":{},\"argc\":{},\"span\":{},",
                esc(&tcx.def_path_str(did)),
                esc(&format!("{:?}", kind)),
                esc(&parent),
                esc(&impl_trait),
                esc(&if matches!(kind, DefKind::Closure) { "{closure}".to_string() } else { tcx.item_name(did).to_string() }),
                body.arg_count,
                cx.span(body.span)
            );
            cx.body(did, body, &mut out);
            // promoted constants of this body (by-reference comparands etc.)
            out.push_str(",\"promoted\":[");
            let proms = tcx.promoted_mir(did);
            for (pi, pb) in proms.iter_enumerated() {
                if pi.index() > 0 {
                    out.push(',');
                }
                out.push('{');
                cx.body(did, pb, &mut out);
                out.push('}');
            }
            out.push(']');
            let vis = if matches!(kind, DefKind::Fn | DefKind::AssocFn) {
                format!("{:?}", tcx.visibility(did))
            } else {
                String::new()
            };
            let _ = write!(out, ",\"vis\":{}", esc(&vis));
            out.push('}');
        }
        out.push_str("],\"adts\":[");
        let mut firsta = true;
        for id in tcx.hir_free_items() {
            let did = id.owner_id.to_def_id();
            if !matches!(tcx.def_kind(did), DefKind::Struct | DefKind::Enum | DefKind::Union) {
                continue;
            }
            let adt = tcx.adt_def(did);
            let t = tcx.type_of(did).instantiate_identity().skip_norm_wip();
            if !firsta {
                out.push(',');
            }
            firsta = false;
            let _ = write!(
                out,
                "{{\"id\":{},\"kind\":{},\"vis\":{},\"cells\":{},\"variants\":[",
                esc(&tcx.def_path_str(did)),
                esc(&format!("{:?}", tcx.def_kind(did))),
                esc(&format!("{:?}", tcx.visibility(did))),
                cells_of(tcx, t)
            );
            for (vi, v) in adt.variants().iter().enumerate() {
                if vi > 0 {
                    out.push(',');
                }
                let dv = if adt.is_enum() {
                    format!("{}", adt.discriminant_for_variant(tcx, rustc_abi::VariantIdx::from_usize(vi)).val)
                } else {
                    "0".to_string()
                };
                let _ = write!(out, "{{\"name\":{},\"discr\":{},\"fields\":[", esc(&v.name.to_string()), dv);
                for (fi, f) in v.fields.iter().enumerate() {
                    if fi > 0 {
                        out.push(',');
                    }
                    let ft = tcx.type_of(f.did).instantiate_identity().skip_norm_wip();
                    let _ = write!(
                        out,
                        "{{\"name\":{},\"ty\":{},\"vis\":{}}}",
                        esc(&f.name.to_string()),
                        esc(&format!("{:?}", ft)),
                        esc(&format!("{:?}", f.vis))
                    );
                }
                out.push_str("]}");
            }
            out.push_str("]}");
        }
        out.push_str("],\"statics\":[");
        out.push_str(&statics.join(","));
        out.push_str("],\"fmt\":[");
        out.push_str(&self.fmt.join(","));
        out.push_str("]}");
        let path = std::env::var("DRV_OUT").expect("DRV_OUT not set");
        std::fs::write(path, out).unwrap();
        Compilation::Continue
    }
}

fn main() {
    let mut args: Vec<String> = std::env::args().collect();
    if args.len() > 1 && args[1].contains("rustc") {
        args.remove(1);
    }
    rustc_driver::run_compiler(&args, &mut Cb { fmt: vec![] });
}
