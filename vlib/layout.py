"""Byte-layout extraction for serializers that build a Vec<u8> with push / extend / append calls."""
import re
from .core import *

APPEND_RX = r'^(std::vec::Vec::<[^>]*>::(push|extend_from_slice|append)|<std::vec::Vec<T, A> as std::iter::Extend<[^>]*>>::extend|std::iter::Extend::extend)$'


def rpo(f):
    seen, order = set(), []

    def dfs(b):
        stack = [(b, iter(f.succ[b]))]
        seen.add(b)
        while stack:
            n, it = stack[-1]
            for s in it:
                if s not in seen:
                    seen.add(s)
                    stack.append((s, iter(f.succ[s])))
                    break
            else:
                order.append(n)
                stack.pop()
    dfs(0)
    order.reverse()
    return order


def width_of(f, bi, e, argop):
    """Number of bytes an appended value contributes, when statically known; else None."""
    e0 = peel(e, unwraps=False)
    # &x.to_le_bytes() / to_be_bytes()
    for c in walk(e0):
        if isinstance(c, tuple) and c[0] == 'call':
            m = re.search(r'core::num::<impl (u8|u16|u32|u64|u128|usize)>::to_(le|be)_bytes$', c[1])
            if m:
                return {'u8': 1, 'u16': 2, 'u32': 4, 'u64': 8, 'u128': 16, 'usize': 8}[m.group(1)]
    if isinstance(e0, tuple) and e0[0] == 'bytes':
        return len(e0[1]) // 2
    if isinstance(e0, tuple) and e0[0] == 'cast' and len(e0) > 4 and e0[4]:
        m = re.search(r'\[u8; (\d+)_usize\]', e0[4])
        if m:
            return int(m.group(1))
        inner = peel(e0[2], unwraps=False)
        if isinstance(inner, tuple) and inner[0] == 'bytes':
            return len(inner[1]) // 2
    if isinstance(e0, tuple) and e0[0] == 'agg' and e0[1] == 'array':
        return len(e0[2])
    # a field of a local ADT reached from a parameter:  entry:(*argN).a.b
    x = e0
    if isinstance(x, tuple) and x[0] == 'entry':
        x = x[1]
    if isinstance(x, tuple) and x[0] == 'field':
        ty = lv_type(f, x)
        if ty:
            m = re.search(r'^\[u8; (\d+)_usize\]$', ty)
            if m:
                return int(m.group(1))
    # type of the argument local
    if argop['k'] in ('copy', 'move') and not argop['place']['p']:
        ty = f.locals[argop['place']['l']]['ty']
        m = re.search(r'\[u8; (\d+)_usize\]', ty)
        if m:
            return int(m.group(1))
    # named byte-string constant
    for c in walk(e0):
        if isinstance(c, tuple) and c[0] == 'bytes':
            return len(c[1]) // 2
    return None


def vec_layout(f, target_pred=None, must_targets=None):
    """Ordered list of appends: dict(block, op, value, width, must) for Vec<u8> builder calls whose receiver is the
    vector that the function returns (or satisfies target_pred(receiver_expr))."""
    order = rpo(f)
    pos = {b: i for i, b in enumerate(order)}
    items = []
    for bi in order:
        t = f.blocks[bi]['term']
        if t['k'] != 'call' or f.blocks[bi]['cleanup']:
            continue
        c = (t['resolved'] or [t['callee']])[0]
        if not (re.search(APPEND_RX, c) or re.search(APPEND_RX, t['callee'])):
            continue
        recv = peel(f.arg(bi, 0), unwraps=False)
        if target_pred is not None and not target_pred(recv):
            continue
        op = 'push' if c.endswith('::push') else ('extend_from_slice' if c.endswith('extend_from_slice') else ('append' if c.endswith('::append') else 'extend'))
        val = f.argv(bi, 1)
        w = 1 if op == 'push' else width_of(f, bi, val, t['args'][1])
        items.append({'block': bi, 'op': op, 'recv': recv, 'value': val, 'width': w, 'loc': f.loc(bi), 'raw': f.arg(bi, 1)})
    # a vector that starts life as `[a, b, c].concat()` or `x.to_vec()`: the parts are its first items
    recv_locals = {it['recv'][1] for it in items if isinstance(it['recv'], tuple) and it['recv'][0] == 'local'}

    def final_name(l):
        # the variable the freshly built vector is known by: the first local along the chain of moves that is used
        # as a receiver of appends (else the local itself)
        chain = [l]
        for _ in range(6):
            nxt = [st['lhs']['l'] for blk in f.blocks if not blk['cleanup'] for st in blk['stmts']
                   if not st['lhs']['p'] and st['rv']['k'] == 'use' and st['rv']['a']['k'] == 'move' and not st['rv']['a']['place']['p'] and st['rv']['a']['place']['l'] == chain[-1]]
            if len(nxt) == 1:
                chain.append(nxt[0])
            else:
                break
        for x in chain:
            if x in recv_locals:
                return x
        return chain[0]
    inits = []
    for bi in order:
        t = f.blocks[bi]['term']
        if t['k'] != 'call' or f.blocks[bi]['cleanup'] or t['dest']['p'] or not re.search(r'Vec<u8', f.locals[t['dest']['l']]['ty']):
            continue
        c = (t['resolved'] or [t['callee']])[0]
        recv = ('local', final_name(t['dest']['l']))
        if target_pred is not None and not target_pred(recv):
            continue
        if re.search(r'\[T\]>::concat$|Concat<[^>]*>>::concat$', c) or re.search(r'::concat$', t['callee']):
            arr = peel(f.argv(bi, 0), unwraps=False)
            if isinstance(arr, tuple) and arr[0] == 'agg' and arr[1] == 'array':
                for part in arr[2]:
                    inits.append({'block': bi, 'op': 'part', 'recv': recv, 'value': part, 'width': width_of(f, bi, part, {'k': 'const'}), 'loc': f.loc(bi)})
        elif re.search(r'slice::<impl \[T\]>::to_vec$|\[T\]>::to_vec$', c):
            # only when something is appended to it afterwards (otherwise it is just a copy)
            if any(it['recv'] == recv for it in items):
                v0 = f.argv(bi, 0)
                inits.append({'block': bi, 'op': 'init', 'recv': recv, 'value': v0, 'width': width_of(f, bi, v0, t['args'][0]), 'loc': f.loc(bi), 'raw': f.arg(bi, 0)})
    if inits:
        items = sorted(inits + items, key=lambda it: (pos.get(it['block'], 1 << 30), 0 if it['op'] in ('part', 'init') else 1))
    # 'must': executed on every path from entry to a normal return
    rets = f.return_blocks() if must_targets is None else must_targets
    inf = f.infeasible_edges()
    # copies of one source site (decision threading duplicates tails) count as that one site: an append that lies on a copy
    # from which no target is reachable does not take part in the layout, and identical copies are listed once
    if any('clone_of' in b for b in f.blocks):
        items = [it for it in items if any(x in f.reachable(it['block'], removed_edges=inf) for x in rets)]
        seen = {}
        kept = []
        nth = {}
        for it in items:
            nth[it['block']] = nth.get(it['block'], 0) + 1          # several items of one block (concat parts) are distinct items
            k_ = (f.origin(it['block']), nth[it['block']], it['op'], it['recv'] if not isinstance(it['recv'], tuple) else None, short(it['value']))
            if k_ in seen:
                seen[k_]['copies'].append(it['block'])
                continue
            it['copies'] = [it['block']]
            seen[k_] = it
            kept.append(it)
        items = kept
    for it in items:
        same = [b for b in range(f.n) if f.origin(b) == f.origin(it['block'])] if 'copies' in it else [it['block']]
        r = f.reachable(0, removed_blocks=same, removed_edges=inf)
        it['must'] = not any(x in r for x in rets)
        # inside a loop?
        it['in_loop'] = it['block'] in f.reachable(it['block'], removed_blocks=[]) and any(it['block'] in f.reachable(s) for s in f.succ[it['block']])
    return items


def by_receiver(items):
    out = {}
    for it in items:
        out.setdefault(it['recv'], []).append(it)
    return out


def offsets(items):
    """Running byte offset of each item while all widths are known; None afterwards."""
    off = 0
    out = []
    for it in items:
        out.append(off)
        if off is not None and it['width'] is not None and not it['in_loop']:
            off += it['width']
        else:
            off = None
    return out


def lv_type(f, lv):
    """Type string of a canonical lvalue rooted at a parameter, using the crate's ADT table."""
    path = Fn.path_of(lv)
    root = Fn.root_of(lv)
    ty = None
    if isinstance(root, tuple) and root[0] == 'deref' and isinstance(root[1], tuple) and root[1][0] == 'param':
        ty = strip_ref(f.locals[root[1][1]]['ty'])
    elif isinstance(root, tuple) and root[0] == 'param':
        ty = f.locals[root[1]]['ty']
    elif isinstance(root, tuple) and root[0] == 'local':
        ty = f.locals[root[1]]['ty']
    for p in path:
        if ty is None:
            return None
        if p[0] == 'f':
            adt = f.facts.adts.get(re.sub(r'<.*$', '', ty))
            nty = None
            if adt:
                for v in adt['variants']:
                    for fl in v['fields']:
                        if fl['name'] == p[1]:
                            nty = fl['ty']
            ty = nty
        elif p[0] == 'v':
            continue
        else:
            m = re.match(r'^\[(.*); \d+_usize\]$', ty)
            ty = m.group(1) if m else None
    return ty


READERS = {'read_u16': (2, 'be'), 'read_ule16': (2, 'le'), 'read_u32': (4, 'be'), 'read_ule32': (4, 'le'), 'read_ule64': (8, 'le')}


def dissector_layout(F, parse_fid, new_fid=None):
    """Reader-side layout of a PacketDissector-based parse(): ordered [(state, field, width, endian)] obtained from the
    per-state arms (which field is written, by which reader, which state comes next)."""
    f = F.fn(parse_fid)
    # dispatch on discriminant of (*self).d.state
    disp = None
    for bi in range(f.n):
        if f.blocks[bi]['cleanup']:
            continue
        se = f.switch_edges(bi)
        if not se:
            continue
        d = se[0]
        if isinstance(d, tuple) and d[0] == 'discr':
            x = d[1]
            if isinstance(x, tuple) and x[0] == 'entry':
                x = x[1]
            if Fn.path_of(x)[-2:] == [('f', 'd'), ('f', 'state')] and Fn.root_of(x) == ('deref', ('param', 1)):
                disp = (bi, se)
                break
    if disp is None:
        raise AnalysisError('%s: no dispatch on self.d.state' % parse_fid)
    bi, (d, edges, vals) = disp
    # enum type of the state
    sty = None
    for st in f.blocks[bi]['stmts']:
        if st['rv']['k'] == 'discr':
            sty = place_type(f, st['rv']['place'])
    adt = F.adts.get(sty or '')
    if not adt:
        raise AnalysisError('%s: state enum %s unknown' % (parse_fid, sty))
    names = [v['name'] for v in adt['variants']]
    dom = f.dominators()
    arms = {}
    for (s, v) in edges:
        if v is None:
            left = [i for i in range(len(names)) if i not in vals]
            if len(left) == 1:
                v = left[0]
            else:
                continue
        arms[names[v]] = s
    info = {}
    for name, head in arms.items():
        blocks = {b for b in dom if head in dom[b]}
        field, width, endian, nxt = None, None, None, None
        for b in sorted(blocks):
            t = f.blocks[b]['term']
            if t['k'] != 'call':
                continue
            c = (t['resolved'] or [t['callee']])[0]
            m = re.search(r'PacketDissector::<T>::(read_\w+|next_state|next_state_when_i_reaches)$', c)
            if not m:
                continue
            fn = m.group(1)
            if fn in READERS:
                width, endian = READERS[fn]
                ns = peel(f.argv(b, 3), unwraps=False)
                # destination field
                dest = t['dest']
                tgt = t['target']
                # the call result is stored into self.<field> right after
                for st in f.blocks[tgt]['stmts'] if tgt >= 0 else []:
                    if st['rv']['k'] == 'use' and st['rv']['a'].get('k') == 'move' and st['rv']['a']['place']['l'] == dest['l']:
                        fl = [p['f'] for p in st['lhs']['p'] if isinstance(p, dict) and 'f' in p]
                        if fl:
                            field = fl[-1]
                if field is None and dest['p']:
                    fl = [p['f'] for p in dest['p'] if isinstance(p, dict) and 'f' in p]
                    field = fl[-1] if fl else None
                # value accumulated from the same field
                acc = peel(f.argv(b, 2), casts=True)
            elif fn == 'next_state':
                width = width or 1
                ns = peel(f.argv(b, 1), unwraps=False)
            else:
                ns = peel(f.argv(b, 1), unwraps=False)
                n = const_val(f.argv(b, 2))
                width = n if n is not None else ('var', short(f.argv(b, 2))[:60])
            if isinstance(ns, tuple) and ns[0] == 'agg':
                cand = ns[1].split('::')[-1]
                if cand != name or nxt is None:
                    nxt = cand
        # direct byte stores: self.<field> = *byte  /  self.<arr>[i] = *byte
        for b in sorted(blocks):
            for st in f.blocks[b]['stmts']:
                fl = [p['f'] for p in st['lhs']['p'] if isinstance(p, dict) and 'f' in p]
                if fl and st['lhs']['l'] == 1 and fl[-1] not in ('i', 'state') and fl[0] != 'd' and field is None:
                    if st['rv']['k'] == 'use':
                        field = fl[-1]
        info[name] = (field, width, endian, nxt)
    # initial state
    init = names[0]
    if new_fid:
        nf = F.fn(new_fid)
        for bi2, t in nf.calls(r'PacketDissector::<T>::new$'):
            a = peel(nf.argv(bi2, 0), unwraps=False)
            if isinstance(a, tuple) and a[0] == 'agg':
                init = a[1].split('::')[-1]
    seq = []
    cur = init
    seen = set()
    while cur in info and cur not in seen:
        seen.add(cur)
        field, width, endian, nxt = info[cur]
        seq.append((cur, field, width, endian))
        if nxt is None or nxt == cur:
            break
        cur = nxt
    return seq, info


def field_groups(f, items, classify):
    """Group an append list into wire fields.  classify(item) -> kind label.  Consecutive items of one kind form a
    field; a field made of conditional appends is accepted only when its items are mutually exclusive and jointly
    executed on every feasible path (one alternative per path).  -> (fields, problems); a field is
    dict(kind, items, alternatives: bool, width: total bytes if known and not alternative)"""
    fields, problems = [], []
    for it in items:
        k = classify(it)
        if fields and fields[-1]['kind'] == k:
            fields[-1]['items'].append(it)
        else:
            fields.append({'kind': k, 'items': [it]})
    inf = f.infeasible_edges()
    rets = f.return_blocks()
    for fd in fields:
        its = fd['items']
        if all(i['must'] for i in its):
            fd['alternatives'] = False
            fd['width'] = sum(i['width'] for i in its) if all(i['width'] is not None and not i['in_loop'] for i in its) else None
            continue
        fd['alternatives'] = True
        fd['width'] = None
        if any(i['must'] for i in its):
            problems.append('%s: mixes unconditional and conditional appends' % fd['kind'])
            continue
        blocks = [i['block'] for i in its]
        for a in blocks:
            ra = f.reachable(a, removed_edges=inf)
            if any(b in ra for b in blocks if b != a) or any(a in f.reachable(s_, removed_edges=inf) for s_ in f.succ[a]):
                problems.append('%s: alternatives are not mutually exclusive' % fd['kind'])
                break
        r = f.reachable(0, removed_blocks=blocks, removed_edges=inf)
        if any(x in r for x in rets):
            problems.append('%s: some feasible path appends none of the alternatives' % fd['kind'])
    return fields, problems


def byte_layout(f, items, source=None):
    """The wire bytes a serializer appends, one entry per byte, independent of how they are spelled (push of a
    shifted/masked value, extend_from_slice(&x.to_be_bytes()), an array literal, a byte-string constant ...):
      ('field', name, k)  byte k (0 = least significant) of the input `name`
      ('const', v)        a constant byte
      ('?', text)         something else
    An item whose length is not known statically yields one ('blob', item) entry.  `source(expr)` names the inputs
    (default: fields of *self = parameter 1, width from the ADT table)."""
    from .bits import BitEval, describe

    def default_source(e):
        if isinstance(e, tuple) and e[0] == 'entry':
            lv = e[1]
            p = Fn.path_of(lv)
            if Fn.root_of(lv) == ('deref', ('param', 1)) and len(p) == 1 and p[0][0] == 'f':
                ty = lv_type(f, lv)
                w = {'u8': 8, 'u16': 16, 'u32': 32, 'u64': 64, 'u128': 128, 'bool': 1}.get(ty)
                if w:
                    return (p[0][1], w)
        return None
    be = BitEval(source or default_source)

    def classify(bits):
        if bits is None:
            return ('?', 'unknown')
        bits = (list(bits) + [0] * 8)[:8]
        if all(b in (0, 1) for b in bits):
            return ('const', sum(b << i for i, b in enumerate(bits)))
        if all(isinstance(b, tuple) for b in bits):
            k0 = bits[0]
            if k0[2] % 8 == 0 and all(b[1] == k0[1] and b[2] == k0[2] + i for i, b in enumerate(bits)):
                return ('field', k0[1], k0[2] // 8)
        return ('?', describe(bits))
    out = []
    for it in items:
        v = it['value']
        if it['op'] == 'push':
            b_ = be.bits(v)
            out.append((classify(b_), it, (list(b_) + [0] * 8)[:8] if b_ is not None else None))
            continue
        by = be.bytes_of(v)
        if by is None:
            pv = peel(v, unwraps=False)
            while is_call(pv, r'to_vec$|as_slice$|Deref::deref$'):
                pv = peel(pv[2][0], unwraps=False)
            by = be.bytes_of(pv)
        if by is None and not it.get('in_loop'):
            # a byte array local that was filled / patched element by element: read it element-wise at the call
            raw = it.get('raw')
            while isinstance(raw, tuple) and raw[0] in ('ref', 'cast') and len(raw) > 1:
                raw = raw[1] if raw[0] == 'ref' else raw[2]
            if isinstance(raw, tuple) and raw[0] == 'local':
                m_ = re.match(r'^\[u8; (\d+)_usize\]$', f.locals[raw[1]]['ty'])
                if m_:
                    pt = (it['block'], len(f.blocks[it['block']]['stmts']))
                    by = []
                    for k_ in range(int(m_.group(1))):
                        e_ = f._through(f.read(('index', ('local', raw[1]), ('const', k_, None, 'usize')), pt), pt, 0)
                        b_ = be.bits(e_)
                        by.append((list(b_) + [0] * 8)[:8] if b_ is not None else None)
        if by is None and it.get('width') and not it.get('in_loop'):
            pv2 = peel(v, unwraps=False)
            bb = be.bits(pv2)
            if bb is None and isinstance(pv2, tuple) and pv2[0] == 'repeat':
                bb0 = be.bits(pv2[1])
                by = [(list(bb0) + [0] * 8)[:8] if bb0 is not None else None] * it['width']
        if by is None:
            out.append((('blob', short(v)[:60]), it, None))
        else:
            for b in by:
                out.append((classify(b), it, (list(b) + [0] * 8)[:8] if b is not None else None))
    return out
