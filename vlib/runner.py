"""Check driver: extraction -> rules of one property -> evidence -> exit code."""
import os, sys, json, time, importlib, traceback, re

from . import extract
from .core import Facts, AnalysisError

VERIF = extract.VERIF
KNOWN = os.path.join(VERIF, 'known_findings.json')


class Ctx:
    """What a rule module gets: facts (per config), the report, tier."""

    def __init__(self, prop, tier):
        self.prop = prop
        self.tier = tier
        self._facts = {}
        self.info = {}
        self.default_config = os.environ.get('VERIF_CONFIG', 'dev')
        self.rep = Report(prop, tier)

    def facts(self, config=None):
        config = config or self.default_config
        if config not in self._facts:
            path, info = extract.facts_path(config)
            self.info[config] = info
            self._facts[config] = Facts(path)
        return self._facts[config]


class Report:
    def __init__(self, prop, tier):
        self.prop = prop
        self.tier = tier
        self.rules = {}          # rule id -> dict(desc, floor, instances=[...])
        self.order = []
        self.not_decided = []
        self.assumptions = []
        self.trusted = []
        self.analysed_fns = set()
        self.extra = {}

    def rule(self, rid, desc, floor=1):
        if rid not in self.rules:
            self.rules[rid] = {'desc': desc, 'floor': floor, 'instances': []}
            self.order.append(rid)
        return rid

    def ok(self, rid, key, detail, loc=''):
        self.rules[rid]['instances'].append({'key': key, 'ok': True, 'detail': detail, 'loc': loc})

    def bad(self, rid, key, detail, loc=''):
        self.rules[rid]['instances'].append({'key': key, 'ok': False, 'detail': detail, 'loc': loc})

    def check(self, rid, cond, key, detail, loc=''):
        (self.ok if cond else self.bad)(rid, key, detail, loc)
        return cond

    def saw(self, *fns):
        for f in fns:
            self.analysed_fns.add(f if isinstance(f, str) else f.id)


_BORROW_CACHE = {}


def borrow(ctx, prop, select):
    """Run the rules of another property on the same facts and return those of its instances for which
    select(rule_id, instance_key) holds: [(rule_id, instance dict)].  Used where a property rests on a clause that
    another property's rules already decide (e.g. balanced logging presupposes that processing cannot abort)."""
    # one evaluation of a lender per process and configuration; a lender that is itself waiting for this borrower (A borrows
    # from B, B from A) contributes nothing the second time round - each property still evaluates all of its own rules
    key = (prop.upper(), ctx.tier, ctx.default_config, id(ctx._facts))
    chain = getattr(ctx, '_borrow_chain', ()) + (ctx.prop,)
    if prop.upper() in chain:
        return []
    if key in _BORROW_CACHE:
        sub = _BORROW_CACHE[key]
        if isinstance(sub, Exception):
            raise sub
    else:
        sub = Ctx(prop.upper(), ctx.tier)
        sub._facts = ctx._facts
        sub.info = ctx.info
        sub.default_config = ctx.default_config
        sub._borrow_chain = chain
        mod = importlib.import_module('rules.' + prop.lower())
        try:
            mod.run(sub)
        except Exception as e:
            if not chain[1:]:
                _BORROW_CACHE[key] = e
            raise
        if not chain[1:]:
            # (a lender evaluated inside a chain may have skipped a cyclic borrow: only top-level evaluations are reused)
            _BORROW_CACHE[key] = sub
    out = []
    for rid in sub.rep.order:
        for inst in sub.rep.rules[rid]['instances']:
            if select(rid, inst['key']):
                out.append((rid, inst))
    ctx.rep.analysed_fns |= sub.rep.analysed_fns
    return out


def load_known():
    try:
        with open(KNOWN) as fh:
            return json.load(fh)
    except FileNotFoundError:
        return []


def main(argv):
    import argparse
    ap = argparse.ArgumentParser()
    ap.add_argument('prop')
    ap.add_argument('--tier', default=os.environ.get('VERIF_TIER', 'quick'), choices=['quick', 'thorough'])
    ap.add_argument('--replay', default=None)
    ap.add_argument('--verbose', '-v', action='store_true')
    a = ap.parse_args(argv)
    prop = a.prop.upper()
    if a.replay:
        with open(a.replay) as fh:
            print(json.dumps(json.load(fh), indent=1))
        print('(re-run `./check %s` to re-evaluate the rule on the current tree)' % prop)
        return 0
    t0 = time.time()
    seed = int(os.environ.get('VERIF_SEED', '0') or 0)
    ctx = Ctx(prop, a.tier)
    rep = ctx.rep
    fail_closed = None
    try:
        mod = importlib.import_module('rules.' + prop.lower())
        mod.run(ctx)
        if a.tier == 'thorough' and prop != 'C01' and ctx.default_config == 'dev':
            # the same rules on the MIR of the release profile (overflow checks off, debug assertions off): the
            # property must hold for the binary that is shipped, not only for the debug build (C01 does this itself)
            ctx2 = Ctx(prop, a.tier)
            ctx2.default_config = 'release'
            mod.run(ctx2)
            for rid in ctx2.rep.order:
                r2 = ctx2.rep.rules[rid]
                nid = rid + '/release'
                rep.rules[nid] = {'desc': r2['desc'] + ' [release MIR]', 'floor': r2['floor'], 'instances': r2['instances']}
                rep.order.append(nid)
            rep.analysed_fns |= ctx2.rep.analysed_fns
            ctx.info.update({'release': ctx2.info.get('release')})
    except AnalysisError as e:
        fail_closed = 'analysis cannot decide: %s' % e
    except SystemExit:
        raise
    except Exception:
        fail_closed = 'internal error:\n' + traceback.format_exc()

    known = [k for k in load_known() if k.get('property') == prop]
    known_keys = {k['key']: k for k in known if k.get('status') == 'known'}
    violations = []
    known_hits = []
    floors_bad = []
    n_obl = 0
    n_ok = 0
    rules_out = {}
    samples = []
    for rid in rep.order:
        r = rep.rules[rid]
        inst = r['instances']
        n_obl += len(inst)
        good = [i for i in inst if i['ok']]
        n_ok += len(good)
        v = 0
        for i in inst:
            if i['ok']:
                continue
            full = '%s:%s' % (rid.replace('/release', ''), i['key'])
            if full in known_keys:
                known_hits.append((full, known_keys[full], i))
            else:
                violations.append((rid, i))
                v += 1
        if len(inst) < r['floor']:
            floors_bad.append('%s: %d instances < floor %d' % (rid, len(inst), r['floor']))
        rules_out[rid] = {'rule': r['desc'], 'instances': len(inst), 'floor': r['floor'], 'held': len(good),
                          'violations': v}
        for i in inst[:2]:
            samples.append({'rule': rid, 'instance': i['key'], 'held': i['ok'], 'at': i['loc'], 'detail': i['detail'][:300]})

    # output
    for full, k, i in known_hits:
        print('KNOWN-FINDING: property=%s %s [%s] at %s' % (prop, k.get('what', ''), full, i['loc']))
    vdir = os.path.join(VERIF, '.work', 'violations')
    os.makedirs(vdir, exist_ok=True)
    nviol = 0
    for n, (rid, i) in enumerate(violations):
        p = os.path.join(vdir, '%s-%d.json' % (prop, n))
        with open(p, 'w') as fh:
            json.dump({'property': prop, 'rule': rid, 'rule_text': rep.rules[rid]['desc'], 'instance': i['key'],
                       'at': i['loc'], 'detail': i['detail']}, fh, indent=1)
        print('VIOLATION property=%s replay=%s' % (prop, p))
        print('  rule %s (%s)\n  at %s\n  instance %s\n  %s' % (rid, rep.rules[rid]['desc'], i['loc'], i['key'], i['detail']))
        nviol += 1
    if a.verbose:
        for rid in rep.order:
            r = rep.rules[rid]
            print('%s  [%d instances, floor %d]  %s' % (rid, len(r['instances']), r['floor'], r['desc']))
            for i in r['instances']:
                print('   %s %s  %s  -- %s' % ('ok ' if i['ok'] else 'BAD', i['key'], i['loc'], i['detail'][:200]))

    wall = round(time.time() - t0, 3)
    facts_info = ctx.info
    f0 = ctx._facts.get('dev')
    ev = {
        'property_id': prop,
        'tier': a.tier,
        'seed': seed,
        'level': 'other',
        'coverage': {
            'explanation': ('Static analysis of the type-checked MIR of crate masscanned extracted from /repo at source hash %s. '
                            'Each rule is a structural necessary condition of the property, evaluated on every instance '
                            '(call site / CFG path / table row) found in the current tree; nothing is executed. '
                            'Clauses not decided: %s') % (
                                facts_info.get('dev', {}).get('source_hash', '?'),
                                '; '.join(rep.not_decided) or 'none'),
            'obligations': n_obl,
            'discharged': n_ok + len(known_hits) * 0,
            'known_findings_hit': [k for k, _, _ in known_hits],
            'checker_cmd': './check %s --tier %s' % (prop, a.tier),
            'trusted_base': rep.trusted or ['rustc nightly front end + MIR construction', 'Instance::try_resolve callee resolution',
                                            'API tables in vlib/core.py (pure getters / transparent wrappers)'],
            'evaluations': max(n_obl, 1),
            'distinct_nontrivial': len({(rid, i['key']) for rid in rep.order for i in rep.rules[rid]['instances']}),
            'rule': 'one obligation per (rule, instance key); an instance is a concrete construct in the current MIR (call site, CFG path set, decision-table row); keys are distinct',
            'samples': samples[:40],
            'rules': rules_out,
            'functions_in_crate': len(f0.fns) if f0 else 0,
            'functions_analysed': sorted(rep.analysed_fns),
            'extraction': facts_info,
            # what the fact pipeline did to the MIR before any rule ran (vlib/combinators.py, inline.py, thread.py): all purely
            # structural, recomputed on every run from the current tree
            'fact_pipeline': ({
                'combinator_and_try_sites_expanded': sum(f0.expanded.values()),
                'bool_selects': sum(f0.bool_selects.values()),
                'bool_diamonds_threaded': sum(f0.bool_diamonds.values()),
                'helpers_and_closures_inlined_away': sorted(f0.inlined_helpers)[:40],
                'functions_with_threaded_decisions': {k_: v_ for k_, v_ in sorted(f0.threaded.items())},
            } if f0 is not None and hasattr(f0, 'threaded') else {}),
            'floors_violated': floors_bad,
            'fail_closed': fail_closed,
            'exhaustive': False,
        },
        'assumptions': rep.assumptions,
        'wall_s': wall,
        'violations': nviol,
    }
    ev['coverage'].update(rep.extra)
    os.makedirs(os.path.join(VERIF, 'evidence'), exist_ok=True)
    with open(os.path.join(VERIF, 'evidence', prop + '.json'), 'w') as fh:
        json.dump(ev, fh, indent=1, sort_keys=False)

    if fail_closed:
        sys.stderr.write('CHECK BROKEN (fail closed, no verdict) property=%s: %s\n' % (prop, fail_closed))
        return 2
    if floors_bad and not nviol:
        sys.stderr.write('CHECK BROKEN (instance count below floor, no verdict) property=%s: %s\n' % (prop, '; '.join(floors_bad)))
        return 2
    print('%s %s: %d rules, %d obligations, %d held, %d known findings, %d violations (%.2fs)' % (
        prop, a.tier, len(rep.order), n_obl, n_ok, len(known_hits), nviol, wall))
    return 1 if nviol else 0
