"""Extraction of byte-at-a-time parser FSMs from MIR by exhaustive evaluation (P6 applied to a loop body),
and language inclusion checks against reference automata."""
import json, re
from .core import *


def loop_header(f, d):
    """The loop header of the innermost loop containing block d: a dominator h of d with a back edge into it."""
    dom = f.dominators()
    cands = []
    for h in dom[d]:
        for p in f.pred[h]:
            if p in dom and h in dom[p] and d in f.reachable(h) and h in f.reachable(d):
                cands.append(h)
    if not cands:
        raise AnalysisError('no loop around dispatch block in %s' % f.id)
    # innermost = the one dominated by all others
    return max(set(cands), key=lambda h: len(dom[h]))


def find_dispatch(f, state_fields):
    """The SwitchInt whose discriminant reads <param1>.<state_fields[0]> directly."""
    out = []
    for bi, b in enumerate(f.blocks):
        if b['cleanup']:
            continue
        t = b['term']
        if t['k'] == 'switch' and t['discr']['k'] in ('copy', 'move'):
            pl = t['discr']['place']
            fl = [p['f'] for p in pl['p'] if isinstance(p, dict) and 'f' in p]
            if pl['l'] == 1 and pl['p'] and pl['p'][0] == 'deref' and fl == [state_fields[0]] and len(t['targets']) >= 3:
                out.append(bi)
    if len(out) > 1:
        # nested dispatches on the state (an arm that looks the state up again): the outermost one is the step dispatch
        dom = f.dominators()
        top = [b for b in out if all(b in dom.get(o, ()) for o in out)]
        if len(top) == 1:
            out = top
    if len(out) != 1:
        raise AnalysisError('%s: expected one dispatch on %s, found %d' % (f.id, state_fields[0], len(out)))
    return out[0]


class ByteFsm:
    """Transition function delta(state_tuple, byte) -> (state_tuple', returned) obtained by evaluating the loop body."""

    def __init__(self, f, state_fields, data_param=2):
        self.f = f
        self.fields = state_fields
        self.D = find_dispatch(f, state_fields)
        self.H = loop_header(f, self.D)
        self.data = data_param
        # cursor variable: first operand of the loop condition
        self.i = None
        for bi in f.reachable(self.H):
            b = f.blocks[bi]
            for st in b['stmts']:
                if st['rv']['k'] == 'bin' and st['rv']['op'] == 'Lt' and bi in f.dominators()[self.D]:
                    a = st['rv']['a']
                    if a['k'] in ('copy', 'move') and not a['place']['p']:
                        # follow one copy
                        l = a['place']['l']
                        for bj in f.dominators()[self.D]:
                            for s2 in f.blocks[bj]['stmts']:
                                if not s2['lhs']['p'] and s2['lhs']['l'] == l and s2['rv']['k'] == 'use' and s2['rv']['a']['k'] == 'copy' and not s2['rv']['a']['place']['p']:
                                    l2 = s2['rv']['a']['place']['l']
                                    if f.locals[l2]['name']:
                                        self.i = l2
                        if self.i is None and f.locals[l]['name']:
                            self.i = l
        self.get_call = None
        if self.i is None:
            # `while let Some(&b) = data.get(i)`: the loop test is the Option returned by slice::get(data, i)
            for bi in f.dominators()[self.D]:
                t = f.blocks[bi]['term']
                if t['k'] == 'call' and re.search(r'slice::<impl \[T\]>::get$|\[T\]>::get$', (t['resolved'] or [t['callee']])[0] if False else t['callee']) and bi in f.reachable(self.H) and len(t['args']) == 2:
                    a = t['args'][1]
                    if a['k'] in ('copy', 'move') and not a['place']['p']:
                        l = a['place']['l']
                        for _ in range(3):
                            if f.locals[l]['name']:
                                break
                            src_ = [s2['rv']['a']['place']['l'] for bj in f.dominators()[self.D] for s2 in f.blocks[bj]['stmts']
                                    if not s2['lhs']['p'] and s2['lhs']['l'] == l and s2['rv']['k'] == 'use' and s2['rv']['a']['k'] in ('copy', 'move') and not s2['rv']['a']['place']['p']]
                            if len(src_) != 1:
                                break
                            l = src_[0]
                        if f.locals[l]['name']:
                            self.i = l
                            self.get_call = bi
        if self.i is None:
            raise AnalysisError('%s: cursor variable not found' % f.id)
        # body entry: the in-loop successor of the loop condition (so that code between the loop test and the state
        # dispatch, e.g. `let c = data[i];`, is part of every evaluated step)
        self.body = self.D
        loop = {b for b in f.reachable(self.H) if self.H in f.reachable(b)}
        dom = f.dominators()
        for b in sorted(dom[self.D], key=lambda x: len(dom[x])):
            t = f.blocks[b]['term']
            if b in loop and t['k'] == 'switch':
                succs = f.succ[b]
                stay = [x for x in succs if x in loop]
                leave = [x for x in succs if x not in loop]
                if len(stay) == 1 and leave and b != self.D:
                    self.body = stay[0]
                    break
        if self.get_call is not None:
            self.body = self.H
        self.keys = []
        for fld in state_fields:
            # the place JSON used by MIR for (*_1).<fld>: take it from any statement/terminator mentioning it
            self.keys.append(self._place_key(fld))
        self.cache = {}
        self.impure = []

    def _place_key(self, fld):
        f = self.f
        for b in f.blocks:
            cands = []
            for st in b['stmts']:
                cands.append(st['lhs'])
                rv = st['rv']
                for o in [rv.get('a'), rv.get('b')]:
                    if o and o.get('k') in ('copy', 'move'):
                        cands.append(o['place'])
            t = b['term']
            if t['k'] == 'switch' and t['discr']['k'] in ('copy', 'move'):
                cands.append(t['discr']['place'])
            for pl in cands:
                fl = [p['f'] for p in pl['p'] if isinstance(p, dict) and 'f' in p]
                if pl['l'] == 1 and pl['p'] and pl['p'][0] == 'deref' and fl == [fld] and len(pl['p']) == 2:
                    return json.dumps(pl, sort_keys=True)
        # accessed only through aliases of the state pointer (e.g. inside inlined methods): build the key from the
        # projection element of any access to that field of the same struct
        want_adt = re.sub(r'^&(\'\{?\w+\}? )?(mut )?', '', f.locals[1]['ty'])
        for b in f.blocks:
            for st in b['stmts']:
                pls = [st['lhs']]
                rv = st['rv']
                for o in [rv.get('a'), rv.get('b')]:
                    if o and o.get('k') in ('copy', 'move'):
                        pls.append(o['place'])
                if rv.get('place'):
                    pls.append(rv['place'])
                for pl in pls:
                    for pr in pl['p']:
                        if isinstance(pr, dict) and pr.get('f') == fld and pr.get('adt') == want_adt:
                            return json.dumps({'l': 1, 'p': ['deref', pr]}, sort_keys=True)
        raise AnalysisError('%s: state field %s not found' % (f.id, fld))

    def frame_problems(self, allowed_calls=r'\[T\]>::len$|IntoIterator|fmt::|log::|__private_api|Arguments'):
        """The code around the loop must not take part in parsing: before the loop the cursor is set to the constant
        0 and neither the state nor the data is looked at (no branch, no store through the state pointer); after the
        loop nothing is stored into the state.  Returns a list of problems (empty = the function is just the fold)."""
        f = self.f
        H = self.H
        loop = {b for b in f.reachable(H) if H in f.reachable(b)}
        pre = f.reachable(0, removed_blocks=[H]) if H != 0 else set()
        post = f.reachable(H) - loop
        out = []

        def state_store(st):
            pl = st['lhs']
            return pl['l'] == 1 and pl['p'] and pl['p'][0] == 'deref'
        for b in sorted(pre):
            blk = f.blocks[b]
            if blk['cleanup']:
                continue
            if blk['term']['k'] == 'switch':
                d = f.switch_edges(b)[0]
                dep = [x for x in walk(d) if isinstance(x, tuple) and x and ((x[0] == 'entry' and Fn.root_of(x[1]) in (('deref', ('param', 1)), ('deref', ('param', self.data)))) or x[0] in ('phi', 'cyc', 'modby'))]
                if dep:
                    out.append('branch on the parser state / input before the loop at %s' % f.loc(b))
            if blk['term']['k'] == 'call':
                c = (blk['term']['resolved'] or [blk['term']['callee']])[0]
                if not re.search(allowed_calls, c) and not re.search(allowed_calls, blk['term']['callee']):
                    out.append('call to %s before the loop at %s' % (c.split('::')[-1], f.loc(b)))
            for st in blk['stmts']:
                if state_store(st):
                    out.append('parser state written before the loop at %s' % f.loc(b))
                if not st['lhs']['p'] and st['lhs']['l'] == self.i:
                    rv = st['rv']
                    if not (rv['k'] == 'use' and rv['a']['k'] == 'const' and rv['a'].get('val') == 0):
                        out.append('cursor initialised with something other than 0 at %s' % f.loc(b))
        if not any((not st['lhs']['p'] and st['lhs']['l'] == self.i) for b in pre for st in f.blocks[b]['stmts']):
            out.append('cursor is not initialised before the loop')
        for b in sorted(post):
            blk = f.blocks[b]
            if blk['cleanup']:
                continue
            for st in blk['stmts']:
                if state_store(st):
                    out.append('parser state written after the loop at %s' % f.loc(b))
        return out

    def step_once(self, state, byte):
        """One pass through the loop body. -> (state', consumed(0/1/-), kind) kind in 'loop','return','stuck'"""
        f = self.f
        menv = {k: v for k, v in zip(self.keys, state)}
        env = {self.i: 1000}

        def hook(p, env_):
            if p['l'] == self.data and p['p'] and p['p'][0] == 'deref' and any(isinstance(x, dict) and 'index' in x for x in p['p']):
                idx = [x['index'] for x in p['p'] if isinstance(x, dict) and 'index' in x][0]
                iv = env_.get(idx)
                if iv == 1000:
                    return byte
                # look-ahead / look-behind: not a fold
                self.impure.append((state, byte, 'data[%s]' % iv))
                return None
            return None
        rets = set(f.return_blocks())

        def chook(t, env_, rd_):
            # data.get(i) with i the cursor: Some(&byte)  (the step is evaluated for a position inside the input)
            if re.search(r'\[T\]>::get$', t['callee']) and len(t['args']) == 2:
                iv = rd_(t['args'][1])
                if iv == 1000:
                    return ('#variant', 1, (('#ptr', byte),))
                self.impure.append((state, byte, 'data.get(%s)' % iv))
            return None
        r = eval_region(f, self.body, env, menv=menv, assume_asserts=True, read_hook=hook, skip_calls=True, track_mem=True,
                        stop_at={self.H} | rets, max_steps=4000, call_hook=chook)
        kind, blk, env2 = r[0], r[1], r[2]
        menv2 = r[3] if len(r) > 3 else {}
        if kind != 'arm':
            return None, 0, 'stuck@bb%d' % blk
        st2 = tuple(menv2.get(k) for k in self.keys)
        if any(v is None for v in st2):
            return None, 0, 'stuck:state-unknown@bb%d' % blk
        iv = env2.get(self.i)
        if blk in rets:
            return st2, 0, 'return'
        if iv is None:
            return None, 0, 'stuck:cursor-unknown'
        return st2, iv - 1000, 'loop'

    def delta(self, state, byte):
        """Consume exactly one byte (following non-consuming passes). -> (state', 'ok'|'return'|'stuck:..')"""
        key = (state, byte)
        if key in self.cache:
            return self.cache[key]
        cur = state
        res = None
        for _ in range(12):
            st2, moved, kind = self.step_once(cur, byte)
            if st2 is None:
                res = (None, kind)
                break
            if kind == 'return':
                res = (st2, 'return')
                break
            if moved == 1:
                res = (st2, 'ok')
                break
            if moved == 0:
                cur = st2          # state changed without consuming (continue / i-=1;i+=1): re-dispatch the same byte
                continue
            res = (None, 'stuck:cursor moved by %d' % moved)
            break
        if res is None:
            res = (None, 'stuck:no progress')
        self.cache[key] = res
        return res


def explore(fsm, starts, is_opaque=lambda st: False):
    """All states reachable from `starts` over all bytes; returns (states, transitions, problems)."""
    seen = set(starts)
    work = list(starts)
    trans = {}
    problems = []
    while work:
        s = work.pop()
        if is_opaque(s):
            continue
        for b in range(256):
            s2, kind = fsm.delta(s, b)
            if s2 is None:
                problems.append((s, b, kind))
                continue
            trans[(s, b)] = (s2, kind)
            if s2 not in seen:
                seen.add(s2)
                work.append(s2)
        if len(seen) > 5000:
            raise AnalysisError('FSM state explosion')
    return seen, trans, problems


def check_inclusion(fsm_trans, start, accept, ref_step, ref_start, ref_accept, direction):
    """direction 'ref<=impl': every string accepted by the reference is accepted by impl.
       direction 'impl<=ref': every string accepted by impl is accepted by the reference.
    Explores the product; returns a counterexample byte string or None."""
    seen = {(start, ref_start)}
    work = [(start, ref_start, b'')]
    while work:
        s, r, w = work.pop()
        ia, ra = accept(s), ref_accept(r)
        if direction == 'ref<=impl' and ra and not ia:
            return w
        if direction == 'impl<=ref' and ia and not ra:
            return w
        if len(w) > 64:
            continue
        for b in range(256):
            t = fsm_trans.get((s, b))
            if t is None:
                continue
            s2 = t[0]
            r2 = ref_step(r, b)
            if (s2, r2) not in seen:
                seen.add((s2, r2))
                work.append((s2, r2, w + bytes([b])))
    return None
