"""P16 - expansion of std Option / Result combinators (on the JSON facts, before inlining).

`opt.map_or(false, |l| l.contains(x))`, `r.is_ok_and(..)`, `opt.map(..)`, `opt.and_then(..)`, `opt.ok_or(e)` ... are
control flow spelled as a library call: the rules reason about `match` (a switch on the discriminant and the code of each
arm).  A call to one of the combinators listed below is replaced by exactly the `match` its documentation gives:

    D = Option::map_or(o, d, f)     =>   switch discriminant(o) { Some: D = f((o as Some).0) ; None: D = d }

with the closure invocation written as `FnOnce::call_once(f, (x,))`, which the inliner then replaces by the closure body
when `f` is a closure of the crate.  Purely structural."""
import copy, re

# what each arm produces: ('call', closure arg index, payload?) | ('arg', index) | ('payload',) | ('const_bool', v) |
# wrapped: ('wrap', adt, variant, vidx, inner)
OPTION = 'std::option::Option'
RESULT = 'std::result::Result'
CF = 'std::ops::ControlFlow'


def W(adt, variant, vidx, inner=None):
    return ('wrap', adt, variant, vidx, inner)


TEMPLATES = {
    # callee: (enum adt, payload-variant index -> expression, other variant -> expression)
    'std::option::Option::<T>::unwrap_or': (OPTION, {1: ('payload',), 0: ('arg', 1)}),
    'std::option::Option::<T>::unwrap_or_else': (OPTION, {1: ('payload',), 0: ('call', 1, False)}),
    'std::result::Result::<T, E>::unwrap_or': (RESULT, {0: ('payload',), 1: ('arg', 1)}),
    'std::result::Result::<T, E>::unwrap_or_else': (RESULT, {0: ('payload',), 1: ('call', 1, True)}),
    'std::option::Option::<T>::map_or': (OPTION, {1: ('call', 2, True), 0: ('arg', 1)}),
    'std::option::Option::<T>::map_or_else': (OPTION, {1: ('call', 2, True), 0: ('call', 1, False)}),
    'std::option::Option::<T>::is_some_and': (OPTION, {1: ('call', 1, True), 0: ('const_bool', 0)}),
    'std::option::Option::<T>::is_none_or': (OPTION, {1: ('call', 1, True), 0: ('const_bool', 1)}),
    'std::option::Option::<T>::map': (OPTION, {1: W(OPTION, 'Some', 1, ('call', 1, True)), 0: W(OPTION, 'None', 0)}),
    'std::option::Option::<T>::and_then': (OPTION, {1: ('call', 1, True), 0: W(OPTION, 'None', 0)}),
    'std::option::Option::<T>::ok_or': (OPTION, {1: W(RESULT, 'Ok', 0, ('payload',)), 0: W(RESULT, 'Err', 1, ('arg', 1))}),
    'std::option::Option::<T>::ok_or_else': (OPTION, {1: W(RESULT, 'Ok', 0, ('payload',)), 0: W(RESULT, 'Err', 1, ('call', 1, False))}),
    'std::result::Result::<T, E>::map_or': (RESULT, {0: ('call', 2, True), 1: ('arg', 1)}),
    'std::result::Result::<T, E>::is_ok_and': (RESULT, {0: ('call', 1, True), 1: ('const_bool', 0)}),
    'std::result::Result::<T, E>::is_err_and': (RESULT, {1: ('call', 1, True), 0: ('const_bool', 0)}),
    'std::result::Result::<T, E>::ok': (RESULT, {0: W(OPTION, 'Some', 1, ('payload',)), 1: W(OPTION, 'None', 0)}),
    'std::result::Result::<T, E>::err': (RESULT, {1: W(OPTION, 'Some', 1, ('payload',)), 0: W(OPTION, 'None', 0)}),
    'std::result::Result::<T, E>::map': (RESULT, {0: W(RESULT, 'Ok', 0, ('call', 1, True)), 1: W(RESULT, 'Err', 1, ('payload',))}),
    'std::result::Result::<T, E>::map_err': (RESULT, {1: W(RESULT, 'Err', 1, ('call', 1, True)), 0: W(RESULT, 'Ok', 0, ('payload',))}),
    'std::result::Result::<T, E>::and_then': (RESULT, {0: ('call', 1, True), 1: W(RESULT, 'Err', 1, ('payload',))}),
    # the `?` operator: Try::branch hands the payload on (Continue) or the failure back (Break)
    '<std::result::Result<T, E> as std::ops::Try>::branch': (RESULT, {0: W(CF, 'Continue', 0, ('payload',)), 1: W(CF, 'Break', 1, W(RESULT, 'Err', 1, ('payload',)))}),
    '<std::option::Option<T> as std::ops::Try>::branch': (OPTION, {1: W(CF, 'Continue', 0, ('payload',)), 0: W(CF, 'Break', 1, W(OPTION, 'None', 0))}),
}
# the residual of `?` is turned back into the function's own failure value: a Result residual is always Err(e) and becomes
# Err(From::from(e)); an Option residual becomes None.  (No switch: these have one case.)
RESIDUAL = {
    '<std::result::Result<T, F> as std::ops::FromResidual<std::result::Result<std::convert::Infallible, E>>>::from_residual': W(RESULT, 'Err', 1, ('from', ('payload',))),
    '<std::option::Option<T> as std::ops::FromResidual<std::option::Option<std::convert::Infallible>>>::from_residual': W(OPTION, 'None', 0),
}
VARIANT_NAME = {OPTION: ['None', 'Some'], RESULT: ['Ok', 'Err']}


def split_generics(ty):
    """'std::option::Option<A<B, C>, D>' -> ['A<B, C>', 'D']"""
    i = ty.find('<')
    if i < 0 or not ty.endswith('>'):
        return []
    out, depth, cur = [], 0, ''
    for ch in ty[i + 1:-1]:
        if ch in '<([':
            depth += 1
        elif ch in '>)]':
            depth -= 1
        if ch == ',' and depth == 0:
            out.append(cur.strip())
            cur = ''
        else:
            cur += ch
    if cur.strip():
        out.append(cur.strip())
    return out


class Expander:
    def __init__(self, f):
        self.f = f
        self.n = 0

    def new_local(self, ty):
        self.f['locals'].append({'ty': ty, 'name': ''})
        return len(self.f['locals']) - 1

    def new_block(self, stmts, term):
        self.f['blocks'].append({'cleanup': False, 'stmts': stmts, 'term': term, 'expanded': True})
        return len(self.f['blocks']) - 1

    def emit(self, expr, payload_pl, args, dest, target, span, line, dest_ty):
        """blocks computing `dest = expr`, ending in goto target; returns the entry block index"""
        k = expr[0]
        if k == 'arg':
            return self.new_block([{'lhs': dest, 'rv': {'k': 'use', 'a': copy.deepcopy(args[expr[1]])}, 'line': line}], {'k': 'goto', 'target': target})
        if k == 'payload':
            return self.new_block([{'lhs': dest, 'rv': {'k': 'use', 'a': {'k': 'move', 'place': copy.deepcopy(payload_pl)}}, 'line': line}], {'k': 'goto', 'target': target})
        if k == 'const_bool':
            return self.new_block([{'lhs': dest, 'rv': {'k': 'use', 'a': {'k': 'const', 'ty': 'bool', 'val': expr[1]}}, 'line': line}], {'k': 'goto', 'target': target})
        if k == 'call':
            ops = [{'k': 'move', 'place': copy.deepcopy(payload_pl)}] if expr[2] else []
            tup = self.new_local('(%s)' % ('_,' if ops else ''))
            stmts = [{'lhs': {'l': tup, 'p': []}, 'rv': {'k': 'agg', 'agg': 'tuple', 'ops': ops}, 'line': line}]
            term = {'k': 'call', 'callee': 'std::ops::FnOnce::call_once', 'resolved': [], 'ckind': 'unresolved', 'trait': 'std::ops::FnOnce', 'name': 'call_once',
                    'args': [copy.deepcopy(args[expr[1]]), {'k': 'move', 'place': {'l': tup, 'p': []}}], 'dest': dest, 'target': target, 'span': span}
            return self.new_block(stmts, term)
        if k == 'from':
            tmp = self.new_local('_')
            fin = self.new_block([], {'k': 'call', 'callee': 'std::convert::From::from', 'resolved': [], 'ckind': 'unresolved', 'trait': 'std::convert::From', 'name': 'from',
                                      'args': [{'k': 'move', 'place': {'l': tmp, 'p': []}}], 'dest': dest, 'target': target, 'span': span})
            return self.emit(expr[1], payload_pl, args, {'l': tmp, 'p': []}, fin, span, line, '_')
        if k == 'wrap':
            _, adt, variant, vidx, inner = expr
            if inner is None:
                return self.new_block([{'lhs': dest, 'rv': {'k': 'agg', 'agg': 'adt', 'adt': adt, 'variant': variant, 'vidx': vidx, 'ops': []}, 'line': line}], {'k': 'goto', 'target': target})
            gens = split_generics(dest_ty)
            if adt == CF:
                ity = (gens[1] if vidx == 0 and len(gens) > 1 else gens[0]) if gens else '_'
            else:
                ity = (gens[0] if adt == OPTION or vidx == 0 else (gens[1] if len(gens) > 1 else '_')) if gens else '_'
            tmp = self.new_local(ity)
            fin = self.new_block([{'lhs': dest, 'rv': {'k': 'agg', 'agg': 'adt', 'adt': adt, 'variant': variant, 'vidx': vidx, 'ops': [{'k': 'move', 'place': {'l': tmp, 'p': []}}]}, 'line': line}],
                                 {'k': 'goto', 'target': target})
            return self.emit(inner, payload_pl, args, {'l': tmp, 'p': []}, fin, span, line, ity)
        raise ValueError(k)

    def run(self):
        f = self.f
        for bi in range(len(f['blocks'])):
            b = f['blocks'][bi]
            t = b['term']
            cal = t['callee'] if t['k'] == 'call' and t['callee'] in TEMPLATES else ((t.get('resolved') or [''])[0] if t['k'] == 'call' else '')
            if not b['cleanup'] and t['k'] == 'call' and cal in RESIDUAL and t.get('target') is not None and t['target'] >= 0 and t['args'] and t['args'][0]['k'] in ('copy', 'move') \
                    and not t['args'][0]['place']['p'] and not t['dest']['p']:
                recv = t['args'][0]['place']['l']
                line = (t.get('span') or {}).get('line', 0)
                payload_pl = {'l': recv, 'p': [{'downcast': 'Err', 'v': 1}, {'f': '0', 'adt': RESULT, 'i': 0}]}
                expr = RESIDUAL[cal]
                ge, gd = split_generics(f['locals'][recv]['ty']), split_generics(f['locals'][t['dest']['l']]['ty'])
                if expr[1] == RESULT and len(ge) == 2 and len(gd) == 2 and ge[1] == gd[1]:
                    expr = W(RESULT, 'Err', 1, ('payload',))       # same error type: From::from is the identity
                entry = self.emit(expr, payload_pl, t['args'], copy.deepcopy(t['dest']), t['target'], t.get('span'), line, f['locals'][t['dest']['l']]['ty'])
                b['term'] = {'k': 'goto', 'target': entry, 'span': t.get('span'), 'expanded_from': cal}
                self.n += 1
                continue
            if b['cleanup'] or t['k'] != 'call' or cal not in TEMPLATES or t.get('target') is None or t['target'] < 0:
                continue
            adt, arms = TEMPLATES[cal]
            a0 = t['args'][0]
            if a0['k'] not in ('copy', 'move'):
                continue
            line = (t.get('span') or {}).get('line', 0)
            # the receiver in a local of its own
            if a0['place']['p']:
                rty = None
                continue            # a projected receiver has no type of its own in the facts: leave the call
            recv = a0['place']['l']
            rty = f['locals'][recv]['ty']
            if not rty.startswith(adt):
                continue
            gens = split_generics(rty)
            d = self.new_local('isize')
            b['stmts'].append({'lhs': {'l': d, 'p': []}, 'rv': {'k': 'discr', 'place': {'l': recv, 'p': []}}, 'line': line})
            dest_ty = f['locals'][t['dest']['l']]['ty'] if not t['dest']['p'] else '_'
            tgts = {}
            for vidx, expr in arms.items():
                fields_adt = adt
                payload_pl = {'l': recv, 'p': [{'downcast': VARIANT_NAME[adt][vidx], 'v': vidx}, {'f': '0', 'adt': fields_adt, 'i': 0}]}
                tgts[vidx] = self.emit(expr, payload_pl, t['args'], copy.deepcopy(t['dest']), t['target'], t.get('span'), line, dest_ty)
            unreachable = self.new_block([], {'k': 'unreachable'})
            b['term'] = {'k': 'switch', 'discr': {'k': 'move', 'place': {'l': d, 'p': []}}, 'targets': [[v, tgts[v]] for v in sorted(tgts)], 'otherwise': unreachable,
                         'span': t.get('span'), 'expanded_from': cal}
            self.n += 1
        return self.n


def run(fns):
    out = {}
    for f in fns:
        n = Expander(f).run()
        if n:
            out[f['id']] = n
    return out


# ---------------------------------------------------------------------------------------------------------------------
# bool -> bit selects.  `if b { 1 << k } else { 0 }` is the value `(b as T) << k` written as control flow; the bit-level
# rules (byte layouts, flag bytes) reason about values.  A diamond whose two arms only assign the constants 2^k and 0 to
# the same local, selected by a bool local, is replaced by `x = (b as T) * 2^k`.
def _single_const_assign(blk):
    if blk['cleanup'] or len(blk['stmts']) != 1 or blk['term']['k'] != 'goto':
        return None
    st = blk['stmts'][0]
    if st['lhs']['p'] or st['rv']['k'] != 'use' or st['rv']['a']['k'] != 'const' or not isinstance(st['rv']['a'].get('val'), int):
        return None
    return st['lhs']['l'], st['rv']['a']['val'], st['rv']['a'].get('ty'), blk['term']['target']


def bool_selects(fns):
    out = {}
    for f in fns:
        blocks = f['blocks']
        npred = {}
        for b in blocks:
            t = b['term']
            ss = [t['target']] if t['k'] in ('goto', 'call', 'drop', 'assert') and t.get('target') is not None else \
                ([tg for _, tg in t['targets']] + [t['otherwise']] if t['k'] == 'switch' else [])
            for s in ss:
                npred[s] = npred.get(s, 0) + 1
        n = 0
        for b in blocks:
            t = b['term']
            if b['cleanup'] or t['k'] != 'switch' or t['discr']['k'] not in ('copy', 'move') or t['discr']['place']['p']:
                continue
            d = t['discr']['place']['l']
            if f['locals'][d]['ty'] != 'bool' or len(t['targets']) != 1 or t['targets'][0][0] != 0:
                continue
            bf, bt = t['targets'][0][1], t['otherwise']
            if bf == bt or npred.get(bf) != 1 or npred.get(bt) != 1:
                continue
            af, at = _single_const_assign(blocks[bf]), _single_const_assign(blocks[bt])
            if not af or not at or af[0] != at[0] or af[3] != at[3] or af[1] != 0 or at[1] <= 0 or at[1] & (at[1] - 1):
                continue
            x, ty, join = at[0], at[2], at[3]
            if ty not in ('u8', 'u16', 'u32', 'u64', 'usize'):
                continue
            f['locals'].append({'ty': ty, 'name': ''})
            tmp = len(f['locals']) - 1
            line = blocks[bt]['stmts'][0].get('line', 0)
            b['stmts'].append({'lhs': {'l': tmp, 'p': []}, 'rv': {'k': 'cast', 'kind': 'IntToInt', 'a': {'k': 'copy', 'place': {'l': d, 'p': []}}, 'ty': ty}, 'line': line})
            b['stmts'].append({'lhs': {'l': x, 'p': []}, 'rv': {'k': 'bin', 'op': 'Mul', 'a': {'k': 'move', 'place': {'l': tmp, 'p': []}},
                                                                    'b': {'k': 'const', 'ty': ty, 'val': at[1]}}, 'line': line})
            b['term'] = {'k': 'goto', 'target': join, 'span': t.get('span'), 'if_converted': True}
            for dead in (bf, bt):
                blocks[dead]['stmts'] = []
                blocks[dead]['term'] = {'k': 'unreachable'}
                blocks[dead]['dead'] = True
            n += 1
        if n:
            out[f['id']] = n
    return out


# ---------------------------------------------------------------------------------------------------------------------
# bool diamonds.  `matches!(x, P)`, `a && b`, `a || b` are lowered to "assign true/false to a temporary in two blocks, merge,
# switch on the temporary".  The merge block decides nothing: each assigning block is sent straight to the target its
# constant selects, so that the real condition's edges dominate what they guard.
def bool_diamonds(fns):
    out = {}
    for f in fns:
        blocks = f['blocks']
        n = 0
        for _ in range(4):
            changed = False
            preds = {}
            for bi, b in enumerate(blocks):
                if b['cleanup']:
                    continue
                t = b['term']
                ss = [t['target']] if t['k'] in ('goto', 'call', 'drop', 'assert') and t.get('target') is not None and t.get('target', -1) >= 0 else \
                    ([tg for _, tg in t['targets']] + [t['otherwise']] if t['k'] == 'switch' else [])
                for s in ss:
                    preds.setdefault(s, []).append(bi)
            for m, b in enumerate(blocks):
                t = b['term']
                if b['cleanup'] or b['stmts'] or t['k'] != 'switch' or t['discr']['k'] not in ('copy', 'move') or t['discr']['place']['p']:
                    continue
                c = t['discr']['place']['l']
                if f['locals'][c]['ty'] != 'bool':
                    continue
                tmap = dict((v, tg) for v, tg in t['targets'])
                for p in list(preds.get(m, [])):
                    pb = blocks[p]
                    if pb['cleanup'] or pb['term']['k'] != 'goto' or pb['term']['target'] != m or not pb['stmts']:
                        continue
                    st = pb['stmts'][-1]
                    if st['lhs']['p'] or st['lhs']['l'] != c or st['rv']['k'] != 'use' or st['rv']['a']['k'] != 'const' or st['rv']['a'].get('val') not in (0, 1):
                        continue
                    pb['term'] = dict(pb['term'], target=tmap.get(st['rv']['a']['val'], t['otherwise']), bool_threaded=True)
                    n += 1
                    changed = True
            if not changed:
                break
        if n:
            out[f['id']] = n
    return out
