"""MIR inlining of crate-local helper functions into their callers (on the JSON facts).

The rules are written against the functions that carry a role in the protocol stack (the *anchors*: every function
known when the rules were written, rules/anchors.json).  A direct call from any function to a crate-local function
that is NOT an anchor - a helper introduced later by extracting code - is replaced by the helper's body, so that the
caller's MIR is again the unit the rules reason about: the extracted code is analysed in the context of its call
site instead of being an opaque call.  Inlining is purely structural (locals/blocks/promoteds renumbered, parameters
assigned from the argument operands, `return` turned into an assignment of the destination plus a goto) and is
applied transitively; recursion and indirect calls are left alone."""
import copy, json, os

HERE = os.path.dirname(os.path.dirname(os.path.abspath(__file__)))
ANCHORS_FILE = os.path.join(HERE, 'rules', 'anchors.json')
MAX_BLOCKS = 3000


def load_anchors():
    with open(ANCHORS_FILE) as fh:
        return set(json.load(fh)['functions'])


def _remap(x, loff, boff, poff):
    """Deep-copy a JSON fragment of a callee, renumbering locals and promoteds (block targets are handled per term)."""
    if isinstance(x, dict):
        if 'l' in x and 'p' in x and isinstance(x['p'], list) and isinstance(x['l'], int):
            return {'l': x['l'] + loff,
                    'p': [({**pr, 'index': pr['index'] + loff} if isinstance(pr, dict) and 'index' in pr else copy.copy(pr)) for pr in x['p']]}
        out = {}
        for k, v in x.items():
            if k == 'promoted' and isinstance(v, int):
                out[k] = v + poff
            else:
                out[k] = _remap(v, loff, boff, poff)
        return out
    if isinstance(x, list):
        return [_remap(v, loff, boff, poff) for v in x]
    return x


def _remap_term(t, loff, boff, poff):
    t = _remap(t, loff, boff, poff)
    k = t['k']
    if k == 'call':
        if t['target'] >= 0:
            t['target'] += boff
    elif k == 'switch':
        t['targets'] = [[v, tg + boff] for v, tg in t['targets']]
        t['otherwise'] += boff
    elif k in ('goto', 'drop', 'assert'):
        t['target'] += boff
    for key in ('unwind', 'cleanup_target'):
        if isinstance(t.get(key), int) and t[key] >= 0:
            t[key] += boff
    return t


class Inliner:
    def __init__(self, raw_fns, anchors):
        self.raw = {f['id']: f for f in raw_fns}
        self.anchors = anchors
        self.done = {}
        self.in_progress = set()
        self.inlined_into = {}      # helper id -> set of callers it was inlined into
        self.kept_calls = {}        # helper id -> number of call sites left as calls (recursion / indirect / size)
        self.closure_inlined = {}   # closure id -> set of functions into which an invocation of it was inlined

    def helper(self, fid):
        f = self.raw.get(fid)
        # (methods of trait impls too - a conversion `impl From<&State> for Verdict` is a helper like any other - but those stay
        #  analysed stand-alone as well: they can also be reached through generic code that this call graph does not see)
        return f is not None and fid not in self.anchors and f['kind'] in ('Fn', 'AssocFn') and f['blocks']

    def target_of(self, t):
        if t['k'] != 'call' or t.get('ckind') != 'direct':
            return None
        for c in list(t.get('resolved') or []) + [t['callee']]:
            if c in self.raw:
                return c if self.helper(c) else None
        return None

    CLOSURE_CALL = ('std::ops::FnOnce::call_once', 'std::ops::FnMut::call_mut', 'std::ops::Fn::call')

    def closure_target(self, body, t, helper_origin):
        """A call `f(args)` on a local that, inside this (already partly inlined) body, holds a closure of the crate
        defined by a known aggregate (a local closure invoked directly, or a closure handed to an inlined helper as a
        parameter): returns (closure id, alias locals)."""
        if t['k'] != 'call' or t['callee'] not in self.CLOSURE_CALL:
            return None
        a0 = t['args'][0] if t['args'] else None
        if not a0 or a0['k'] not in ('copy', 'move') or a0['place']['p']:
            return None
        L = a0['place']['l']
        names = [L]
        for _ in range(6):
            defs = [st['rv'] for b in body['blocks'] if not b['cleanup'] for st in b['stmts'] if not st['lhs']['p'] and st['lhs']['l'] == L]
            cdefs = [1 for b in body['blocks'] if not b['cleanup'] and b['term']['k'] == 'call' and b['term'].get('dest') and not b['term']['dest']['p'] and b['term']['dest']['l'] == L]
            if len(defs) != 1 or cdefs:
                return None
            rv = defs[0]
            if rv['k'] == 'agg' and rv.get('agg') == 'closure':
                cid = rv.get('closure')
                return (cid, names) if cid in self.raw and self.raw[cid]['blocks'] else None
            if rv['k'] == 'use' and rv['a']['k'] in ('copy', 'move') and not rv['a']['place']['p']:
                L = rv['a']['place']['l']
            elif rv['k'] == 'ref' and not rv['place']['p']:
                L = rv['place']['l']
            else:
                return None
            names.append(L)
        return None

    def get(self, fid):
        if fid in self.done:
            return self.done[fid]
        d = self.raw[fid]
        if fid in self.in_progress:
            return d
        if not any(self.target_of(b['term']) or (b['term']['k'] == 'call' and b['term']['callee'] in self.CLOSURE_CALL) for b in d['blocks'] if not b['cleanup']):
            self.done[fid] = d
            return d
        self.in_progress.add(fid)
        new = copy.deepcopy(d)
        new['inlined'] = []
        bi = 0
        while bi < len(new['blocks']):
            b = new['blocks'][bi]
            t = b['term']
            c = None if b['cleanup'] else self.target_of(t)
            clos = None
            if not c and not b['cleanup']:
                clos = self.closure_target(new, t, b.get('inl'))
                if clos and clos[0] != fid and clos[0] not in self.in_progress:
                    c = clos[0]
                else:
                    clos = None
            if c and c != fid and c not in self.in_progress and len(new['blocks']) < MAX_BLOCKS:
                cd = self.get(c)
                loff, boff, poff = len(new['locals']), len(new['blocks']), len(new['promoted'])
                new['locals'] += copy.deepcopy(cd['locals'])
                new['promoted'] += copy.deepcopy(cd['promoted'])
                line = (t.get('span') or {}).get('line', d['span']['line'])
                if clos:
                    # closure body: _1 = the closure (by value or by reference, as the body expects), _2.. = the
                    # components of the argument tuple ("rust-call" ABI)
                    a0 = t['args'][0]
                    want_ref = cd['locals'][1]['ty'].startswith('&')
                    have_ref = new['locals'][a0['place']['l']]['ty'].startswith('&')
                    if want_ref and not have_ref:
                        b['stmts'].append({'lhs': {'l': loff + 1, 'p': []}, 'rv': {'k': 'ref', 'mut': 'mut ' in cd['locals'][1]['ty'][:20], 'place': a0['place']}, 'line': line, 'inl': c})
                    elif have_ref and not want_ref:
                        b['stmts'].append({'lhs': {'l': loff + 1, 'p': []}, 'rv': {'k': 'use', 'a': {'k': 'copy', 'place': {'l': a0['place']['l'], 'p': ['deref']}}}, 'line': line, 'inl': c})
                    else:
                        b['stmts'].append({'lhs': {'l': loff + 1, 'p': []}, 'rv': {'k': 'use', 'a': a0}, 'line': line, 'inl': c})
                    tup = t['args'][1] if len(t['args']) > 1 else None
                    for i in range(cd['argc'] - 1):
                        if tup and tup['k'] in ('copy', 'move'):
                            src = {'k': 'move', 'place': {'l': tup['place']['l'], 'p': list(tup['place']['p']) + [{'f': str(i), 'adt': '', 'i': i}]}}
                            b['stmts'].append({'lhs': {'l': loff + 2 + i, 'p': []}, 'rv': {'k': 'use', 'a': src}, 'line': line, 'inl': c})
                    self.closure_inlined.setdefault(c, set()).add(fid)
                for i, a in enumerate(t['args'] if not clos else []):
                    b['stmts'].append({'lhs': {'l': loff + 1 + i, 'p': []}, 'rv': {'k': 'use', 'a': a}, 'line': line, 'inl': c})
                for cb in cd['blocks']:
                    nb = {'cleanup': cb['cleanup'], 'stmts': _remap(cb['stmts'], loff, boff, poff), 'term': None, 'inl': c}
                    ct = cb['term']
                    if ct['k'] == 'return':
                        nb['stmts'].append({'lhs': t['dest'], 'rv': {'k': 'use', 'a': {'k': 'move', 'place': {'l': loff, 'p': []}}}, 'line': line, 'inl': c})
                        nb['term'] = {'k': 'goto', 'target': t['target']} if t['target'] >= 0 else {'k': 'unreachable'}
                    else:
                        nb['term'] = _remap_term(ct, loff, boff, poff)
                        if 'span' not in nb['term'] and cb['stmts']:
                            pass
                    new['blocks'].append(nb)
                b['term'] = {'k': 'goto', 'target': boff, 'inl_call': c, 'span': t.get('span')}
                new['inlined'].append(c)
                if not clos:
                    self.inlined_into.setdefault(c, set()).add(fid)
            elif c:
                self.kept_calls[c] = self.kept_calls.get(c, 0) + 1
            bi += 1
        self.in_progress.discard(fid)
        self.done[fid] = new
        return new

    def run(self):
        out = [self.get(fid) for fid in self.raw]
        # closures whose every use was an inlined invocation: analysed only inside their callers
        self.closures_fully_inlined = set()
        for cid in self.closure_inlined:
            ok = True
            for body in out:
                al = set()
                for b in body['blocks']:
                    for st in b['stmts']:
                        if st['rv']['k'] == 'agg' and st['rv'].get('closure') == cid and not st['lhs']['p']:
                            al.add(st['lhs']['l'])
                if not al:
                    continue
                changed = True
                while changed:
                    changed = False
                    for b in body['blocks']:
                        for st in b['stmts']:
                            if st['lhs']['p'] or st['lhs']['l'] in al:
                                continue
                            rv = st['rv']
                            src = None
                            if rv['k'] == 'use' and rv['a']['k'] in ('copy', 'move') and not rv['a']['place']['p']:
                                src = rv['a']['place']['l']
                            elif rv['k'] == 'ref' and not rv['place']['p']:
                                src = rv['place']['l']
                            if src in al:
                                al.add(st['lhs']['l'])
                                changed = True
                for b in body['blocks']:
                    t = b['term']
                    if b['cleanup'] or t['k'] != 'call':
                        continue
                    if any(a['k'] in ('copy', 'move') and a['place']['l'] in al for a in t['args']):
                        ok = False
            if ok:
                self.closures_fully_inlined.add(cid)
        return out
