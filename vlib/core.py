"""E2 core: fact loading, CFG, dominators, call graph, canonical places,
provenance (P3), gate reachability, path-sensitive simulation (P4).

Everything here works on the JSON facts written by /verif/mirfacts (MIR at
opt-level 0 of crate `masscanned`).  Nothing of the analysed program is run.
"""
import json, re, collections, sys, os

sys.setrecursionlimit(20000)


class AnalysisError(Exception):
    """The analysis cannot decide (missing anchor, unsupported shape). Fail closed."""


# --------------------------------------------------------------------------
# expressions (provenance normal form) are nested tuples
#   ('const', val|None, name|None, ty)      scalar / named constant
#   ('bytes', hex, ty)                      byte-string / &str constant
#   ('param', i)                            value of parameter i at entry
#   ('local', n)                            an owned local as an *object* (lvalue root)
#   ('field', base, name)                   projection
#   ('variant', base, name)                 downcast
#   ('index', base, idxexpr) / ('cidx', base, off, from_end) / ('subslice',...)
#   ('deref', e)
#   ('ref', lvalue)                         address-of
#   ('call', callee, (args...), site)       site = (block) or None when value-numbered
#   ('bin', op, a, b) ('un', op, a) ('cast', kind, a, ty)
#   ('agg', tag, (ops...))                  tag e.g. 'Option::Some', 'tuple', 'array', 'closure:<id>'
#   ('discr', e) ('len', e) ('repeat', e)
#   ('phi', frozenset({e...}))              several reaching definitions
#   ('modby', callee, site)                 may-write by a call that got a &mut to the place
#   ('uninit',)                             no definition reaches (declared, not assigned)
#   ('cyc',)                                loop-carried
# --------------------------------------------------------------------------


def is_pure_getter(callee):
    """Calls that are value-numbered: same receiver provenance => same value."""
    if re.search(r"^pnet::packet::\w+(::\w+)*::\w*Packet::<'a>::(get_\w+|new)$", callee):
        return True     # getters and the (pure) view constructors
    if re.search(r"^<pnet::packet::.*Packet<'a> as pnet::packet::Packet>::(payload|packet)$", callee):
        return True
    if callee.endswith('::minimum_packet_size') or callee.endswith('::packet_size'):
        return True
    if re.search(r'^std::collections::(HashSet|HashMap)::<[^>]*>::(contains|contains_key|len|is_empty)$', callee):
        return True
    if re.search(r'^std::vec::Vec::<[^>]*>::(len|is_empty|as_slice)$', callee):
        return True
    return callee in PURE_FNS


PURE_FNS = {
    'core::slice::<impl [T]>::len', 'std::vec::Vec::<T, A>::len', 'std::string::String::len',
    'core::str::<impl str>::len', 'core::array::<impl [T; N]>::len',
    'std::net::Ipv4Addr::octets', 'std::net::Ipv6Addr::octets',
    'core::num::<impl u32>::wrapping_add', 'core::num::<impl u16>::wrapping_add',
    'core::num::<impl u32>::wrapping_sub',
    'std::option::Option::<T>::unwrap', 'std::option::Option::<T>::expect',
    'std::result::Result::<T, E>::unwrap', 'std::result::Result::<T, E>::expect',
    'std::convert::Into::into', 'std::convert::From::from', 'std::convert::TryInto::try_into',
    'std::borrow::ToOwned::to_owned', 'std::clone::Clone::clone',
    'core::slice::<impl [T]>::to_vec', 'std::ops::Deref::deref', 'std::ops::DerefMut::deref_mut',
    'core::num::<impl u16>::to_be_bytes', 'core::num::<impl u16>::to_le_bytes',
    'core::num::<impl u32>::to_be_bytes', 'core::num::<impl u32>::to_le_bytes',
    'core::num::<impl u64>::to_le_bytes', 'core::num::<impl u128>::to_be_bytes',
    'core::num::<impl usize>::to_le_bytes',
    'std::cmp::PartialEq::eq', 'std::cmp::PartialEq::ne',
    'std::collections::HashSet::<T, S>::contains', 'std::collections::HashMap::<K, V, S>::contains_key',
    'std::option::Option::<T>::is_some', 'std::option::Option::<T>::is_none',
    'std::option::Option::<T>::as_ref', 'std::option::Option::<T>::as_mut',
    'std::ops::BitOr::bitor', 'std::ops::BitAnd::bitand',
    'core::str::<impl str>::as_bytes', 'std::string::String::as_bytes',
    'std::ops::Index::index', 'std::ops::IndexMut::index_mut',
    'std::vec::Vec::<T, A>::as_slice', 'std::string::String::as_str',
}

# transparent wrappers for provenance comparison ("peel")
TRANSPARENT = {
    'std::borrow::ToOwned::to_owned', 'std::clone::Clone::clone', 'std::convert::Into::into',
    'std::convert::From::from', 'std::ops::Deref::deref', 'std::ops::DerefMut::deref_mut',
}
UNWRAPS = {
    'std::option::Option::<T>::unwrap', 'std::option::Option::<T>::expect',
    'std::result::Result::<T, E>::unwrap', 'std::result::Result::<T, E>::expect',
}


def short(e, depth=0):
    """Readable rendering of an expression."""
    if not isinstance(e, tuple):
        return repr(e)
    k = e[0]
    if depth > 12:
        return '...'
    d = depth + 1
    if k == 'const':
        return e[2].split('::')[-1] + '=' + str(e[1]) if e[2] else str(e[1])
    if k == 'bytes':
        try:
            b = bytes.fromhex(e[1])
            return 'b' + repr(b)[1:] if len(b) < 40 else 'b<%d bytes>' % len(b)
        except Exception:
            return 'bytes'
    if k == 'param':
        return 'arg%d' % e[1]
    if k == 'local':
        return '_%d' % e[1]
    if k == 'field':
        return short(e[1], d) + '.' + str(e[2])
    if k == 'variant':
        return '(' + short(e[1], d) + ' as ' + str(e[2]) + ')'
    if k == 'deref':
        return '*' + short(e[1], d)
    if k == 'ref':
        return '&' + short(e[1], d)
    if k == 'call':
        return e[1].split('::')[-1] + '(' + ', '.join(short(a, d) for a in e[2]) + ')'
    if k == 'bin':
        return '(' + short(e[2], d) + ' ' + e[1] + ' ' + short(e[3], d) + ')'
    if k == 'un':
        return e[1] + '(' + short(e[2], d) + ')'
    if k == 'cast':
        return short(e[2], d) + ' as ' + e[3]
    if k == 'agg':
        return e[1] + '{' + ', '.join(short(a, d) for a in e[2]) + '}'
    if k == 'phi':
        return 'phi[' + ' | '.join(sorted(short(a, d) for a in e[1])) + ']'
    if k in ('discr', 'len', 'repeat'):
        return k + '(' + short(e[1], d) + ')'
    if k == 'index':
        return short(e[1], d) + '[' + short(e[2], d) + ']'
    if k == 'entry':
        return 'entry:' + short(e[1], d)
    if k == 'partial':
        return 'partial(' + short(e[1], d) + ')'
    if k == 'modby':
        return 'modby:' + e[1].split('::')[-1]
    return str(e)


def walk(e):
    """Yield every sub-expression."""
    yield e
    if not isinstance(e, tuple):
        return
    k = e[0]
    if k == 'phi':
        for x in e[1]:
            yield from walk(x)
    elif k in ('call', 'agg'):
        for x in e[2]:
            yield from walk(x)
    else:
        for x in e[1:]:
            if isinstance(x, tuple):
                yield from walk(x)


def alts(e):
    """Alternatives of a phi (flattened), else [e]."""
    if isinstance(e, tuple) and e[0] == 'phi':
        out = []
        for x in e[1]:
            out += alts(x)
        return out
    return [e]


def peel(e, unwraps=True, casts=False):
    """Strip transparent wrappers: refs/derefs of values, clone/to_owned/into, optional unwrap & casts."""
    while isinstance(e, tuple):
        k = e[0]
        if k == 'call' and e[1] in TRANSPARENT and len(e[2]) >= 1:
            e = e[2][0]
        elif unwraps and k == 'call' and e[1] in UNWRAPS:
            e = e[2][0]
        elif k == 'ref' or k == 'deref':
            e = e[1]
        elif casts and k == 'cast':
            e = e[2]
        elif unwraps and k == 'field' and isinstance(e[1], tuple) and e[1][0] == 'variant' and e[1][2] in ('Some', 'Ok') and e[2] == '0':
            e = e[1][1]
        elif unwraps and k == 'agg' and e[1] in ('std::option::Option::Some',) and len(e[2]) == 1:
            e = e[2][0]
        else:
            break
    return e


def calls_in(e, name_re):
    r = re.compile(name_re)
    return [x for x in walk(e) if isinstance(x, tuple) and x[0] == 'call' and r.search(x[1])]


def is_call(e, name_re):
    return isinstance(e, tuple) and e[0] == 'call' and re.search(name_re, e[1]) is not None


def const_val(e):
    e = peel(e, casts=True)
    if isinstance(e, tuple) and e[0] == 'const':
        return e[1]
    if isinstance(e, tuple) and e[0] == 'field' and e[2] == '0' and isinstance(e[1], tuple) and e[1][0] == 'bin' and e[1][1].endswith('WithOverflow'):
        return const_val(e[1])
    if isinstance(e, tuple) and e[0] == 'bin':
        a, b = const_val(e[2]), const_val(e[3])
        if a is None or b is None:
            return None
        try:
            r = _binop(e[1], a, b, 128)
        except Exception:
            return None
        return r if not isinstance(r, tuple) else r[0]
    if isinstance(e, tuple) and e[0] == 'un' and e[1] == 'Not':
        return None
    if isinstance(e, tuple) and e[0] == 'agg' and len(e[2]) == 1:
        # newtype wrapper around a scalar, e.g. IcmpCode(0)
        return const_val(e[2][0])
    return None


# --------------------------------------------------------------------------
class Fn:
    def __init__(self, d, facts):
        self.d = d
        self.facts = facts
        self.id = d['id']
        self.blocks = d['blocks']
        self.locals = d['locals']
        self.argc = d['argc']
        self.n = len(self.blocks)
        self._succ = None
        self._pred = None
        self._dom = None
        self._ptr_cache = {}
        self._prov_cache = {}
        self._sdefs = None
        self._prov_stack = []
        self._prov_session = {}
        self._prov_inprog = set()
        self._writes = None
        self.file = d['span']['file']
        self.line = d['span']['line']

    # ---------------- CFG
    def term_succs(self, bi, cleanup=False):
        t = self.blocks[bi]['term']
        k = t['k']
        if k == 'call':
            s = [t['target']] if t['target'] >= 0 else []
        elif k == 'switch':
            s = [x[1] for x in t['targets']] + [t['otherwise']]
        elif k in ('goto', 'drop', 'assert'):
            s = [t['target']]
        else:
            s = []
        out = []
        for x in s:
            if x not in out and (cleanup or not self.blocks[x]['cleanup']):
                out.append(x)
        return out

    @property
    def succ(self):
        if self._succ is None:
            self._succ = [self.term_succs(i) if not self.blocks[i]['cleanup'] else [] for i in range(self.n)]
        return self._succ

    @property
    def pred(self):
        if self._pred is None:
            p = [[] for _ in range(self.n)]
            for i, ss in enumerate(self.succ):
                for s in ss:
                    p[s].append(i)
            self._pred = p
        return self._pred

    def reachable(self, start=0, removed_edges=(), removed_blocks=()):
        removed_edges = set(removed_edges)
        removed_blocks = set(removed_blocks)
        seen = set()
        work = [start]
        if start in removed_blocks:
            return seen
        while work:
            b = work.pop()
            if b in seen:
                continue
            seen.add(b)
            for s in self.succ[b]:
                if (b, s) in removed_edges or s in removed_blocks:
                    continue
                work.append(s)
        return seen

    def dominators(self):
        """dom[b] = set of blocks dominating b (iterative, reachable part only)."""
        if self._dom is not None:
            return self._dom
        reach = self.reachable()
        order = sorted(reach)
        dom = {b: set(order) for b in order}
        dom[0] = {0}
        changed = True
        while changed:
            changed = False
            for b in order:
                if b == 0:
                    continue
                ps = [p for p in self.pred[b] if p in reach]
                new = set.intersection(*[dom[p] for p in ps]) if ps else set()
                new = new | {b}
                if new != dom[b]:
                    dom[b] = new
                    changed = True
        self._dom = dom
        return dom

    def return_blocks(self):
        return [i for i in range(self.n) if self.blocks[i]['term']['k'] == 'return' and not self.blocks[i]['cleanup']]

    def calls(self, name_re=None, resolved_re=None):
        """[(block, term)] of call terminators in non-cleanup blocks, optionally filtered."""
        out = []
        for i, b in enumerate(self.blocks):
            if b['cleanup']:
                continue
            t = b['term']
            if t['k'] != 'call':
                continue
            if name_re is not None and not re.search(name_re, t['callee']):
                continue
            if resolved_re is not None and not any(re.search(resolved_re, r) for r in t['resolved'] + [t['callee']]):
                continue
            out.append((i, t))
        return out

    def origin(self, bi):
        """the block this one is a copy of (decision threading duplicates tails), else itself"""
        return self.blocks[bi].get('clone_of', bi)

    def n_sites(self, blocks):
        """number of distinct source sites among the blocks (copies of one block count once)"""
        return len(set(self.origin(b) for b in blocks))

    def loc(self, bi):
        t = self.blocks[bi]['term']
        sp = t.get('span')
        if sp:
            return '%s:%d' % (sp['file'], sp['line'])
        st = self.blocks[bi]['stmts']
        if st:
            return '%s:%d' % (self.file, st[-1]['line'])
        return self.file

    # ---------------- places
    def lv(self, place, point):
        """Canonical lvalue expression of a MIR place at `point`=(block, stmt_index).
        Pointer locals are resolved through their reaching definition."""
        base = ('local', place['l'])
        e = base
        first = True
        for pr in place['p']:
            if pr == 'deref':
                if first and e[0] == 'local':
                    # value of the pointer local
                    pv = self.value_of_local(e[1], point)
                    e = self._deref(pv)
                else:
                    e = self._deref(self._read_lv(e, point))
            elif isinstance(pr, dict):
                if 'f' in pr:
                    e = ('field', e, pr['f'])
                elif 'downcast' in pr:
                    e = ('variant', e, pr['downcast'])
                elif 'index' in pr:
                    e = ('index', e, self.value_of_local(pr['index'], point))
                elif 'cidx' in pr:
                    e = ('cidx', e, pr['cidx'], pr['from_end'])
                elif 'subslice' in pr:
                    e = ('subslice', e, tuple(pr['subslice']), pr['from_end'])
                else:
                    e = ('proj?', e)
            else:
                e = ('proj?', e)
            first = False
        return e

    @staticmethod
    def _deref(pv):
        if isinstance(pv, tuple) and pv[0] == 'ref':
            return pv[1]
        if isinstance(pv, tuple) and pv[0] == 'phi':
            return ('phi', frozenset(Fn._deref(x) for x in pv[1]))
        return ('deref', pv)

    def _read_lv(self, lvexpr, point):
        # reading memory at a canonical lvalue
        return self.read(lvexpr, point)

    # ---------------- write events
    def _collect_writes(self):
        """Per block: list of (stmt_index, kind, ...) possible writes.
        Built lazily per query since canonicalisation needs `point`."""
        pass

    @staticmethod
    def root_of(lv):
        e = lv
        while isinstance(e, tuple) and e[0] in ('field', 'variant', 'index', 'cidx', 'subslice', 'proj?'):
            e = e[1]
        return e

    @staticmethod
    def path_of(lv):
        p = []
        e = lv
        while isinstance(e, tuple) and e[0] in ('field', 'variant', 'index', 'cidx', 'subslice', 'proj?'):
            if e[0] == 'field':
                p.append(('f', e[2]))
            elif e[0] == 'variant':
                p.append(('v', e[2]))
            elif e[0] == 'index':
                p.append(('i', e[2]))
            elif e[0] == 'cidx' and not e[3]:
                p.append(('i', ('const', e[2], None, 'usize')))
            else:
                p.append(('i', ('?',)))
            e = e[1]
        p.reverse()
        return p

    @staticmethod
    def _overlap(wlv, rlv):
        """0 = disjoint, 1 = may overlap (partial), 2 = write covers read completely."""
        wr, rr = Fn.root_of(wlv), Fn.root_of(rlv)
        if wr != rr:
            # different roots: owned locals never alias each other; pointers might
            if wr[0] == 'local' and rr[0] == 'local':
                return 0
            if wr[0] == 'local' or rr[0] == 'local':
                return 0  # a local whose address was taken is reached via ('ref',local) -> same root
            # two different pointer-rooted objects: Rust's aliasing rules make a &mut exclusive;
            # params of different index cannot alias mutably.
            return 0
        wp, rp = Fn.path_of(wlv), Fn.path_of(rlv)
        n = min(len(wp), len(rp))
        for i in range(n):
            a, b = wp[i], rp[i]
            if a == b:
                continue
            if a[0] == 'i' and b[0] == 'i' and len(a) > 1 and len(b) > 1:
                ca, cb = const_val(a[1]), const_val(b[1])
                if ca is not None and cb is not None:
                    if ca == cb:
                        continue
                    return 0          # two different constant elements of an array
            if a[0] == 'i' or b[0] == 'i':
                return 1 if True else 0
            if a[0] == 'v' and b[0] == 'v':
                return 0
            return 0
        if len(wp) <= len(rp):
            # write to prefix (or same) covers; variant-downcast prefix counts as cover of that variant only
            return 2
        return 1

    def value_of_local(self, l, point):
        return self.read(('local', l), point)

    _allowed = None

    def read_via(self, lvexpr, point, via_block):
        """Like read(), but only along CFG paths entry -> via_block -> point."""
        anc = {via_block}
        work = [via_block]
        while work:
            b = work.pop()
            for p in self.pred[b]:
                if p not in anc:
                    anc.add(p)
                    work.append(p)
        desc = self.reachable(via_block)
        saved_cache, saved_allowed = self._prov_cache, self._allowed
        self._prov_cache, self._allowed = {}, (anc | desc)
        try:
            return self.read(lvexpr, point)
        finally:
            self._prov_cache, self._allowed = saved_cache, saved_allowed

    def read(self, lvexpr, point, _depth=0):
        """Provenance of the value stored at canonical lvalue `lvexpr` just before `point`."""
        key = (lvexpr, point)
        v = self._prov_cache.get(key, self)
        if v is not self:
            return v
        st_ = self._prov_stack
        if key in self._prov_session:
            # a result that was computed inside an unfinished cycle: usable within this top-level query only
            if st_:
                st_[-1][1] = True
            return self._prov_session[key]
        if key in self._prov_inprog:
            # still being computed (loop): everything above it on the stack is provisional
            for k_ in range(len(st_) - 1, -1, -1):
                if st_[k_][0] == key:
                    break
                st_[k_][1] = True
            return ('cyc',)
        # a temporary with exactly one definition (and whose address is never taken): its value is that definition,
        # on whatever path and in whatever loop iteration it is read - no backward search, no spurious cycles
        sd = None
        if isinstance(lvexpr, tuple) and lvexpr[0] == 'local' and len(lvexpr) == 2:
            sd = self._single_defs().get(lvexpr[1])
            if sd is not None:
                key = ('#sd', lvexpr[1])
                v = self._prov_cache.get(key, self)
                if v is not self:
                    return v
                if key in self._prov_session:
                    if st_:
                        st_[-1][1] = True
                    return self._prov_session[key]
                if key in self._prov_inprog:
                    for k_ in range(len(st_) - 1, -1, -1):
                        if st_[k_][0] == key:
                            break
                        st_[k_][1] = True
                    return ('cyc',)
        self._prov_inprog.add(key)
        frame = [key, False]
        st_.append(frame)
        try:
            if sd is not None:
                v = self.rvalue(sd[2], (sd[0], sd[1]))
            else:
                v = self._read(lvexpr, point)
        except RecursionError:
            v = ('cyc',)
        finally:
            st_.pop()
            self._prov_inprog.discard(key)
        if frame[1]:
            self._prov_session[key] = v
            if st_:
                st_[-1][1] = True
        else:
            self._prov_cache[key] = v
        if not st_:
            self._prov_session.clear()
        return v

    def _single_defs(self):
        """{local: (block, index, rvalue)} for locals defined by exactly one statement, never by a call, never
        written partially and never borrowed."""
        if self._sdefs is not None:
            return self._sdefs
        cnt, where, bad = {}, {}, set()
        for bi, b in enumerate(self.blocks):
            for i, st in enumerate(b['stmts']):
                l = st['lhs']['l']
                if st['lhs']['p']:
                    if st['lhs']['p'][0] != 'deref':
                        bad.add(l)
                else:
                    cnt[l] = cnt.get(l, 0) + 1
                    where[l] = (bi, i, st['rv'])
                rv = st['rv']
                if rv['k'] in ('ref', 'rawptr') and rv.get('place') and (not rv['place']['p'] or rv['place']['p'][0] != 'deref'):
                    bad.add(rv['place']['l'])
            t = b['term']
            if t['k'] == 'call' and t.get('dest'):
                bad.add(t['dest']['l'])
        self._sdefs = {l: where[l] for l, c in cnt.items() if c == 1 and l not in bad and l > self.argc}
        return self._sdefs

    def _read(self, lvexpr, point):
        if isinstance(lvexpr, tuple) and lvexpr[0] == 'phi':
            return self._mkphi([self.read(x, point) for x in lvexpr[1]])
        root = self.root_of(lvexpr)
        results = []
        seen = set()
        # backward walk
        work = [point]
        while work:
            (bi, si) = work.pop()
            if (bi, si) in seen:
                continue
            seen.add((bi, si))
            blk = self.blocks[bi]
            stop = False
            # statements
            if si != 'end':
                i = si - 1
            else:
                # include terminator effects of this block
                r = self._term_write(bi, lvexpr, root)
                if r is not None:
                    val, covers = r
                    results.append(val)
                    if covers:
                        continue
                i = len(blk['stmts']) - 1
            while i >= 0:
                st = blk['stmts'][i]
                r = self._stmt_write(bi, i, st, lvexpr, root)
                if r is not None:
                    val, covers = r
                    results.append(val)
                    if covers:
                        stop = True
                        break
                i -= 1
            if stop:
                continue
            if bi == 0:
                results.append(self._entry_value(lvexpr, root))
            for p in self.pred[bi]:
                if self._allowed is not None and p not in self._allowed:
                    continue
                work.append((p, 'end'))
        return self._mkphi(results)

    @staticmethod
    def _mkphi(vals):
        flat = set()
        for v in vals:
            if isinstance(v, tuple) and v[0] == 'phi':
                flat |= set(v[1])
            else:
                flat.add(v)
        if not flat:
            return ('cyc',)
        if len(flat) > 1:
            flat.discard(('uninit',))
        if len(flat) == 1:
            return next(iter(flat))
        return ('phi', frozenset(flat))

    def _entry_value(self, lvexpr, root):
        if root[0] == 'local':
            l = root[1]
            if 1 <= l <= self.argc:
                return self._project(('param', l), self.path_of(lvexpr))
            return ('uninit',)
        # memory behind a pointer that exists at entry (param-derived / call-derived)
        return ('entry', lvexpr)

    ADTS = None     # the crate's ADT table (set by Facts), for projecting named fields out of struct literals

    @staticmethod
    def _named_field(agg, name):
        nm = str(agg[1])
        for adt_id in (nm, nm.rsplit('::', 1)[0]):
            adt = Fn.ADTS.get(adt_id) if Fn.ADTS else None
            if not adt:
                continue
            for v in adt['variants']:
                if len(v['fields']) == len(agg[2]) and (len(adt['variants']) == 1 or nm.endswith('::' + v['name'])):
                    for i_, fl in enumerate(v['fields']):
                        if fl['name'] == name:
                            return i_
        return None

    @staticmethod
    def _project(val, path):
        e = val
        for k_, p in enumerate(path):
            if isinstance(e, tuple) and e[0] == 'phi' and p[0] in ('f', 'v') and any(isinstance(a, tuple) and a[0] == 'agg' for a in e[1]):
                # a merge of struct / enum literals (a decision carried in a value): project every alternative;
                # a variant downcast keeps only the alternatives of that variant
                alts_ = []
                for a in e[1]:
                    if p[0] == 'v' and isinstance(a, tuple) and a[0] == 'agg' and '::' in str(a[1]):
                        if not str(a[1]).endswith('::' + str(p[1])):
                            continue
                        alts_.append(Fn._project(a, path[k_ + 1:]))    # the literal is of that variant
                        continue
                    alts_.append(Fn._project(a, path[k_:]))
                if alts_:
                    return Fn._mkphi(alts_)
            if p[0] == 'f':
                # projection of an aggregate we know
                if isinstance(e, tuple) and e[0] == 'agg' and p[1].isdigit() and int(p[1]) < len(e[2]) and (e[1] in ('tuple', 'array') or '::' in e[1]):
                    e = e[2][int(p[1])]
                elif isinstance(e, tuple) and e[0] == 'agg' and '::' in str(e[1]) and Fn.ADTS is not None and Fn._named_field(e, p[1]) is not None:
                    # a named field of a struct literal built in this function
                    e = e[2][Fn._named_field(e, p[1])]
                elif isinstance(e, tuple) and e[0] == 'entry':
                    # a field of the value a place had at entry = the value its field place had at entry
                    e = ('entry', ('field', e[1], p[1]))
                else:
                    e = ('field', e, p[1])
            elif p[0] == 'v':
                if isinstance(e, tuple) and e[0] == 'agg' and '::' in str(e[1]) and str(e[1]).endswith('::' + str(p[1])):
                    continue
                if isinstance(e, tuple) and e[0] == 'entry':
                    e = ('entry', ('variant', e[1], p[1]))
                else:
                    e = ('variant', e, p[1])
            else:
                ix = p[1] if len(p) > 1 else ('?',)
                ci = const_val(ix) if len(p) > 1 else None
                if isinstance(e, tuple) and e[0] == 'repeat':
                    e = e[1]
                elif isinstance(e, tuple) and e[0] == 'agg' and e[1] == 'array' and ci is not None and 0 <= ci < len(e[2]):
                    e = e[2][ci]
                else:
                    e = ('index', e, ix)
        return e

    def _stmt_write(self, bi, i, st, rlv, rroot):
        lhs = st['lhs']
        # quick reject on root local for direct (non-deref-first) places
        if not lhs['p'] or lhs['p'][0] != 'deref':
            if rroot != ('local', lhs['l']):
                return None
            wlv = self.lv(lhs, (bi, i))
        else:
            if rroot == ('local', lhs['l']):
                # a store through pointer p never changes the pointer variable p itself (asking would be circular:
                # resolving the target of the store needs the very value being read)
                return None
            wlv = self.lv(lhs, (bi, i))
            if isinstance(wlv, tuple) and wlv[0] == 'phi':
                # store through a pointer with several targets: may-write to each
                hit = False
                for alt in wlv[1]:
                    if self.root_of(alt) == rroot and self._overlap(alt, rlv):
                        hit = True
                if not hit:
                    return None
                val = self.rvalue(st['rv'], (bi, i))
                return (val, False)
            if self.root_of(wlv) != rroot:
                return None
        ov = self._overlap(wlv, rlv)
        if ov == 0:
            return None
        val = self.rvalue(st['rv'], (bi, i))
        if ov == 2:
            # project the written value down to the read sub-path
            wp, rp = self.path_of(wlv), self.path_of(rlv)
            rest = rp[len(wp):]
            rv_ = st['rv']
            if rest and rv_['k'] == 'use' and rv_['a']['k'] in ('copy', 'move') and all(p_[0] in ('f', 'v') or (p_[0] == 'i' and len(p_) > 1 and const_val(p_[1]) is not None) for p_ in rest):
                # a whole-object copy: read the corresponding part of the source (keeps element-wise precision)
                src = self.lv(rv_['a']['place'], (bi, i))
                if not (isinstance(src, tuple) and src[0] == 'phi'):
                    for p_ in rest:
                        src = ('field', src, p_[1]) if p_[0] == 'f' else ('variant', src, p_[1]) if p_[0] == 'v' else ('index', src, p_[1])
                    return (self.read(src, (bi, i)), True)
            return (self._project(val, rest), True)
        return (('partial', val), False)

    def _term_write(self, bi, rlv, rroot):
        t = self.blocks[bi]['term']
        if t['k'] != 'call':
            return None
        n = len(self.blocks[bi]['stmts'])
        pt = (bi, n)
        dest = t['dest']
        dlv = self.lv(dest, pt) if dest['p'] else ('local', dest['l'])
        if self.root_of(dlv) == rroot:
            ov = self._overlap(dlv, rlv)
            if ov == 2:
                val = self.call_expr(bi)
                wp, rp = self.path_of(dlv), self.path_of(rlv)
                return (self._project(val, rp[len(wp):]), True)
            if ov == 1:
                return (('partial', self.call_expr(bi)), False)
        # may-write through &mut arguments and through references captured by a closure handed to the callee.
        # Assumption (documented): a callee never *retargets* a `&mut &mut T` it was given; it may write through it.
        callee = t['resolved'][0] if t['resolved'] else t['callee']
        targets = []
        for a in t['args']:
            if a['k'] not in ('move', 'copy') or a['place']['p']:
                continue
            lt = self.locals[a['place']['l']]['ty']
            if lt.startswith("&'{erased} mut "):
                pv = self.value_of_local(a['place']['l'], pt)
                for alt in alts(pv):
                    targets.append(self._deref(alt))
            elif 'closure' in lt.lower():
                pv = self.value_of_local(a['place']['l'], pt)
                for x in walk(pv):
                    if isinstance(x, tuple) and x[0] == 'ref':
                        targets.append(x[1])
        for tgt in targets:
            troot = self.root_of(tgt)
            if troot == rroot:
                is_ptr_local = tgt[0] == 'local' and self.locals[tgt[1]]['ty'].startswith('&')
                if is_ptr_local and rlv == tgt:
                    continue   # the pointer variable itself is not retargeted
                if self._overlap(tgt, rlv) or self._overlap(rlv, tgt):
                    return (('modby', callee, bi), False)
            if tgt[0] == 'local' and self.locals[tgt[1]]['ty'].startswith('&') and rroot != tgt:
                # a pointer local was lent out mutably: its pointee may be written
                pv = self.value_of_local(tgt[1], pt)
                for alt in alts(pv):
                    pointee = self._deref(alt)
                    if self.root_of(pointee) == rroot and (self._overlap(pointee, rlv) or self._overlap(rlv, pointee)):
                        return (('modby', callee, bi), False)
        return None

    # ---------------- values
    def operand(self, op, point):
        k = op['k']
        if k == 'const':
            if 'bytes' in op:
                return ('bytes', op['bytes'], op['ty'], op.get('name'))
            if 'ints' in op:
                # a constant array of integers used by value: the same thing as the array literal
                return ('agg', 'array', tuple(('const', v_, None, op.get('ety')) for v_ in op['ints']))
            if 'promoted' in op:
                return self._promoted(op['promoted'])
            if 'fn' in op:
                return ('fnptr', op['fn'])
            return ('const', op.get('val'), op.get('name'), op['ty'])
        if k in ('copy', 'move'):
            pl = op['place']
            return self.read(self.lv(pl, point), point)
        return ('?',)

    def _promoted(self, idx):
        try:
            pb = self.d['promoted'][idx]
        except Exception:
            return ('?promoted',)
        pf = Fn({'id': self.id + '::promoted%d' % idx, 'blocks': pb['blocks'], 'locals': pb['locals'], 'argc': 0,
                 'span': self.d['span'], 'promoted': []}, self.facts)
        rets = pf.return_blocks()
        if not rets:
            return ('?promoted',)
        pt = (rets[0], len(pf.blocks[rets[0]]['stmts']))
        v = pf.read(('local', 0), pt)
        if isinstance(v, tuple) and v[0] == 'ref':
            return ('ref', pf.read(v[1], pt))
        return v

    def rvalue(self, rv, point):
        k = rv['k']
        if k == 'use':
            return self.operand(rv['a'], point)
        if k == 'ref' or k == 'rawptr':
            lv = self.lv(rv['place'], point)
            # &*p  ==  p
            if isinstance(lv, tuple) and lv[0] == 'deref':
                return lv[1]
            return ('ref', lv)
        if k == 'bin':
            return ('bin', rv['op'], self.operand(rv['a'], point), self.operand(rv['b'], point))
        if k == 'un':
            a = self.operand(rv['a'], point)
            if rv['op'] == 'PtrMetadata':
                return ('len', a)
            return ('un', rv['op'], a)
        if k == 'cast':
            a = self.operand(rv['a'], point)
            if rv['kind'].startswith('PointerCoercion') or rv['kind'] in ('PtrToPtr', 'Transmute') and False:
                return a
            srcty = None
            if rv['a']['k'] in ('copy', 'move'):
                srcty = place_type(self, rv['a']['place'])
            elif rv['a']['k'] == 'const':
                srcty = rv['a'].get('ty')
            return ('cast', rv['kind'], a, rv['ty'], srcty)
        if k == 'agg':
            ops = tuple(self.operand(o, point) for o in rv['ops'])
            if rv.get('agg') == 'adt':
                return ('agg', rv['adt'] + '::' + rv['variant'], ops)
            if rv.get('agg') == 'closure':
                return ('agg', 'closure:' + rv['closure'], ops)
            return ('agg', rv.get('agg', '?'), ops)
        if k == 'discr':
            return ('discr', self.read(self.lv(rv['place'], point), point))
        if k == 'repeat':
            return ('repeat', self.operand(rv['a'], point))
        return ('?rv', k)

    def call_expr(self, bi):
        t = self.blocks[bi]['term']
        assert t['k'] == 'call'
        pt = (bi, len(self.blocks[bi]['stmts']))
        args = tuple(self.operand(a, pt) for a in t['args'])
        callee = t['resolved'][0] if t['resolved'] else t['callee']
        decl = t['callee']
        m = re.match(r'^std::convert::num::<impl std::convert::From<(\w+)> for (\w+)>::from$', callee)
        if m and len(args) == 1 and m.group(1) in INT_W and m.group(2) in INT_W:
            return ('cast', 'IntToInt', args[0], m.group(2), m.group(1))     # lossless integer widening
        name = decl if decl in PURE_FNS or decl in TRANSPARENT or decl in UNWRAPS else callee
        m = re.match(r'^core::net::ip_addr::<impl std::convert::From<std::net::Ipv([46])Addr> for (u32|u128)>::from$', callee)
        if m:
            # address -> integer: a real conversion (big-endian octets), not a transparent From
            return ('call', '<%s as std::convert::From<std::net::Ipv%sAddr>>::from' % (m.group(2), m.group(1)), args, None)
        # keep trait-declared name for well-known std traits so tables stay small
        if is_pure_getter(name) or is_pure_getter(callee):
            return ('call', name, args, None)
        return ('call', name, args, bi)

    def call_val(self, bi):
        """call_expr with references to temporaries resolved (comparable with switch discriminants)."""
        return self.through_refs(self.call_expr(bi), bi)

    def arg(self, bi, i):
        """Provenance of argument i of the call terminating block bi."""
        t = self.blocks[bi]['term']
        pt = (bi, len(self.blocks[bi]['stmts']))
        return self.operand(t['args'][i], pt)

    def through_refs(self, e, bi, depth=0):
        """Replace references to locals by references to their current value (content view)."""
        pt = (bi, len(self.blocks[bi]['stmts']))
        return self._through(e, pt, depth)

    keep_objects = None   # optional regex: locals whose type matches stay as identities (&_n)

    def objview(self, e, bi):
        """Like through_refs, but references to packet objects (Mutable*Packet locals) stay symbolic (&_n)."""
        self.keep_objects = re.compile(r'^pnet::packet::[\w:]*Mutable\w+Packet<')
        try:
            return self.through_refs(e, bi)
        finally:
            self.keep_objects = None

    def _through(self, e, pt, depth):
        if not isinstance(e, tuple) or depth > 10:
            return e
        k = e[0]
        if k == 'ref' and isinstance(e[1], tuple) and self.root_of(e[1])[0] == 'local':
            if self.keep_objects is not None and e[1][0] == 'local' and self.keep_objects.search(self.locals[e[1][1]]['ty']):
                return e
            v = self.read(e[1], pt)
            return ('ref', self._through(v, pt, depth + 1))
        if k == 'call':
            return ('call', e[1], tuple(self._through(a, pt, depth + 1) for a in e[2]), e[3])
        if k == 'agg':
            return ('agg', e[1], tuple(self._through(a, pt, depth + 1) for a in e[2]))
        if k == 'phi':
            return ('phi', frozenset(self._through(a, pt, depth + 1) for a in e[1]))
        if k in ('bin',):
            return (k, e[1], self._through(e[2], pt, depth + 1), self._through(e[3], pt, depth + 1))
        if k in ('un',):
            return (k, e[1], self._through(e[2], pt, depth + 1))
        if k == 'cast':
            return (k, e[1], self._through(e[2], pt, depth + 1)) + tuple(e[3:])
        if k in ('field', 'variant'):
            return (k, self._through(e[1], pt, depth + 1), e[2])
        if k in ('discr', 'len', 'deref', 'repeat'):
            return (k, self._through(e[1], pt, depth + 1))
        return e

    def argv(self, bi, i):
        """Argument provenance with refs-to-temporaries resolved to their contents."""
        return self.through_refs(self.arg(bi, i), bi)

    def ret_value(self, rb):
        return self.read(('local', 0), (rb, len(self.blocks[rb]['stmts'])))

    # ---------------- branch conditions
    def switch_edges(self, bi):
        """For a SwitchInt block: (discr_expr, [(succ, value|None)]) ; None = otherwise."""
        t = self.blocks[bi]['term']
        if t['k'] != 'switch':
            return None
        pt = (bi, len(self.blocks[bi]['stmts']))
        d = self._through(self.operand(t['discr'], pt), pt, 0)
        edges = [(tg, v) for v, tg in t['targets']] + [(t['otherwise'], None)]
        return d, edges, [v for v, _ in t['targets']]

    # enums of std whose variant count the analysis may rely on (discriminants 0..n-1)
    STD_ENUM_VARIANTS = {'std::net::IpAddr': 2, 'std::option::Option': 2, 'std::result::Result': 2}

    def _enum_variants_of_discr(self, bi):
        """Variant count of the enum whose discriminant the switch of block bi tests (None if not an enum
        discriminant or unknown type).  The discriminant must have been read by a `discriminant(place)` statement."""
        t = self.blocks[bi]['term']
        if t['k'] != 'switch' or t['discr']['k'] not in ('copy', 'move') or t['discr']['place']['p']:
            return None
        l = t['discr']['place']['l']
        for st in reversed(self.blocks[bi]['stmts']):
            if not st['lhs']['p'] and st['lhs']['l'] == l:
                if st['rv']['k'] != 'discr':
                    return None
                pl = st['rv']['place']
                try:
                    ty = place_type(self, pl)
                except Exception:
                    ty = None
                if ty is None:
                    return None
                base = re.sub(r'<.*$', '', ty.lstrip('&').replace('mut ', ''))
                if base in self.STD_ENUM_VARIANTS:
                    return self.STD_ENUM_VARIANTS[base]
                adt = self.facts.adts.get(base)
                if adt and adt.get('kind') == 'enum':
                    return len(adt['variants'])
                return None
        return None

    def infeasible_edges(self):
        """`otherwise` edges of enum-discriminant switches that no value can take: the explicit values of the
        switch, together with those of dominating switches on the same discriminant expression that can only be
        left towards this block through their own otherwise edge, cover every variant (if-let chains leave such
        edges in unoptimised MIR)."""
        if getattr(self, '_infeasible', None) is not None:
            return self._infeasible
        out = []
        dom = self.dominators()
        for bi in range(self.n):
            if self.blocks[bi]['cleanup']:
                continue
            n = self._enum_variants_of_discr(bi)
            if not n:
                continue
            se = self.switch_edges(bi)
            d, edges, vals = se
            covered = set(vals)
            for pb in dom.get(bi, ()):
                if pb == bi or self.blocks[pb]['term']['k'] != 'switch':
                    continue
                pse = self.switch_edges(pb)
                if pse[0] != d or isinstance(d, tuple) and d[0] in ('phi', 'cyc'):
                    continue
                oth = self.blocks[pb]['term']['otherwise']
                # bi reachable from pb only through pb's otherwise edge
                if bi not in self.reachable(pb, removed_edges=[(pb, oth)]) - {pb}:
                    covered |= set(pse[2])
            if covered >= set(range(n)):
                out.append((bi, self.blocks[bi]['term']['otherwise']))
        self._infeasible = out
        return out

    def gate_edges(self, pred_fn):
        """All CFG edges (b, s) for which pred_fn(discr_expr, value, other_values) is true.
        value None means the `otherwise` edge; other_values are the explicit switch values."""
        out = []
        for bi in range(self.n):
            if self.blocks[bi]['cleanup']:
                continue
            se = self.switch_edges(bi)
            if not se:
                continue
            d, edges, vals = se
            for (s, v) in edges:
                try:
                    ok = pred_fn(d, v, vals)
                except Exception:
                    ok = False
                if ok:
                    out.append((bi, s))
        return out

    def must_pass(self, edges, target_blocks, start=0):
        """True iff every path start->target passes one of `edges`. Returns offending targets."""
        reach = self.reachable(start, removed_edges=edges)
        return [t for t in target_blocks if t in reach]

    # ---------------- path-sensitive simulation (P4)
    def simulate(self, init, on_stmt=None, on_term=None, on_edge=None, maxstates=4000):
        """Propagate sets of abstract states. on_term(bi, term, state)->state|[states];
        on_edge(bi, succ, value, discr_expr, state)->state|None (None = infeasible).
        Returns dict block -> set(states at block entry), and list of (block, state) at returns."""
        states = collections.defaultdict(set)
        states[0].add(init)
        work = [0]
        exits = []
        exit_seen = set()
        while work:
            bi = work.pop()
            blk = self.blocks[bi]
            if blk['cleanup']:
                continue
            outs = set()
            for st in list(states[bi]):
                s = st
                if on_stmt:
                    for i, stmt in enumerate(blk['stmts']):
                        s = on_stmt(bi, i, stmt, s)
                cur = [s]
                if on_term:
                    r = on_term(bi, blk['term'], s)
                    cur = r if isinstance(r, list) else [r]
                for c in cur:
                    if c is not None:
                        outs.add(c)
            t = blk['term']
            if t['k'] == 'return':
                for o in outs:
                    if (bi, o) not in exit_seen:
                        exit_seen.add((bi, o))
                        exits.append((bi, o))
                continue
            if t['k'] == 'switch' and on_edge:
                d, edges, vals = self.switch_edges(bi)
                for (s, v) in edges:
                    if self.blocks[s]['cleanup']:
                        continue
                    new = set()
                    for o in outs:
                        r = on_edge(bi, s, v, d, vals, o)
                        if r is not None:
                            new.add(r)
                    add = new - states[s]
                    if add:
                        states[s] |= add
                        if len(states[s]) > maxstates:
                            raise AnalysisError('state explosion in %s' % self.id)
                        if s not in work:
                            work.append(s)
            else:
                for s in self.succ[bi]:
                    add = outs - states[s]
                    if add:
                        states[s] |= add
                        if len(states[s]) > maxstates:
                            raise AnalysisError('state explosion in %s' % self.id)
                        if s not in work:
                            work.append(s)
        return states, exits


# --------------------------------------------------------------------------
class Facts:
    def __init__(self, path):
        with open(path) as fh:
            self.d = json.load(fh)
        self.fns = {}
        # helper functions that are not anchors of the rule set are inlined into their callers (vlib/inline.py)
        from . import inline as _inl
        # std Option/Result combinators are expanded into the `match` they stand for (vlib/combinators.py)
        from . import combinators as _cmb
        self.expanded = _cmb.run(self.d['fns'])
        self.bool_selects = _cmb.bool_selects(self.d['fns'])
        self.bool_diamonds = _cmb.bool_diamonds(self.d['fns'])
        self.anchors = _inl.load_anchors()
        il = _inl.Inliner(self.d['fns'], self.anchors)
        self.d['fns'] = il.run()
        # helpers whose every call site was inlined: analysed only in the context of their callers
        self.inlined_helpers = {h: sorted(cs) for h, cs in il.inlined_into.items() if not il.kept_calls.get(h) and not (il.raw[h].get('impl_trait') or '')}
        for cid in il.closures_fully_inlined:
            self.inlined_helpers[cid] = sorted(il.closure_inlined[cid])
        # decisions carried in enum values are threaded back into control flow (vlib/thread.py)
        from . import thread as _thr
        self.threaded = _thr.run([f for f in self.d['fns'] if f['id'] not in self.inlined_helpers], self.d.get('adts', []),
                                 std_enums=os.environ.get('VERIF_THREAD_STD', '1') == '1')
        for f in self.d['fns']:
            if f['id'] in self.inlined_helpers:
                continue
            self.fns[f['id']] = Fn(f, self)
        self.helper_fns = {f['id']: f for f in self.d['fns'] if f['id'] in self.inlined_helpers}
        self.statics = self.d['statics']
        self.fmt = self.d['fmt']
        self.adts = {a['id']: a for a in self.d.get('adts', [])}
        Fn.ADTS = self.adts
        self._cg = None
        self.closures_of = collections.defaultdict(list)
        for f in self.d['fns']:
            if f['kind'] == 'Closure' and f['id'] not in self.inlined_helpers:
                # (a closure whose every use was an inlined invocation lives on only inside its callers)
                self.closures_of[f['parent']].append(f['id'])
        # impls by trait method name
        self.impls = collections.defaultdict(list)   # (trait, method) -> [fn ids]
        for f in self.d['fns']:
            it = f.get('impl_trait') or ''
            m = re.match(r'^<(.*) as (.*)>$', it)
            if m:
                trait = re.sub(r'<.*$', '', m.group(2))
                self.impls[(trait, f['name'])].append(f['id'])

    def fn(self, fid):
        if fid not in self.fns:
            raise AnalysisError('anchor function missing: %s' % fid)
        return self.fns[fid]

    def find(self, regex):
        r = re.compile(regex)
        return [f for k, f in self.fns.items() if r.search(k)]

    # ---------------- call graph (P1)
    FMT_ARG = re.compile(r"^core::fmt::rt::Argument::<'_>::new_(display|debug|lower_hex|upper_hex|octal|binary|lower_exp|upper_exp|pointer)$")
    FMT_TRAIT = {'display': 'Display', 'debug': 'Debug', 'lower_hex': 'LowerHex', 'upper_hex': 'UpperHex', 'octal': 'Octal', 'binary': 'Binary',
                 'lower_exp': 'LowerExp', 'upper_exp': 'UpperExp', 'pointer': 'Pointer'}

    def fmt_arg_target(self, f, bi):
        """A `format_args!` argument constructor (`Argument::new_display::<T>(&x)`) stores a pointer to `<T as Display>::fmt`, which the
        formatter calls later: the id of that impl (a local body when T is a crate type, else a pseudo id for the API tables)."""
        t = f.blocks[bi]['term']
        if t['k'] != 'call':
            return None
        m = self.FMT_ARG.match(t['callee'])
        if not m or not t['args'] or t['args'][0]['k'] not in ('copy', 'move'):
            return None
        ty = f.locals[t['args'][0]['place']['l']]['ty']
        while True:
            ty2 = re.sub(r"^&('\{?\w+\}? )?(mut )?", '', ty)
            if ty2 == ty:
                break
            ty = ty2
        trait = 'std::fmt::' + self.FMT_TRAIT[m.group(1)]
        bare = re.sub(r'<.*$', '', ty)
        for imp in self.impls.get((trait, 'fmt'), []):
            mm = re.match(r'^<(.+?) as std::fmt::\w+>::fmt$', imp)
            if mm and re.sub(r'<.*$', '', mm.group(1)) == bare:
                return imp
        return '<%s as %s>::fmt' % (re.sub(r"'\{?\w+\}?", "'_", ty), trait)

    def callees(self, fid):
        """Resolved local + external callee ids of function fid (with closure-creation edges)."""
        f = self.fns[fid]
        out = []
        for bi, b in enumerate(f.blocks):
            if b['cleanup']:
                continue
            for st in b['stmts']:
                rv = st['rv']
                if rv['k'] == 'agg' and rv.get('agg') == 'closure':
                    out.append((rv['closure'], bi, 'closure'))
            t = b['term']
            if t['k'] != 'call':
                continue
            tgt = []
            if t['ckind'] == 'direct' and t['resolved']:
                tgt = list(t['resolved'])
            elif t['ckind'] in ('virtual', 'unresolved'):
                trait = re.sub(r'<.*$', '', t['trait'])
                tgt = list(self.impls.get((trait, t['name']), []))
                if not tgt:
                    tgt = [t['callee']]
                # default-method bodies of the trait itself
                if t['callee'] in self.fns and t['callee'] not in tgt:
                    tgt.append(t['callee'])
            else:
                tgt = [t['callee']]
            for x in tgt:
                out.append((x, bi, t['ckind']))
            fa = self.fmt_arg_target(f, bi)
            if fa:
                out.append((fa, bi, 'fmtarg'))
            # fn items passed as arguments (e.g. lazy initialisers, callbacks)
            for a in t['args']:
                if a['k'] == 'const' and 'fn' in a:
                    out.append((a['fn'], bi, 'fnarg'))
        return out

    def callgraph(self):
        if self._cg is None:
            cg = {}
            for fid in self.fns:
                cg[fid] = self.callees(fid)
            self._cg = cg
        return self._cg

    def cone(self, roots, stop=()):
        """Local functions reachable from roots (ids), not descending into `stop`."""
        cg = self.callgraph()
        seen = set()
        work = list(roots)
        while work:
            x = work.pop()
            if x in seen or x not in self.fns or x in stop:
                continue
            seen.add(x)
            for (c, _, _) in cg[x]:
                if c not in seen:
                    work.append(c)
        return seen

    def ext_calls(self, fids):
        """External callees (not local bodies) called from the given local functions: {callee: [(fid, block)]}"""
        cg = self.callgraph()
        out = collections.defaultdict(list)
        for fid in fids:
            for (c, bi, k) in cg[fid]:
                if c not in self.fns:
                    out[c].append((fid, bi))
        return out

    def callers(self, target):
        cg = self.callgraph()
        out = []
        for fid, cs in cg.items():
            for (c, bi, k) in cs:
                if c == target:
                    out.append((fid, bi))
        return out


# --------------------------------------------------------------------------
def decode_template(hexbytes):
    """Decode a core::fmt::Arguments template (see library/core/src/fmt/mod.rs) into
    [('lit', str) | ('arg', index)]. Raises AnalysisError on malformed input."""
    b = bytes.fromhex(hexbytes)
    out = []
    i = 0
    argi = 0
    while True:
        if i >= len(b):
            raise AnalysisError('unterminated fmt template')
        n = b[i]
        i += 1
        if n == 0:
            if i != len(b):
                raise AnalysisError('fmt template: trailing bytes')
            return out
        if n < 0x80:
            out.append(('lit', b[i:i + n].decode('utf-8', 'replace')))
            i += n
        elif n == 0x80:
            ln = b[i] | (b[i + 1] << 8)
            i += 2
            out.append(('lit', b[i:i + ln].decode('utf-8', 'replace')))
            i += ln
        elif n >= 0xC0:
            if n & 1:
                i += 4
            if n & 2:
                i += 2
            if n & 4:
                i += 2
            if n & 8:
                argi = b[i] | (b[i + 1] << 8)
                i += 2
            # a precision (`{:.15}`) truncates what is printed: marked, so that rules about faithful printing can see it
            out.append(('arg', argi, 'prec') if n & 4 else ('arg', argi))
            argi += 1
        else:
            raise AnalysisError('fmt template: bad byte %#x' % n)


def fmt_of(e):
    """From the provenance of a core::fmt::Arguments value: (pieces, [arg exprs]) or None."""
    for c in walk(e):
        if isinstance(c, tuple) and c[0] == 'call' and re.search(r'fmt::Arguments::<.*>::new$', c[1]):
            tpl = peel(c[2][0])
            if not (isinstance(tpl, tuple) and tpl[0] == 'bytes'):
                return None
            pieces = decode_template(tpl[1])
            arr = peel(c[2][1])
            args = []
            if isinstance(arr, tuple) and arr[0] == 'agg':
                for a in arr[2]:
                    a = peel(a)
                    if isinstance(a, tuple) and a[0] == 'call' and 'Argument' in a[1]:
                        args.append(a[2][0])
                    else:
                        args.append(a)
            return pieces, args
        if isinstance(c, tuple) and c[0] == 'call' and re.search(r'fmt::Arguments::<.*>::from_str', c[1]):
            s = peel(c[2][0])
            if isinstance(s, tuple) and s[0] == 'bytes':
                return [('lit', bytes.fromhex(s[1]).decode('utf-8', 'replace'))], []
            return None
    return None


# --------------------------------------------------------------------------
# P6: decision-table extraction by exhaustive evaluation of a pure guard region
INT_W = {'u8': 8, 'u16': 16, 'u32': 32, 'u64': 64, 'usize': 64, 'u128': 128, 'bool': 1,
         'i8': 8, 'i16': 16, 'i32': 32, 'i64': 64, 'isize': 64, 'i128': 128}


# pure std functions the evaluator understands (semantics from the std documentation)
CALL_MODELS = [
    (r'^core::num::<impl u8>::is_ascii_digit$', lambda b: int(0x30 <= b <= 0x39)),
    (r'^core::num::<impl u8>::is_ascii_alphabetic$', lambda b: int(0x41 <= b <= 0x5a or 0x61 <= b <= 0x7a)),
    (r'^core::num::<impl u8>::is_ascii_whitespace$', lambda b: int(b in (0x20, 0x09, 0x0a, 0x0c, 0x0d))),
    (r'^core::num::<impl u8>::to_ascii_lowercase$', lambda b: b + 32 if 0x41 <= b <= 0x5a else b),
    (r'^core::num::<impl u(8|16|32|64|size)>::wrapping_add$', lambda a, b: a + b),
    # value-preserving wrappers (whether they can fail is C01's business, not the evaluator's)
    (r'(^|::)TryInto<U>>::try_into$|^std::convert::TryInto::try_into$', lambda a: a),
    (r'^std::result::Result::<T, E>::(unwrap|expect)$', lambda a, *r: a),
    (r'^std::option::Option::<T>::(unwrap|expect)$', lambda a, *r: a),
    (r'^std::convert::num::<impl std::convert::From<u\d+> for u\w+>::from$', lambda a: a),
]


def eval_fn(f, args, max_steps=4000):
    """Evaluate a pure integer function concretely: args -> return value (None if it cannot be decided)."""
    env = {i + 1: a for i, a in enumerate(args)}
    rets = set(f.return_blocks())
    r = eval_region(f, 0, env, skip_calls=True, assume_asserts=False, stop_at=rets, max_steps=max_steps)
    if r[0] == 'arm' and r[1] in rets:
        # run the statements of the return block
        env2 = dict(r[2])
        r2 = eval_region(f, r[1], env2, skip_calls=True, max_steps=50)
        return r2[2].get(0)
    return None


def eval_expr(e, leaf, width=64):
    """Evaluate a provenance expression over integers; leaf(e) supplies values of non-arithmetic leaves (or None)."""
    if not isinstance(e, tuple) or not e:
        raise KeyError(e)
    k = e[0]
    lv_ = leaf(e)
    if lv_ is not None:
        return lv_
    if k == 'const':
        if isinstance(e[1], int):
            return e[1]
        raise KeyError(e)
    if k == 'cast':
        v = eval_expr(e[2], leaf, width)
        w = INT_W.get(e[3])
        return v & ((1 << w) - 1) if w else v
    if k == 'bin':
        a, b = eval_expr(e[2], leaf, width), eval_expr(e[3], leaf, width)
        r = _binop(e[1], a, b, width)
        return r
    if k == 'un' and e[1] == 'Not':
        return (~eval_expr(e[2], leaf, width)) & ((1 << width) - 1)
    if k == 'field' and e[2] == '0' and isinstance(e[1], tuple) and e[1][0] == 'bin' and e[1][1].endswith('WithOverflow'):
        return eval_expr(e[1], leaf, width)[0]
    if k in ('ref', 'deref'):
        return eval_expr(e[1], leaf, width)
    if k == 'call' and (e[1] in TRANSPARENT or e[1] in UNWRAPS or e[1].endswith('try_into')) and e[2]:
        return eval_expr(e[2][0], leaf, width)
    if k == 'field' and isinstance(e[1], tuple) and e[1][0] == 'variant' and e[1][2] in ('Ok', 'Some') and e[2] == '0':
        return eval_expr(e[1][1], leaf, width)
    raise KeyError(e)


def _binop(op, a, b, w):
    m = (1 << w) - 1
    if op in ('BitOr',):
        return a | b
    if op == 'BitAnd':
        return a & b
    if op == 'BitXor':
        return a ^ b
    if op == 'Eq':
        return int(a == b)
    if op == 'Ne':
        return int(a != b)
    if op == 'Lt':
        return int(a < b)
    if op == 'Le':
        return int(a <= b)
    if op == 'Gt':
        return int(a > b)
    if op == 'Ge':
        return int(a >= b)
    if op in ('Add', 'AddUnchecked'):
        return (a + b) & m
    if op in ('Sub', 'SubUnchecked'):
        return (a - b) & m
    if op in ('Mul', 'MulUnchecked'):
        return (a * b) & m
    if op in ('Shl', 'ShlUnchecked'):
        return (a << b) & m
    if op in ('Shr', 'ShrUnchecked'):
        return a >> b
    if op == 'AddWithOverflow':
        return ((a + b) & m, int(a + b > m))
    if op == 'SubWithOverflow':
        return ((a - b) & m, int(a - b < 0))
    if op == 'MulWithOverflow':
        return ((a * b) & m, int(a * b > m))
    if op == 'Div':
        return a // b
    if op == 'Rem':
        return a % b
    raise KeyError(op)


def eval_region(fn, entry, env, max_steps=2000, stop_at=None, menv=None, assume_asserts=False, until_assert=None,
                read_hook=None, skip_calls=False, track_mem=False, call_hook=None):
    """Concretely evaluate MIR from block `entry` with env {local: int|tuple}.
    Only pure integer statements, switches, gotos and asserts are interpreted; the first
    other terminator ends the region.  Returns (kind, block, env):
      ('arm', b)   reached a non-interpretable terminator at block b (the arm head)
      ('panic', b) an Assert failed at b
      ('stuck', b) a needed value is unknown (region is not a pure guard) -> caller fails closed
    """
    env = dict(env)
    refs = {}
    prefs = {}
    B = fn.blocks

    def width(l):
        return INT_W.get(fn.locals[l]['ty'], 64)

    menv = dict(menv or {})
    menv_watch = set(menv) if track_mem else None

    def canon(p):
        # resolve accesses through pointer locals that are known to point to a place (reborrows / copies of a
        # reference parameter, e.g. `self` of an inlined method): (*_n).f  ->  (*_1).f
        for _ in range(4):
            l, pr = p['l'], p['p']
            if pr and pr[0] == 'deref':
                if l in prefs:
                    p = {'l': prefs[l]['l'], 'p': list(prefs[l]['p']) + list(pr[1:])}
                    continue
                if l in refs and len(pr) > 1:
                    p = {'l': refs[l], 'p': list(pr[1:])}
                    continue
            break
        return p

    def rd_place(p):
        p = canon(p)
        l, pr = p['l'], p['p']
        if pr and read_hook is not None:
            hv = read_hook(p, env)
            if hv is not None:
                return hv
        if pr and menv:
            k = json.dumps(p, sort_keys=True)
            if k in menv:
                return menv[k]
        if not pr:
            return env[l]
        if len(pr) >= 2 and isinstance(pr[0], dict) and 'downcast' in pr[0] and isinstance(pr[1], dict) and 'f' in pr[1]:
            # payload of an enum value built by a modelled call: ('#variant', idx, (fields..))
            v_ = env.get(l)
            if isinstance(v_, tuple) and len(v_) == 3 and v_[0] == '#variant' and v_[1] == pr[0]['v'] and pr[1]['i'] < len(v_[2]):
                pv_ = v_[2][pr[1]['i']]
                if len(pr) == 2:
                    return pv_
                if pr[2:] == ['deref'] and isinstance(pv_, tuple) and pv_[0] == '#ptr':
                    return pv_[1]
            raise KeyError(('payload', l))
        if pr == ['deref'] and isinstance(env.get(l), tuple) and env[l][:1] == ('#ptr',):
            return env[l][1]
        if pr == ['deref']:
            if l in refs:
                return env[refs[l]]
            if l in prefs:
                return rd_place(prefs[l])
            raise KeyError(('deref', l))
        if len(pr) in (1, 2) and isinstance(pr[-1], dict) and 'index' in pr[-1] and (len(pr) == 1 or pr[0] == 'deref'):
            base = env.get(l)
            if isinstance(base, (bytes, tuple, list)):
                iv = env[pr[-1]['index']]
                return base[iv]
        if len(pr) == 1 and isinstance(pr[0], dict) and 'f' in pr[0] and isinstance(env.get(l), tuple):
            return env[l][pr[0]['i']]
        raise KeyError(('place', l))

    def rd(op):
        if op['k'] == 'const':
            if op.get('val') is not None:
                return op['val']
            if 'bytes' in op:
                return bytes.fromhex(op['bytes'])
            raise KeyError('const')
        return rd_place(op['place'])

    bi = entry
    steps = 0
    while True:
        steps += 1
        if steps > max_steps:
            return ('stuck', bi, env)
        if stop_at is not None and bi in stop_at and steps > 1:
            if track_mem:
                return ('arm', bi, env, menv)
            return ('arm', bi, env)
        b = B[bi]
        for s in b['stmts']:
            lhs, rv = s['lhs'], s['rv']
            k = rv['k']
            if lhs['p']:
                lhs = canon(lhs)
            if lhs['p']:
                # store into memory: forget (or, with track_mem, record) what we know about it
                key_ = json.dumps(lhs, sort_keys=True)
                if track_mem:
                    try:
                        if k == 'use':
                            menv[key_] = rd(rv['a'])
                        elif k == 'bin' and not rv['op'].endswith('WithOverflow'):
                            # read-modify-write directly on memory (release MIR: `state += 1` without overflow check)
                            try:
                                wty = place_type(fn, lhs)
                            except Exception:
                                wty = None
                            r_ = _binop(rv['op'], rd(rv['a']), rd(rv['b']), INT_W.get(wty, 64))
                            menv[key_] = r_ if not isinstance(r_, tuple) else r_[0]
                        elif k == 'cast' and rv['kind'] == 'IntToInt':
                            menv[key_] = rd(rv['a']) & ((1 << INT_W.get(rv['ty'], 64)) - 1)
                        else:
                            menv.pop(key_, None)
                            if key_ in (menv_watch or ()):
                                return ('stuck', bi, env)
                    except KeyError:
                        menv.pop(key_, None)
                        if key_ in (menv_watch or ()):
                            return ('stuck', bi, env)
                elif menv:
                    menv.pop(key_, None)
                continue
            l = lhs['l']
            try:
                if k == 'use':
                    a_ = rv['a']
                    if a_['k'] in ('copy', 'move') and not a_['place']['p'] and fn.locals[l]['ty'].startswith('&'):
                        # a copied pointer keeps pointing to the same place
                        m_ = a_['place']['l']
                        refs.pop(l, None)
                        prefs.pop(l, None)
                        if m_ in refs:
                            refs[l] = refs[m_]
                        elif m_ in prefs:
                            prefs[l] = prefs[m_]
                        elif 1 <= m_ <= fn.argc:
                            prefs[l] = {'l': m_, 'p': ['deref']}
                        env.pop(l, None)
                        try:
                            env[l] = rd(a_)
                        except KeyError:
                            pass
                    else:
                        env[l] = rd(rv['a'])
                elif k == 'ref':
                    pl = canon(rv['place'])
                    prefs.pop(l, None)
                    refs.pop(l, None)
                    if not pl['p']:
                        refs[l] = pl['l']
                    elif pl['p'] == ['deref'] and pl['l'] in refs:
                        refs[l] = refs[pl['l']]
                    else:
                        env.pop(l, None)
                        prefs[l] = pl
                elif k == 'bin':
                    a, c = rd(rv['a']), rd(rv['b'])
                    env[l] = _binop(rv['op'], a, c, width(l) if not rv['op'].endswith('WithOverflow') else
                                    INT_W.get(re.sub(r'^\((\w+), bool\)$', r'\1', fn.locals[l]['ty']), 64))
                elif k == 'un':
                    a = rd(rv['a'])
                    if rv['op'] == 'Not':
                        env[l] = int(not a) if fn.locals[l]['ty'] == 'bool' else (~a) & ((1 << width(l)) - 1)
                    elif rv['op'] == 'Neg':
                        env[l] = (-a) & ((1 << width(l)) - 1)
                    else:
                        env.pop(l, None)
                elif k == 'cast' and rv['kind'] == 'IntToInt':
                    env[l] = rd(rv['a']) & ((1 << INT_W.get(rv['ty'], 64)) - 1)
                elif k == 'discr':
                    # field-less enums are represented by their variant index
                    v_ = rd_place(rv['place'])
                    if isinstance(v_, int):
                        env[l] = v_
                    elif isinstance(v_, tuple) and len(v_) in (2, 3) and v_[0] == '#variant':
                        env[l] = v_[1]
                    else:
                        env.pop(l, None)
                elif k == 'agg' and rv.get('agg') == 'adt' and not rv.get('ops') and 'vidx' in rv:
                    env[l] = rv['vidx']
                elif k == 'agg' and rv.get('agg') == 'adt' and 'vidx' in rv:
                    # an enum value with payload (Some(x), Ok(y)): only its variant is tracked
                    env[l] = ('#variant', rv['vidx'])
                else:
                    env.pop(l, None)
                    refs.pop(l, None)
            except KeyError:
                env.pop(l, None)
        t = b['term']
        if t['k'] == 'switch':
            try:
                v = rd(t['discr'])
            except KeyError:
                return ('stuck', bi, env)
            nxt = t['otherwise']
            for val, tg in t['targets']:
                if val == v:
                    nxt = tg
            bi = nxt
        elif t['k'] == 'goto':
            bi = t['target']
        elif t['k'] == 'assert':
            if until_assert is not None and bi == until_assert:
                try:
                    return ('cond', bi, env, rd(t['cond']))
                except KeyError:
                    return ('cond', bi, env, None)
            try:
                c = rd(t['cond'])
            except KeyError:
                if assume_asserts:
                    bi = t['target']
                    continue
                return ('stuck', bi, env)
            if bool(c) == bool(t['expected']):
                bi = t['target']
            else:
                return ('panic', bi, env)
        elif t['k'] == 'call' and skip_calls and t['target'] >= 0:
            modelled = False
            callee = (t['resolved'] or [t['callee']])[0]
            if call_hook is not None and not t['dest']['p']:
                try:
                    hv_ = call_hook(t, env, rd)
                except (KeyError, TypeError):
                    hv_ = None
                if hv_ is not None:
                    env[t['dest']['l']] = hv_
                    refs.pop(t['dest']['l'], None)
                    bi = t['target']
                    continue
            for rx, fnm in CALL_MODELS:
                if re.search(rx, callee) and not t['dest']['p']:
                    try:
                        vals = []
                        for a in t['args']:
                            if a['k'] == 'const':
                                vals.append(rd(a))
                            elif not a['place']['p'] and a['place']['l'] in refs:
                                vals.append(env[refs[a['place']['l']]])
                            elif not a['place']['p'] and a['place']['l'] in prefs:
                                vals.append(rd_place(prefs[a['place']['l']]))
                            else:
                                vals.append(rd_place(a['place']))
                        env[t['dest']['l']] = fnm(*vals)
                        modelled = True
                    except (KeyError, TypeError):
                        pass
                    break
            if not modelled and not t['dest']['p']:
                env.pop(t['dest']['l'], None)
                refs.pop(t['dest']['l'], None)
            bi = t['target']
        elif t['k'] == 'drop' and skip_calls:
            bi = t['target']
        else:
            if track_mem:
                return ('arm', bi, env, menv)
            return ('arm', bi, env)


# --------------------------------------------------------------------------
# P7: field read/write sets
def _chain(place):
    ch = []
    for pr in place['p']:
        if isinstance(pr, dict) and 'f' in pr:
            ch.append((pr['adt'], pr['f']))
        elif isinstance(pr, dict) and 'downcast' in pr:
            ch.append(('variant', pr['downcast']))
    return tuple(ch)


def field_accesses(f):
    """Yield (kind, chain, block, base_local, base_ty, has_deref) for every place mentioned in non-cleanup code of f.
    kind: 'r' read, 'w' write, 'rw' mutable borrow, 'b' shared borrow."""
    def base(pl):
        return pl['l'], f.locals[pl['l']]['ty'], ('deref' in pl['p'])

    def op(o, bi):
        if o['k'] in ('copy', 'move'):
            l, ty, dr = base(o['place'])
            yield ('r', _chain(o['place']), bi, l, ty, dr)
    for bi, b in enumerate(f.blocks):
        if b['cleanup']:
            continue
        for s in b['stmts']:
            l, ty, dr = base(s['lhs'])
            yield ('w', _chain(s['lhs']), bi, l, ty, dr)
            rv = s['rv']
            k = rv['k']
            if k in ('use', 'un', 'cast', 'repeat'):
                yield from op(rv['a'], bi)
            elif k == 'bin':
                yield from op(rv['a'], bi)
                yield from op(rv['b'], bi)
            elif k == 'agg':
                for o in rv['ops']:
                    yield from op(o, bi)
            elif k in ('ref', 'rawptr'):
                l, ty, dr = base(rv['place'])
                yield ('rw' if rv.get('mut') else 'b', _chain(rv['place']), bi, l, ty, dr)
            elif k == 'discr':
                l, ty, dr = base(rv['place'])
                yield ('r', _chain(rv['place']) + (('discr', ''),), bi, l, ty, dr)
        t = b['term']
        if t['k'] == 'call':
            for a in t['args']:
                yield from op(a, bi)
            l, ty, dr = base(t['dest'])
            yield ('w', _chain(t['dest']), bi, l, ty, dr)
        elif t['k'] == 'switch':
            yield from op(t['discr'], bi)


def strip_ref(ty):
    m = re.match(r"^&'\{erased\} (mut )?(.*)$", ty)
    if m:
        return m.group(2)
    m = re.match(r"^\*(const|mut) (.*)$", ty)
    if m:
        return m.group(2)
    return None


def place_type(f, place):
    """Best-effort type of a MIR place (string) using local types and the crate's ADT table; None if unknown."""
    ty = f.locals[place['l']]['ty']
    variant = None
    for pr in place['p']:
        if ty is None:
            return None
        if pr == 'deref':
            ty = strip_ref(ty)
            if ty is None:
                m = None
                return None
        elif isinstance(pr, dict) and 'downcast' in pr:
            variant = pr['downcast']
        elif isinstance(pr, dict) and 'f' in pr:
            adt = f.facts.adts.get(pr['adt'])
            nty = None
            if adt:
                for v in adt['variants']:
                    if variant is not None and v['name'] != variant:
                        continue
                    for fl in v['fields']:
                        if fl['name'] == pr['f']:
                            nty = fl['ty']
                    if nty:
                        break
                # generic parameter substitution (A, T/#0 ...) from the instantiated container type
                mg = re.match(r'^(\w+)(/#(\d+))?$', nty or '')
                if mg and '<' in ty and (nty == 'A' or mg.group(2)):
                    inner = ty[ty.index('<') + 1:ty.rindex('>')]
                    args_, depth_, cur_ = [], 0, ''
                    for ch in inner:
                        if ch in '<([':
                            depth_ += 1
                        elif ch in '>)]':
                            depth_ -= 1
                        if ch == ',' and depth_ == 0:
                            args_.append(cur_.strip())
                            cur_ = ''
                        else:
                            cur_ += ch
                    args_.append(cur_.strip())
                    args_ = [a for a in args_ if not a.startswith("'")]
                    idx_ = int(mg.group(3)) if mg.group(3) else 0
                    if idx_ < len(args_):
                        nty = args_[idx_]
            elif pr['adt'] == 'std::option::Option' and variant == 'Some' and ty.startswith('std::option::Option<'):
                nty = ty[len('std::option::Option<'):-1]
            ty = nty
            variant = None
        else:
            return None
    return ty


def rewrite(e, fn):
    """Bottom-up structural rewrite: fn(node) -> replacement or None (keep)."""
    if not isinstance(e, tuple) or not e:
        return e
    r = fn(e)
    if r is not None:
        return r
    k = e[0]
    if k == 'phi':
        return ('phi', frozenset(rewrite(x, fn) for x in e[1]))
    if k == 'call':
        return ('call', e[1], tuple(rewrite(a, fn) for a in e[2]), e[3])
    if k == 'agg':
        return ('agg', e[1], tuple(rewrite(a, fn) for a in e[2]))
    if k in ('const', 'bytes', 'param', 'local', 'fnptr', 'uninit', 'cyc', 'modby'):
        return e
    return tuple(rewrite(x, fn) if isinstance(x, tuple) and x and isinstance(x[0], str) else x for x in e)


def palts(e, unwraps=True, casts=False):
    """Peel, expand phis, peel again (recursively): the list of base alternatives of a value."""
    out = []
    work = [e]
    seen = set()
    while work:
        x = peel(work.pop(), unwraps=unwraps, casts=casts)
        if isinstance(x, tuple) and x and x[0] == 'phi':
            work += list(x[1])
        elif x not in seen:
            seen.add(x)
            out.append(x)
    return out
