"""P15 - decision threading (on the JSON facts, after inlining).

A decision that the original code takes by control flow (each arm of a dispatch builds its reply, or logs a drop and
returns) is often *carried in a value* instead: every arm only yields `Verdict::Drop` / `Verdict::Answer(..)`, and one
place after the dispatch matches on that value.  In MIR this is a merge block followed by `switch discriminant(x)`;
seen path-insensitively the tail belongs to every arm at once.

This pass restores the per-arm shape, purely structurally:
  * a forward dataflow tracks, for locals that hold a crate-local enum, the variant they were built with
    (`x = Enum::Variant(..)` aggregates, whole moves/copies; anything else - calls, borrows - makes the local unknown);
  * where a merge block loses that knowledge (some predecessor knows the variant, the merged state does not) and a later
    `switch discriminant(x)` depends on it, everything reachable from the merge block is duplicated for each such
    predecessor (tail duplication; locals are shared, only blocks are copied);
  * every `switch discriminant(x)` whose variant is now known is replaced by a `goto` to the matching target, and blocks
    that became unreachable are emptied.
No semantics change: on each concrete run exactly the same statements execute in the same order.  The pass is bounded
(MAX_BLOCKS); a function it cannot treat is left untouched."""
import copy, re

MAX_BLOCKS = 2500
MAX_CLONED = 400      # per function: beyond that the function is left as it is
MAX_CLONED_STD = 150  # ... when only Option/Result values are involved (no crate-local decision type)
MAX_ROUNDS = 12
MAX_BETWEEN = 12      # blocks between a merge and the switch it decides, for jump threading without tail duplication
TOP = 'T'


def succs(t):
    k = t['k']
    if k == 'goto':
        return [t['target']]
    if k == 'switch':
        return [tg for _, tg in t['targets']] + [t['otherwise']]
    if k in ('call', 'drop', 'assert'):
        return [t['target']] if t.get('target') is not None and t['target'] >= 0 else []
    return []


def retarget(t, old, new):
    k = t['k']
    if k == 'goto' or k in ('call', 'drop', 'assert'):
        if t.get('target') == old:
            t['target'] = new
    elif k == 'switch':
        t['targets'] = [[v, (new if tg == old else tg)] for v, tg in t['targets']]
        if t['otherwise'] == old:
            t['otherwise'] = new


def remap_term(t, m):
    t = copy.deepcopy(t)
    k = t['k']
    if k == 'goto' or k in ('call', 'drop', 'assert'):
        if t.get('target') in m:
            t['target'] = m[t['target']]
    elif k == 'switch':
        t['targets'] = [[v, m.get(tg, tg)] for v, tg in t['targets']]
        t['otherwise'] = m.get(t['otherwise'], t['otherwise'])
    return t


STD_ENUMS = ('std::option::Option', 'std::result::Result', 'std::ops::ControlFlow')


def merge(a, b, depth=0):
    if a == b:
        return a
    if a == TOP or b == TOP or depth > 5 or a[0] != b[0]:
        return TOP
    if a[0] == 'E':
        if a[1] != b[1] or a[2] != b[2]:
            return TOP
        if a[3] is None or b[3] is None or len(a[3]) != len(b[3]):
            return ('E', a[1], a[2], None)
        return ('E', a[1], a[2], tuple(merge(x, y, depth + 1) for x, y in zip(a[3], b[3])))
    if a[0] == 'S':
        if a[1] != b[1] or len(a[2]) != len(b[2]):
            return TOP
        return ('S', a[1], tuple(merge(x, y, depth + 1) for x, y in zip(a[2], b[2])))
    return TOP


def has_enum(v, std=False):
    if v == TOP:
        return False
    if v[0] == 'E':
        return (v[1] not in STD_ENUMS or std) or any(has_enum(x, std) for x in (v[3] or ()))
    return any(has_enum(x, std) for x in v[2])


class Threader:
    def __init__(self, f, adts, std_enums=False):
        self.f = f
        self.adts = adts
        self.std_enums = std_enums
        self.blocks = f['blocks']
        self.cloned = 0
        self.cloned_std = 0
        self.folded = 0

    # ---- abstract values: TOP | ('E', adt, variant index, fields) | ('S', adt/tuple, fields)
    def enum_ok(self, adt):
        a = self.adts.get(adt)
        if a is not None:
            # crate-local enum: the discriminant value of each variant is recorded by the extractor (older fact files:
            # only enums with a data-carrying variant, whose discriminants are the variant indices)
            return a['kind'] == 'Enum' and len(a['variants']) >= 2 and (all('discr' in v for v in a['variants']) or any(v['fields'] for v in a['variants']))
        return adt in STD_ENUMS

    def discr_of(self, adt, vidx):
        a = self.adts.get(adt)
        if a is not None and vidx < len(a['variants']) and 'discr' in a['variants'][vidx]:
            return a['variants'][vidx]['discr']
        return vidx

    def vidx_of(self, adt, discr):
        a = self.adts.get(adt)
        if a is not None and all('discr' in v for v in a['variants']):
            for i, v in enumerate(a['variants']):
                if v['discr'] == discr:
                    return i
            return None
        return discr

    def abs_op(self, op, state, depth=0):
        if op['k'] in ('copy', 'move'):
            return self.abs_place(op['place'], state)
        return TOP

    def abs_place(self, pl, state):
        v = state.get(pl['l'], TOP)
        for pr in pl['p']:
            if v == TOP:
                return TOP
            if pr == 'deref':
                return TOP
            if isinstance(pr, dict) and 'downcast' in pr:
                if v[0] != 'E' or v[2] != pr['v']:
                    return TOP
                continue
            if isinstance(pr, dict) and 'f' in pr:
                fs = v[3] if v[0] == 'E' else v[2]
                if fs is None or pr['i'] >= len(fs):
                    return TOP
                v = fs[pr['i']]
                continue
            return TOP
        return v

    def abs_rv(self, rv, state):
        k = rv['k']
        if k == 'use':
            return self.abs_op(rv['a'], state)
        if k == 'agg':
            if rv.get('agg') == 'adt' and 'vidx' in rv:
                a = self.adts.get(rv.get('adt'))
                fields = tuple(self.abs_op(o, state) for o in rv['ops'])
                if (a is not None and a['kind'] == 'Enum') or rv.get('adt') in STD_ENUMS:
                    if self.enum_ok(rv['adt']):
                        return ('E', rv['adt'], rv['vidx'], fields)
                    return TOP
                if a is not None and a['kind'] == 'Struct':
                    return ('S', rv['adt'], fields)
                return TOP
            if rv.get('agg') == 'tuple':
                return ('S', 'tuple', tuple(self.abs_op(o, state) for o in rv['ops']))
        return TOP

    def reach(self, start=0):
        seen = set()
        work = [start]
        while work:
            b = work.pop()
            if b in seen or self.blocks[b]['cleanup']:
                continue
            seen.add(b)
            work.extend(succs(self.blocks[b]['term']))
        return seen

    def preds(self, live):
        p = {b: [] for b in live}
        for b in live:
            for s in set(succs(self.blocks[b]['term'])):
                if s in p:
                    p[s].append(b)
        return p

    def escaped(self, live):
        esc = set()
        for b in live:
            for st in self.blocks[b]['stmts']:
                rv = st['rv']
                if rv['k'] == 'addr' and 'deref' not in rv['place']['p']:
                    esc.add(rv['place']['l'])
        return esc

    def xfer_stmt(self, st, state, esc):
        lhs, rv = st['lhs'], st['rv']
        l = lhs['l']
        if rv['k'] == 'ref' and rv.get('mut') and 'deref' not in rv['place']['p']:
            # a new mutable borrow: the value may be rewritten through it while it lives; a later direct access to the
            # local implies the borrow is dead, so knowledge gained after this point (a switch edge) is valid again
            state.pop(rv['place']['l'], None)
        if l in esc:
            state.pop(l, None)
            return
        if not lhs['p']:
            v = self.abs_rv(rv, state)
            if v == TOP:
                state.pop(l, None)
            else:
                state[l] = v
            return
        if 'deref' in lhs['p'] or l not in state:
            return
        # field store into a tracked aggregate: update that position
        v = self.abs_rv(rv, state)

        def upd(cur, prj):
            if cur == TOP:
                return TOP
            if not prj:
                return v
            pr = prj[0]
            if isinstance(pr, dict) and 'downcast' in pr:
                if cur[0] != 'E' or cur[2] != pr['v']:
                    return TOP
                return upd(cur, prj[1:])
            if isinstance(pr, dict) and 'f' in pr:
                if (cur[3] if cur[0] == 'E' else cur[2]) is None:
                    return cur
                fs = list(cur[3] if cur[0] == 'E' else cur[2])
                if pr['i'] >= len(fs):
                    return TOP
                fs[pr['i']] = upd(fs[pr['i']], prj[1:])
                return ('E', cur[1], cur[2], tuple(fs)) if cur[0] == 'E' else ('S', cur[1], tuple(fs))
            return TOP
        nv = upd(state[l], lhs['p'])
        if nv == TOP:
            state.pop(l, None)
        else:
            state[l] = nv

    def dataflow(self, live):
        """state: {local: abstract value}; a local that is absent is unknown (TOP)."""
        esc = self.escaped(live)
        self.esc_cur = esc
        pr = self.preds(live)
        IN = {0: {}}
        OUT = {}
        EDGE = {}
        work = [0]
        inq = {0}
        while work:
            b = work.pop()
            inq.discard(b)
            st = dict(IN[b])
            blk = self.blocks[b]
            for s in blk['stmts']:
                self.xfer_stmt(s, st, esc)
            t = blk['term']
            if t['k'] == 'call' and not t['dest']['p']:
                st.pop(t['dest']['l'], None)
            for k_ in [k_ for k_ in EDGE if k_[0] == b]:
                del EDGE[k_]
            if b in OUT and OUT[b] == st:
                continue
            OUT[b] = st
            for (s_, rl, rv_) in self.edge_refinements(b, st):
                e = dict(st)
                e[rl] = rv_
                EDGE.setdefault((b, s_), []).append(e)
            for s in set(succs(t)):
                if s not in live:
                    continue
                ps = []
                for p in pr[s]:
                    if p not in OUT:
                        continue
                    es = EDGE.get((p, s))
                    n_edges = sum(1 for x in succs(self.blocks[p]['term']) if x == s)
                    if es and len(es) == n_edges:
                        ps.extend(es)
                    else:
                        ps.append(OUT[p])
                new = {}
                for l in set().union(*[set(o) for o in ps]) if ps else ():
                    if not all(l in o for o in ps):
                        continue
                    v = ps[0][l]
                    for o in ps[1:]:
                        v = merge(v, o[l])
                    if v != TOP:
                        new[l] = v
                if IN.get(s) != new or s not in OUT:
                    IN[s] = new
                    if s not in inq:
                        work.append(s)
                        inq.add(s)
        self.esc = esc
        return IN, OUT, pr

    def n_variants(self, adt):
        if adt in STD_ENUMS:
            return 2
        a = self.adts.get(adt)
        return len(a['variants']) if a is not None and self.enum_ok(adt) else None

    def edge_refinements(self, b, st):
        """[(succ, local, abstract value)]: on the edges of `switch discriminant(x)` (x a plain local whose variant is not
        known) the variant of x is the one the edge stands for"""
        t = self.blocks[b]['term']
        if t['k'] != 'switch' or t['discr']['k'] not in ('copy', 'move') or t['discr']['place']['p']:
            return []
        d = t['discr']['place']['l']
        x = None
        for s in reversed(self.blocks[b]['stmts']):
            if not s['lhs']['p'] and s['lhs']['l'] == d:
                if s['rv']['k'] == 'discr' and not s['rv']['place']['p']:
                    x = s['rv']['place']['l']
                break
        if x is None or x in self.esc_cur or x in st:
            return []
        adt = re.sub(r'<.*$', '', self.f['locals'][x]['ty'])
        n = self.n_variants(adt)
        if n is None:
            return []
        out = []
        seen = set()
        for dv, tg in t['targets']:
            v = self.vidx_of(adt, dv)
            if v is not None and 0 <= v < n:
                out.append((tg, x, ('E', adt, v, None)))
                seen.add(v)
        rest = [v for v in range(n) if v not in seen]
        if len(rest) == 1:
            out.append((t['otherwise'], x, ('E', adt, rest[0], None)))
        return out

    def discr_switches(self, live):
        """[(block, place, stmt index)] : switch whose discriminant local is assigned `discriminant(place)` in the same block"""
        out = []
        for b in live:
            t = self.blocks[b]['term']
            if t['k'] != 'switch' or t['discr']['k'] not in ('copy', 'move') or t['discr']['place']['p']:
                continue
            d = t['discr']['place']['l']
            for i in range(len(self.blocks[b]['stmts']) - 1, -1, -1):
                st = self.blocks[b]['stmts'][i]
                if not st['lhs']['p'] and st['lhs']['l'] == d:
                    if st['rv']['k'] == 'discr' and 'deref' not in st['rv']['place']['p']:
                        out.append((b, st['rv']['place'], i))
                    break
        return out

    def state_at(self, b, i, IN):
        st = dict(IN.get(b, {}))
        for s in self.blocks[b]['stmts'][:i]:
            self.xfer_stmt(s, st, self.esc)
        return st

    def known_variant(self, b, pl, i, IN):
        v = self.abs_place(pl, self.state_at(b, i, IN))
        if v != TOP and v[0] == 'E':
            return self.discr_of(v[1], v[2])
        return None

    def significant(self, b):
        """the switch chooses between code that does something (a call on one side that the other side does not reach) -
        not a drop-elaboration test whose arms only drop or skip"""
        tgs = sorted(set(succs(self.blocks[b]['term'])))
        rs = {t: self.reach(t) for t in tgs}
        for t in tgs:
            others = set()
            for u in tgs:
                if u != t:
                    others |= rs[u]
            for x in rs[t] - others:
                if self.blocks[x]['term']['k'] == 'call' or self.blocks[x]['stmts']:
                    return True
        return False

    def fold(self):
        """-> number of significant switches folded"""
        live = self.reach()
        IN, OUT, pr = self.dataflow(live)
        n = sig = 0
        for (b, pl, i) in self.discr_switches(live):
            v = self.known_variant(b, pl, i, IN)
            if v is None:
                continue
            t = self.blocks[b]['term']
            if self.significant(b):
                sig += 1
            tg = dict((val, tgt) for val, tgt in t['targets']).get(v, t['otherwise'])
            self.blocks[b]['term'] = {'k': 'goto', 'target': tg, 'threaded': v, 'span': t.get('span')}
            n += 1
        self.folded += n
        return sig

    def one_round(self, blacklist):
        live = self.reach()
        IN, OUT, pr = self.dataflow(live)
        sw = [(b, pl, i) for (b, pl, i) in self.discr_switches(live) if self.known_variant(b, pl, i, IN) is None]
        if not sw:
            return False
        cands = []
        for m in live:
            if len(pr[m]) < 2 or m in blacklist:
                continue
            lost = []
            for p in pr[m]:
                for l, v in OUT.get(p, {}).items():
                    if has_enum(v, self.std_enums) and IN.get(m, {}).get(l, TOP) != v:
                        lost.append((p, l, has_enum(v, False)))
            if lost:
                cands.append((m, sorted(set(p for p, _, _ in lost)), any(loc for _, _, loc in lost)))
        # the merge nearest to the exit first: it duplicates the least
        cands = sorted(cands, key=lambda c: (len(self.reach(c[0])), c[0]))
        for (m, known, local_type) in cands:
            region = self.reach(m)
            if not any(b in region for (b, pl, i) in sw):
                continue
            if any(p in region for p in pr[m]):
                continue
            rest = [p for p in pr[m] if p not in known]
            if not rest:
                known = known[1:]      # the first one keeps the original copy
            if not known:
                continue

            def fits(reg):
                return not (len(self.blocks) + len(reg) * len(known) > MAX_BLOCKS or (self.cloned + len(reg) * len(known) > MAX_CLONED) or
                            (not local_type and self.cloned_std + len(reg) * len(known) > MAX_CLONED_STD))
            # two ways to duplicate: everything up to the exit (each predecessor gets its own copy of the tail: needed when the
            # tail uses values that differ per predecessor - a decision type of the crate), or only what lies between the merge
            # and the switches it decides (classic jump threading: behind them the paths share the original tail again)
            sws = [b for (b, pl, i) in sw if b in region]
            back = set(sws)
            work = list(sws)
            while work:
                x = work.pop()
                if x == m:
                    continue
                for p_ in pr.get(x, ()):
                    if p_ in region and p_ not in back:
                        back.add(p_)
                        work.append(p_)
            between = {b for b in back if b in region} | {m}
            # (a merge that is itself the switch - the shape of `?` and of a helper's Option result matched at once - needs no tail copy)
            options = [('tail', region), ('between', between)] if (local_type or len(between) > 2) else [('between', between), ('tail', region)]
            done = False
            for (kind, reg) in options:
                if (m, kind) in blacklist or not fits(reg) or (kind == 'between' and len(reg) > MAX_BETWEEN):
                    continue
                saved = copy.deepcopy(self.blocks)
                saved_counts = (self.cloned, self.folded, self.cloned_std)
                for p in known:
                    mp = {}
                    for b in sorted(reg):
                        mp[b] = len(self.blocks) + len(mp)
                    for b in sorted(reg):
                        nb = {'cleanup': False, 'stmts': copy.deepcopy(self.blocks[b]['stmts']), 'term': remap_term(self.blocks[b]['term'], mp)}
                        for k_ in self.blocks[b]:
                            if k_ not in nb:
                                nb[k_] = copy.deepcopy(self.blocks[b][k_])
                        nb['clone_of'] = self.blocks[b].get('clone_of', b)
                        self.blocks.append(nb)
                    retarget(self.blocks[p]['term'], m, mp[m])
                    self.cloned += len(reg)
                    if not local_type:
                        self.cloned_std += len(reg)
                if self.fold() == 0:
                    # nothing became decidable: undo
                    self.blocks[:] = saved
                    self.cloned, self.folded, self.cloned_std = saved_counts
                    blacklist.add((m, kind))
                    continue
                done = True
                break
            if not done:
                continue
            return True
        return False

    def run(self):
        n0 = len(self.blocks)
        saved = copy.deepcopy(self.blocks)
        rounds = 0
        try:
            self.fold()
            bl = set()
            while rounds < MAX_ROUNDS and self.one_round(bl):
                rounds += 1
        except RecursionError:
            self.blocks[:] = saved
            return False
        if not self.cloned and not self.folded:
            return False
        # empty the blocks that became unreachable
        live = self.reach()
        for b, blk in enumerate(self.blocks):
            if not blk['cleanup'] and b not in live:
                blk['stmts'] = []
                blk['term'] = {'k': 'unreachable'}
                blk['dead'] = True
        self.f['threaded'] = {'cloned_blocks': self.cloned, 'folded_switches': self.folded, 'blocks_before': n0}
        return True


def run(fns, adts, std_enums=False):
    """Thread every function in place; returns {fn id: stats}."""
    ad = {a['id']: a for a in adts}
    out = {}
    for f in fns:
        if Threader(f, ad, std_enums).run():
            out[f['id']] = f['threaded']
    return out
