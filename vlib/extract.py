"""E1 runner: extract MIR facts from /repo's *current working tree* (cached by source hash)."""
import os, sys, hashlib, subprocess, fcntl, glob, time, shutil

VERIF = os.path.dirname(os.path.dirname(os.path.abspath(__file__)))
REPO = os.environ.get('VERIF_REPO', '/repo')
WORK = os.path.join(VERIF, '.work')
DRIVER = os.path.join(VERIF, 'mirfacts', 'target', 'release', 'mirfacts')

CONFIGS = {
    # name: (cargo args, extra rustflags)
    'dev': ([], ''),
    'release': (['--release'], ''),
    'deps': ([], '-Zalways-encode-mir'),
}


def source_hash():
    h = hashlib.sha256()
    files = sorted(glob.glob(os.path.join(REPO, 'src', '**', '*.rs'), recursive=True))
    files += [os.path.join(REPO, 'Cargo.toml'), os.path.join(REPO, 'Cargo.lock')]
    for p in files:
        h.update(os.path.relpath(p, REPO).encode())
        h.update(b'\0')
        with open(p, 'rb') as fh:
            h.update(fh.read())
        h.update(b'\0')
    # the driver itself is part of the key
    try:
        with open(os.path.join(VERIF, 'mirfacts', 'src', 'main.rs'), 'rb') as fh:
            h.update(fh.read())
    except OSError:
        pass
    return h.hexdigest()[:20], len(files)


def sysroot():
    return subprocess.check_output(['rustc', '+nightly', '--print', 'sysroot'], text=True).strip()


def build_driver():
    if os.path.exists(DRIVER):
        src = os.path.join(VERIF, 'mirfacts', 'src', 'main.rs')
        if os.path.getmtime(DRIVER) >= os.path.getmtime(src):
            return
    env = dict(os.environ, CARGO_NET_OFFLINE='true')
    r = subprocess.run(['cargo', 'build', '--release', '--offline'], cwd=os.path.join(VERIF, 'mirfacts'),
                       env=env, capture_output=True, text=True)
    if r.returncode != 0:
        sys.stderr.write(r.stdout + r.stderr)
        raise SystemExit(2)


def facts_path(config='dev'):
    """Return (path, info). Extracts if the cache has no entry for the current source hash."""
    os.makedirs(os.path.join(WORK, 'facts'), exist_ok=True)
    lock = open(os.path.join(WORK, 'lock-' + config), 'w')
    fcntl.flock(lock, fcntl.LOCK_EX)
    try:
        h, nfiles = source_hash()
        out = os.path.join(WORK, 'facts', '%s-%s.json' % (config, h))
        info = {'source_hash': h, 'source_files': nfiles, 'config': config, 'cached': True}
        if os.path.exists(out) and os.path.getsize(out) > 1000:
            return out, info
        build_driver()
        t0 = time.time()
        cargs, flags = CONFIGS[config]
        tdir = os.path.join(WORK, 'target-' + config)
        prof = 'release' if '--release' in cargs else 'debug'
        for fp in glob.glob(os.path.join(tdir, prof, '.fingerprint', 'masscanned-*')):
            shutil.rmtree(fp, ignore_errors=True)
        tmp = out + '.tmp'
        if os.path.exists(tmp):
            os.remove(tmp)
        env = dict(os.environ)
        env.update({
            'LD_LIBRARY_PATH': os.path.join(sysroot(), 'lib'),
            'RUSTFLAGS': ('-Zmir-opt-level=0 -Awarnings ' + flags).strip(),
            'RUSTC_WORKSPACE_WRAPPER': DRIVER,
            'CARGO_TARGET_DIR': tdir,
            'CARGO_NET_OFFLINE': 'true',
            'DRV_OUT': tmp,
        })
        env.pop('RUSTC_WRAPPER', None)
        r = subprocess.run(['cargo', '+nightly', 'check', '--offline', '--bin', 'masscanned'] + cargs,
                           cwd=REPO, env=env, capture_output=True, text=True)
        if r.returncode != 0 or not os.path.exists(tmp):
            sys.stderr.write('EXTRACTION FAILED (config %s)\n' % config)
            sys.stderr.write(r.stdout[-3000:] + r.stderr[-6000:])
            raise SystemExit(2)
        os.replace(tmp, out)
        info['cached'] = False
        info['extract_s'] = round(time.time() - t0, 2)
        # prune old fact files of this config (keep the 6 newest)
        olds = sorted(glob.glob(os.path.join(WORK, 'facts', config + '-*.json')), key=os.path.getmtime)
        for p in olds[:-6]:
            try:
                os.remove(p)
            except OSError:
                pass
        return out, info
    finally:
        fcntl.flock(lock, fcntl.LOCK_UN)
        lock.close()


if __name__ == '__main__':
    for c in sys.argv[1:] or ['dev']:
        print(facts_path(c))
