"""Bit-provenance abstract domain over provenance expressions.

A value is a list of bits (LSB first).  Each bit is 0, 1, an input bit ('in', source_key, bit_index) or TOP (None).
The transfer functions are exact for the operations that merely move bits around - constants, masks with constants,
or-ing with constants / zero bits, shifts by constants, integer casts, byte (de)composition (octets(), to_be_bytes,
to_le_bytes, from_be_bytes, u32::from(Ipv4Addr), indexing of byte arrays with constant indices) - and give TOP for
everything else (arithmetic with carries, merges, loop-carried values).  A rule that compares the computed bit vector
with the expected one is therefore a sound decision for *every* input value: if all output bits are constants or
named input bits, the function is that bit shuffle."""
import re
from .core import *

TOP = None
INT_BITS = {'u8': 8, 'i8': 8, 'u16': 16, 'i16': 16, 'u32': 32, 'i32': 32, 'u64': 64, 'i64': 64, 'u128': 128, 'i128': 128,
            'usize': 64, 'isize': 64, 'bool': 1}


def const_bits(v, w):
    return [(v >> i) & 1 for i in range(w)]


def tops(w):
    return [TOP] * w


def inputs(key, w):
    return [('in', key, i) for i in range(w)]


def _and(a, b):
    if a == 0 or b == 0:
        return 0
    if a == 1:
        return b
    if b == 1:
        return a
    if a is not TOP and a == b:
        return a
    return TOP


def _or(a, b):
    if a == 1 or b == 1:
        return 1
    if a == 0:
        return b
    if b == 0:
        return a
    if a is not TOP and a == b:
        return a
    return TOP


def _xor(a, b):
    if a == 0:
        return b
    if b == 0:
        return a
    if a in (0, 1) and b in (0, 1):
        return a ^ b
    if a is not TOP and a == b:
        return 0
    return TOP


def _fit(bits, w):
    """zero-extend / truncate to w bits (unsigned semantics)"""
    if len(bits) >= w:
        return bits[:w]
    return bits + [0] * (w - len(bits))


class BitEval:
    """bits(e) -> list of bits or None (unknown width).  `source(e)` may map a sub-expression to a named input:
       return (key, width) to treat it as an opaque input of that width."""

    def __init__(self, source=None):
        self.source = source or (lambda e: None)

    def width_of_ty(self, ty):
        return INT_BITS.get(ty)

    def bytes_of(self, e):
        """A byte-array valued expression -> list of byte bit-vectors (index order), or None."""
        e0 = peel(e, unwraps=False)
        if isinstance(e0, tuple) and e0[0] == 'bytes':
            return [const_bits(b, 8) for b in bytes.fromhex(e0[1])]
        if isinstance(e0, tuple) and e0[0] == 'agg' and e0[1] == 'array':
            out = []
            for x in e0[2]:
                b = self.bits(x)
                out.append(_fit(b, 8) if b is not None else tops(8))
            return out
        if isinstance(e0, tuple) and e0[0] == 'repeat':
            return None
        if isinstance(e0, tuple) and e0[0] == 'call' and re.search(r'Index<I>>::index$|Index::index$', e0[1]) and len(e0[2]) == 2:
            base = self.bytes_of(e0[2][0])
            rg = peel(e0[2][1], unwraps=False)
            if base is not None and isinstance(rg, tuple) and rg[0] == 'agg':
                nm = str(rg[1])
                cs = [const_val(x) for x in rg[2]]
                if 'RangeFull' in nm:
                    return base
                if nm.endswith('ops::Range::Range') and len(cs) == 2 and None not in cs and 0 <= cs[0] <= cs[1] <= len(base):
                    return base[cs[0]:cs[1]]
                if 'RangeFrom' in nm and len(cs) == 1 and cs[0] is not None and cs[0] <= len(base):
                    return base[cs[0]:]
                if 'RangeTo' in nm and 'Inclusive' not in nm and len(cs) == 1 and cs[0] is not None and cs[0] <= len(base):
                    return base[:cs[0]]
            return None
        if isinstance(e0, tuple) and e0[0] == 'call' and re.search(r'to_vec$|as_slice$|Deref::deref$|as_ref$', e0[1]) and e0[2]:
            return self.bytes_of(e0[2][0])
        if isinstance(e0, tuple) and e0[0] == 'call':
            name = e0[1]
            m = re.search(r'core::num::<impl (u8|u16|u32|u64|u128|usize)>::to_(be|le|ne)_bytes$', name)
            if m:
                w = INT_BITS[m.group(1)]
                v = self.bits(e0[2][0])
                v = _fit(v, w) if v is not None else tops(w)
                by = [v[i * 8:(i + 1) * 8] for i in range(w // 8)]     # little-endian order
                return by if m.group(2) in ('le', 'ne') else list(reversed(by))
            m = re.search(r'Ipv([46])Addr::octets$', name)
            if m:
                n = 4 if m.group(1) == '4' else 16
                src = self.source(('octets', peel(e0[2][0], unwraps=False)))
                key = src[0] if src else ('octets', peel(e0[2][0], unwraps=False))
                # octets()[0] is the most significant byte: input bit index counts from the LSB of the whole address
                return [[('in', key, (n - 1 - i) * 8 + b) for b in range(8)] for i in range(n)]
        return None

    def bits(self, e):
        s = self.source(e)
        if isinstance(s, list):
            return list(s)
        if s:
            return inputs(s[0], s[1])
        if not isinstance(e, tuple):
            return None
        k = e[0]
        if k in ('ref', 'deref'):
            return self.bits(e[1])
        if k == 'const':
            w = self.width_of_ty(e[3]) if len(e) > 3 else None
            if isinstance(e[1], bool):
                return [int(e[1])]
            if isinstance(e[1], int):
                return const_bits(e[1], w or 128) if w else const_bits(e[1], max(8, e[1].bit_length()))
            return None
        if k == 'cast':
            w = self.width_of_ty(e[3])
            v = self.bits(e[2])
            if w is None:
                return None
            if v is None:
                return tops(w)
            srcty = e[4] if len(e) > 4 else None
            if srcty and srcty.startswith('i') and len(v) < w:
                return v + [v[-1] if v[-1] in (0,) else TOP] * (w - len(v))
            return _fit(v, w)
        if k == 'bin':
            op = e[1]
            a = self.bits(e[2])
            if op in ('Shl', 'Shr', 'ShlUnchecked', 'ShrUnchecked'):
                n = const_val(e[3])
                if a is None:
                    return None
                if n is None:
                    return tops(len(a))
                w = len(a)
                if n >= w:
                    return tops(w)
                if op.startswith('Shl'):
                    return ([0] * n + a)[:w]
                return a[n:] + [0] * n
            b = self.bits(e[3])
            if a is None and b is None:
                return None
            if a is None:
                a = tops(len(b))
            if b is None:
                b = tops(len(a))
            w = max(len(a), len(b))
            a, b = _fit(a, w), _fit(b, w)
            if op == 'BitAnd':
                return [_and(x, y) for x, y in zip(a, b)]
            if op == 'BitOr':
                return [_or(x, y) for x, y in zip(a, b)]
            if op == 'BitXor':
                return [_xor(x, y) for x, y in zip(a, b)]
            if op in ('Eq', 'Ne'):
                # a comparison that tests exactly one unknown bit: (w & m) == m with m a single bit, x == 0 with one
                # unknown bit, ... -> that bit (negated as needed); with no unknown bit a constant; else unknown
                unk = [i for i, (x, y) in enumerate(zip(a, b)) if not (x in (0, 1) and y in (0, 1))]
                if any(x is TOP or y is TOP for x, y in zip(a, b)):
                    return [TOP]
                if any(a[i] != b[i] for i in range(w) if i not in unk):
                    return [0 if op == 'Eq' else 1]
                if not unk:
                    return [1 if op == 'Eq' else 0]
                if len(unk) == 1:
                    i = unk[0]
                    x, y = a[i], b[i]
                    inp, cst = (x, y) if y in (0, 1) else (y, x)
                    if cst in (0, 1) and isinstance(inp, tuple):
                        pos = (cst == 1) == (op == 'Eq')
                        return [inp if pos else ('not', inp)]
                return [TOP]
            if op in ('Mul', 'MulUnchecked', 'MulWithOverflow'):
                # multiplication by a constant power of two is a left shift (modulo the width)
                for x_, y_ in ((a, e[3]), (b, e[2])):
                    c_ = const_val(y_)
                    if c_ is not None and c_ > 0 and c_ & (c_ - 1) == 0:
                        n = c_.bit_length() - 1
                        return ([0] * n + x_)[:w]
            if op in ('Ge', 'Lt', 'Gt', 'Le'):
                # unsigned ordering against the middle of the range tests the top bit: x >= 2^(w-1), x > 2^(w-1)-1 (and negations)
                ca, cb = const_val(e[2]), const_val(e[3])
                x_, c_, o_ = (a, cb, op) if cb is not None and ca is None else ((b, ca, {'Ge': 'Le', 'Le': 'Ge', 'Gt': 'Lt', 'Lt': 'Gt'}[op]) if ca is not None and cb is None else (None, None, None))
                if x_ is not None:
                    wx = len(self.bits(e[2] if x_ is a else e[3]) or [])
                    top = x_[wx - 1] if wx else TOP
                    if wx and isinstance(top, tuple) and not any(t_ is TOP for t_ in x_[:wx]):
                        if (o_, c_) in (('Ge', 1 << (wx - 1)), ('Gt', (1 << (wx - 1)) - 1)):
                            return [top]
                        if (o_, c_) in (('Lt', 1 << (wx - 1)), ('Le', (1 << (wx - 1)) - 1)):
                            return [('not', top)]
                return [TOP]
            if op in ('Div', 'Rem'):
                # unsigned division / remainder by a constant power of two: a right shift / a mask
                c_ = const_val(e[3])
                if c_ is not None and c_ > 0 and c_ & (c_ - 1) == 0:
                    n = c_.bit_length() - 1
                    if op == 'Div':
                        return (a[n:] + [0] * n)[:w]
                    return a[:n] + [0] * (w - n)
            if op in ('Add', 'AddUnchecked', 'AddWithOverflow') and all(x == 0 or y == 0 for x, y in zip(a, b)):
                # the operands occupy disjoint bit positions: no carry can arise, the sum is their union
                return [_or(x, y) for x, y in zip(a, b)]
            if all(x in (0, 1) for x in a + b):
                cv = const_val(e)
                if cv is not None:
                    return const_bits(cv, w)
            return tops(w)
        if k == 'un' and e[1] == 'Not':
            a = self.bits(e[2])
            if a is None:
                return None
            return [(1 - x) if x in (0, 1) else TOP for x in a]
        if k == 'index':
            idx = const_val(e[2])
            by = self.bytes_of(e[1])
            if by is not None and idx is not None and 0 <= idx < len(by):
                return by[idx]
            return tops(8) if by is not None else None
        if k == 'field' and e[2] == '0' and isinstance(e[1], tuple) and e[1][0] == 'bin' and e[1][1].endswith('WithOverflow'):
            return self.bits(('bin', e[1][1].replace('WithOverflow', ''), e[1][2], e[1][3]))
        if k == 'call':
            name = e[1]
            if name in TRANSPARENT or name in UNWRAPS:
                return self.bits(e[2][0])
            if re.search(r'(Result|Option)::<[^>]*>::(unwrap|expect)$|convert::TryInto::try_into$|convert::TryFrom::try_from$|convert::Into::into$', name) and e[2]:
                # value-preserving when it returns at all (failure is a panic, C01's concern)
                return self.bits(e[2][0])
            m = re.search(r'core::num::<impl (u8|u16|u32|u64|u128|usize)>::from_(be|le)_bytes$', name)
            if m:
                by = self.bytes_of(e[2][0])
                w = INT_BITS[m.group(1)]
                if by is None or len(by) * 8 != w:
                    return tops(w)
                if m.group(2) == 'be':
                    by = list(reversed(by))
                out = []
                for b_ in by:
                    out += b_
                return out
            m = re.search(r'core::num::<impl (u8|u16|u32|u64|u128|usize)>::(wrapping_mul|wrapping_shl|wrapping_shr|unchecked_shl|unchecked_shr)$', name)
            if m and len(e[2]) == 2:
                w = INT_BITS[m.group(1)]
                v = self.bits(e[2][0])
                v = _fit(v, w) if v is not None else tops(w)
                c_ = const_val(e[2][1])
                if c_ is None:
                    return tops(w)
                if m.group(2) == 'wrapping_mul':
                    if c_ > 0 and c_ & (c_ - 1) == 0:
                        n = c_.bit_length() - 1
                        return ([0] * n + v)[:w]
                    return tops(w)
                n = c_ % w
                return ([0] * n + v)[:w] if m.group(2).endswith('shl') else v[n:] + [0] * n
            m = re.search(r'core::num::<impl (u8|u16|u32|u64|u128|usize)>::(swap_bytes|to_be|to_le|from_be|from_le)$', name)
            if m:
                w = INT_BITS[m.group(1)]
                v = self.bits(e[2][0])
                v = _fit(v, w) if v is not None else tops(w)
                if m.group(2) in ('to_le', 'from_le'):
                    return v
                by = [v[i * 8:(i + 1) * 8] for i in range(w // 8)]
                out = []
                for b_ in reversed(by):
                    out += b_
                return out
            # u32::from(Ipv4Addr) / u128::from(Ipv6Addr) / Into
            m = re.search(r'<(u32|u128) as std::convert::From<std::net::Ipv([46])Addr>>::from$', name)
            if m:
                w = INT_BITS[m.group(1)]
                src = self.source(('octets', peel(e[2][0], unwraps=False)))
                key = src[0] if src else ('octets', peel(e[2][0], unwraps=False))
                return inputs(key, w)
            m = re.search(r'<(u16|u32|u64|u128|usize) as std::convert::From<(u8|u16|u32|u64|bool)>>::from$', name)
            if m:
                v = self.bits(e[2][0])
                w = INT_BITS[m.group(1)]
                return _fit(v, w) if v is not None else tops(w)
            return None
        return None


def describe(bits):
    """compact rendering: MSB first"""
    if bits is None:
        return '?'
    out = []
    for b in reversed(bits):
        if b in (0, 1):
            out.append(str(b))
        elif b is TOP:
            out.append('T')
        else:
            out.append('i%d' % b[2])
    return ' '.join(out)
