"""C08 — flows do not interfere: a reply depends only on the frame and its own flow."""
from rules.common import *

CLOCK_USERS = {
    'logger::console::ConsoleLogger::prolog', 'logger::logfmt::LogfmtLogger::prolog',
    'proto::http::repl',
    '<proto::smb::SMB1NegotiateRequest as proto::dissector::MPacket>::repl',
    '<proto::smb::SMB2NegotiateRequest as proto::dissector::MPacket>::repl',
}
TCB = 'proto::tcb::TCPControlBlock'


def run(ctx):
    F = ctx.facts()
    rep = ctx.rep
    rep.not_decided += ['collisions of the 32-bit cookie that keys the connection table (two flows sharing one entry)',
                        'non-interference is argued structurally (no shared mutable state other than the keyed table), not by comparing executions']
    cone = F.cone(['reply'])
    rep.saw(*cone)

    # R1 state inventory
    r1 = rep.rule('C08-R1', 'mutable global state: the only statics are the three lazy cells and the CHARS table; every lazy payload except the connection table, and the Masscanned configuration, are deeply free of interior mutability; no static mut / thread-local', floor=6)
    expect = {'proto::http::HTTP_SMACK', 'proto::tcb::CONTABLE', 'proto::PROTO_SMACK', 'utils::display::CHARS'}
    top = {s['id'] for s in F.statics if '::__stability::LAZY' not in s['id']}
    rep.check(r1, top == expect, 'static-inventory', 'statics in the crate: %s' % sorted(top))
    for s in F.statics:
        key = 'static:' + s['id']
        if s['mut']:
            rep.bad(r1, key, 'static mut')
            continue
        if '::__stability::LAZY' in s['id']:
            is_table = 'CONTABLE' in s['id']
            if is_table:
                rep.check(r1, 'std::sync::Mutex<std::collections::HashMap<u32, ' + TCB in s['payload'], key,
                          'the one mutable cell: %s' % s['payload'][:90])
            else:
                rep.check(r1, not s['payload_cells'], key, 'lazy payload %s; interior-mutable parts: %s' % (s['payload'], s['payload_cells'][:2]))
        else:
            rep.check(r1, not s['cells'], key, 'type %s; interior-mutable parts: %s' % (s['ty'][:60], s['cells'][:2]))
    for adt in ['Masscanned', 'smack::smack::Smack', 'client::client_info::ClientInfo']:
        a = F.adts.get(adt)
        if a is None:
            raise AnalysisError('ADT %s missing' % adt)
        rep.check(r1, not a['cells'], 'adt:' + adt, 'deep walk (through Vec/Box/Option/&/dyn Logger impls) finds interior mutability: %s' % a['cells'][:2])
    # Masscanned is handed down by shared reference only
    for fid in sorted(cone):
        f = F.fn(fid)
        for i in range(1, f.argc + 1):
            ty = f.locals[i]['ty']
            if re.match(r"^(&'\{erased\} mut )?Masscanned<", ty):
                rep.bad(r1, fid + ':masscanned-param', 'configuration passed as %s (not a shared reference)' % ty, '%s:%d' % (f.file, f.line))

    # R2 ownership + key provenance
    r2 = rep.rule('C08-R2', 'connection-table entries are reached only through keys computed as generate(client_info, key) from the ClientInfo created fresh for this frame in reply()', floor=4)
    # ... and that key is a hash of the whole 4-tuple: every endpoint field is fed to the hash, whole and by itself,
    # on every path (two flows can then share state only through a hash collision, never by construction)
    from rules.c06 import cookie_inputs
    for ok_, key_, det_, loc_ in cookie_inputs(F):
        if key_.startswith('generate:feeds:') or key_.startswith('generate:write:') or key_ == 'generate:families-distinct':
            rep.check(r2, ok_, 'key:' + key_, det_, loc_)
    tcp = F.fn('layer_4::tcp::repl')
    callers = set()
    for tf in TABLE_FNS:
        for (c, bi) in F.callers(tf):
            f = F.fn(c)
            key_e = f.argv(bi, 0)
            if c in TABLE_FNS and peel(key_e) == ('param', 1):
                # one table function implemented on top of another, handing its own key parameter on: the key is decided at
                # that function's call sites, which are checked in their turn
                rep.ok(r2, '%s->%s' % (c, tf.split('::')[-1]), 'key = the caller\'s own key parameter', f.loc(bi))
                continue
            callers.add(c)
            als = palts(key_e)
            oks = []
            for a in als:
                if is_call(a, r'^synackcookie::generate$'):
                    g = a
                elif isinstance(a, tuple) and a[0] == 'entry':
                    # value of client_info.cookie at function entry: no other writer exists (C03-R2) => None => unwrap diverges
                    oks.append(Fn.path_of(a[1])[-1:] == [('f', 'cookie')])
                    continue
                elif isinstance(a, tuple) and a[0] == 'modby':
                    oks.append(False)
                    continue
                else:
                    oks.append(False)
                    continue
                ci = peel(g[2][0])
                ky = peel(g[2][1])
                oks.append(ci == ('param', 3) and Fn.path_of(ky)[-1:] == [('f', 'synack_key')] and
                           Fn.root_of(ky) == ('deref', ('param', 2)))
            rep.check(r2, all(oks) and any(is_call(a, r'^synackcookie::generate$') for a in als),
                      '%s->%s' % (c, tf.split('::')[-1]), 'key = %s' % short(key_e)[:200], f.loc(bi))
    rep.check(r2, callers == {'layer_4::tcp::repl'}, 'table-callers', 'functions calling the table API: %s' % sorted(callers))
    # who writes ClientInfo.cookie
    writers = set()
    for fid, f in F.fns.items():
        for (k, ch, bi, l, ty, dr) in field_accesses(f):
            if k in ('w', 'rw') and ('client::client_info::ClientInfo', 'cookie') in ch:
                writers.add(fid)
    rep.check(r2, writers <= {'layer_4::tcp::repl', 'client::client_info::ClientInfo::new'}, 'cookie-writers', 'writers of ClientInfo.cookie: %s' % sorted(writers))
    # client_info origin
    orig = param_origins(F, 'layer_4::tcp::repl', 3)
    oko = bool(orig)
    dets = []
    for (c, bi, e) in orig:
        f = F.fn(c)
        v = peel(f.through_refs(e, bi))
        dets.append('%s: %s' % (c, short(v)))
        if not (c == 'reply' and is_call(v, r'^client::client_info::ClientInfo::new$')):
            oko = False
    rep.check(r2, oko, 'client_info-origin', 'the ClientInfo reaching tcp::repl originates from: %s' % dets)

    # R3 datagram / stateless responders use call-local state
    r3 = rep.rule('C08-R3', 'udp::repl passes no control block; only proto::repl, http::repl and rpc::repl_tcp touch control-block fields, and only through their own tcb parameter', floor=4)
    udp = F.fn('layer_4::udp::repl')
    for bi, t in udp.calls(r'^proto::repl$'):
        a = peel(udp.arg(bi, 3))
        rep.check(r3, a == ('agg', 'std::option::Option::None', ()), 'udp::repl:tcb-arg', 'tcb argument = %s' % short(a), udp.loc(bi))
    touch = set()
    for fid, f in F.fns.items():
        for (k, ch, bi, l, ty, dr) in field_accesses(f):
            if any(a == TCB for a, _ in ch):
                touch.add(fid)
    allowed = {'proto::repl', 'proto::http::repl', 'proto::rpc::repl_tcp', 'proto::tcb::add_tcb'}
    rep.check(r3, touch <= allowed and {'proto::repl', 'proto::http::repl', 'proto::rpc::repl_tcp'} <= touch, 'tcb-field-users',
              'functions accessing TCPControlBlock fields: %s' % sorted(touch))
    for fid in sorted(touch - {'proto::tcb::add_tcb'}):
        f = F.fn(fid)
        roots = set()
        for bi, b in enumerate(f.blocks):
            if b['cleanup']:
                continue
            for si, s in enumerate(b['stmts']):
                places = [s['lhs']]
                rv = s['rv']
                if 'place' in rv:
                    places.append(rv['place'])
                for o in ([rv.get('a'), rv.get('b')] + rv.get('ops', [])):
                    if o and o.get('k') in ('copy', 'move'):
                        places.append(o['place'])
                for pl in places:
                    if any(isinstance(p, dict) and p.get('adt') == TCB for p in pl['p']):
                        lv = f.lv(pl, (bi, si))
                        for a in alts(lv):
                            r = Fn.root_of(a)
                            while isinstance(r, tuple) and r[0] in ('deref', 'entry', 'field', 'variant'):
                                r = r[1]
                            roots.add(r)
        tcb_param = [i for i in range(1, f.argc + 1) if TCB in f.locals[i]['ty']]
        ok = bool(tcb_param) and roots <= {('local', i) for i in tcb_param} | {('param', i) for i in tcb_param}
        rep.check(r3, ok, fid + ':tcb-root', 'control-block fields are reached from %s (tcb parameter: %s)' % (sorted(map(short, roots)), tcb_param), '%s:%d' % (f.file, f.line))
    # the control block handed to the callback is the table entry of this key
    g = F.fn('proto::tcb::get_tcb')
    gm = g.calls(r'HashMap::<[^>]*>::get_mut$')
    ok = len(gm) == 1 and peel(g.argv(gm[0][0], 1)) == ('param', 1)
    rep.check(r3, ok, 'get_tcb:lookup-key', 'get_mut key = %s' % (short(g.argv(gm[0][0], 1)) if gm else None), g.loc(gm[0][0]) if gm else '')

    # R4 clock whitelist
    r4 = rep.rule('C08-R4', 'the wall clock is read only in the logger prologs, the HTTP Date header and the SMB server-time fields, and never decides a branch', floor=5)
    users = set()
    for fid, f in F.fns.items():
        cs = f.calls(CLOCKS)
        if not cs:
            continue
        users.add(fid)
        in_cone = fid in cone
        okc = fid in CLOCK_USERS or not in_cone
        bad = []
        for bi in range(f.n):
            se = f.switch_edges(bi)
            if se and not f.blocks[bi]['cleanup'] and calls_in(se[0], CLOCKS):
                bad.append(short(se[0])[:120])
        rep.check(r4, okc and not bad, fid, 'clock read here (reachable from reply: %s); branch conditions depending on it: %s' % (in_cone, bad), f.loc(cs[0][0]))
    rep.check(r4, users & cone == CLOCK_USERS, 'clock-users', 'clock readers reachable from reply(): %s' % sorted(users & cone))

    # R5 no hidden nondeterminism
    r5 = rep.rule('C08-R5', 'no other source of history- or environment-dependence is reachable from reply(): no RNG, environment, file, thread, socket or process call; hash-set iteration only where the result is order-independent', floor=2)
    ext = F.ext_calls(cone)
    bad = sorted(c for c in ext if re.search(NONDET, re.sub(r'^<', '', c)))
    rep.check(r5, not bad, 'nondeterminism-sources', 'external callees matching the ban list: %s' % bad)
    it = []
    for c, sites in ext.items():
        if re.search(r'collections::(HashSet|HashMap|hash_set|hash_map).*(IntoIterator|::iter|::keys|::values|::drain|Iterator)', c):
            for (fid, bi) in sites:
                it.append(fid)
    rep.check(r5, set(it) <= {'layer_2::get_authorized_eth_addr'}, 'hash-iteration', 'hash-order iteration in: %s' % sorted(set(it)))

    # R6: the discipline of the one shared table (same facts as C09; a flow's entry is created only by that flow's own
    # validated data segment, is never removed or cleared, and nothing else touches the table)
    from rules.c09 import table_discipline
    table_discipline(ctx, 'C08')
