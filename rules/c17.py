"""C17 — SMB1/SMB2: negotiate / session-setup replies framed, correlated, consistent."""
from rules.common import *
from vlib.layout import *

P = 'proto::smb::'


def repl_fn(ty):
    return '<%s%s as proto::dissector::MPacket>::repl' % (P, ty)


def parse_fn(ty):
    return '<%s%s as proto::dissector::MPacket>::parse' % (P, ty)


def new_fn(ty):
    return '<%s%s as proto::dissector::MPacket>::new' % (P, ty)


def le_value(it):
    """the scalar x an item encodes in little-endian order: extend_from_slice(&x.to_le_bytes()), and for one-byte
    items also push(x), a one-element array or a one-byte constant"""
    if it is None:
        return None
    v = peel(it['value'], unwraps=False)
    while is_call(v, r'to_vec$|as_slice$|Deref::deref$') or (is_call(v, r'Index<I>>::index$|Index::index$') and 'RangeFull' in short(v[2][1])):
        v = peel(v[2][0], unwraps=False)
    if is_call(v, r'to_le_bytes$'):
        return v[2][0]
    if it.get('width') == 1:
        if it['op'] == 'push':
            return it['value']
        if isinstance(v, tuple) and v[0] == 'agg' and v[1] == 'array' and len(v[2]) == 1:
            return v[2][0]
        if isinstance(v, tuple) and v[0] == 'bytes' and len(v[1]) == 2:
            return ('const', int(v[1], 16), None, 'u8')
    if isinstance(v, tuple) and v[0] == 'bytes' and it.get('width') in (2, 4, 8) and len(v[1]) == 2 * it['width']:
        return ('const', int.from_bytes(bytes.fromhex(v[1]), 'little'), None, 'u%d' % (8 * it['width']))
    return None


def self_field(e):
    e = peel(e, casts=True)
    if isinstance(e, tuple) and e[0] == 'entry':
        p = Fn.path_of(e[1])
        if Fn.root_of(e[1]) == ('deref', ('param', 1)) and len(p) == 1 and p[0][0] == 'f':
            return p[0][1]
    return None


def run(ctx):
    F = ctx.facts()
    rep = ctx.rep
    rep.not_decided += ['dialect-list parsing for every layout (the dialect strings / codes are accumulated by the byte FSM; only its field order and widths are decided)',
                        'contents of the two security blobs (constants)']
    r1 = rep.rule('C17-R1', 'correlation fields are echoed at the offset they were read from: reader layout (per-state arms of parse()) and writer layout (append sequence of repl()) agree, the SMB magic and the reply flag sit at their protocol offsets', floor=12)
    r2 = rep.rule('C17-R2', 'embedded lengths and offsets describe the bytes actually appended: blob length fields = len() of the very constant appended, buffer offsets = header size + bytes appended before the blob, ByteCount = bytes following it, WordCount = parameter words present, NetBIOS length = len(payload)', floor=12)
    r3 = rep.rule('C17-R3', 'dispatch and dialect: only commands {0x72,0x73} / {0,1} get a payload dissector; a reply needs a completely parsed request; SMB2 without a supported offered dialect is not answered; the SMB1 dialect index is a position in the client\'s own list', floor=8)

    for ver, magic, echoes, flag_off, flag_w, flag_bit, cmd_w in [
        ('SMB1', b'\xffSMB', ['command', 'pid_high', 'tid', 'pid_low', 'uid', 'mid'], 9, 1, 0x80, 1),
        ('SMB2', b'\xfeSMB', ['command', 'message_id', 'async_id', 'session_id'], 16, 4, 0x01, 2),
    ]:
        hdr = ver + 'Header'
        seq, info = dissector_layout(F, parse_fn(hdr), new_fn(hdr))
        rf = F.fn(repl_fn(hdr))
        rep.saw(rf, parse_fn(hdr))
        roff = {}
        off = 0
        for (st, fld, w, en) in seq:
            if fld:
                roff[fld] = (off, w, en)
            if not isinstance(w, int):
                break
            off += w
        hdr_len = off
        items = vec_layout(rf, must_targets=some_points(rf))
        # byte-level writer layout of the header (everything before the payload), independent of the spelling
        pay_i = [k for k, it in enumerate(items) if calls_in(it['value'], r'Payload::repl$') != []]
        hitems = items[:pay_i[0]] if pay_i else items
        bl = byte_layout(rf, hitems)
        wb = [x[0] for x in bl]
        sized = all(x[0][0] != 'blob' for x in bl)
        for fld in echoes:
            ok = sized and fld in roff and isinstance(roff[fld][1], int)
            got = None
            if ok:
                o, w, en = roff[fld]
                got = wb[o:o + w]
                ok = got == [('field', fld, k) for k in range(w)] and (en == 'le' or w == 1)
            rep.check(r1, ok, '%s:echo:%s' % (ver, fld), 'read at %s (little-endian), reply bytes there: %s' % (roff.get(fld), got), '%s:%d' % (rf.file, rf.line))
        # magic, flags, total header length, payload last, everything on every reply path
        okm = sized and wb[:4] == [('const', b) for b in magic]
        rep.check(r1, okm, ver + ':magic', 'first bytes %s' % (wb[:4],), hitems[0]['loc'] if hitems else '')
        fb = wb[flag_off:flag_off + flag_w] if sized else []
        okf = len(fb) == flag_w and all(b[0] == 'const' for b in fb)
        fv = sum(b[1] << (8 * k) for k, b in enumerate(fb)) if okf else None
        okf = okf and (fv & flag_bit) == flag_bit
        rep.check(r1, okf, ver + ':reply-flag', 'flags at offset %d = %s (reply bit %#x)' % (flag_off, hex(fv) if fv is not None else None, flag_bit), '%s:%d' % (rf.file, rf.line))
        # the gate in get_payload tests the flags field read at that same offset
        rep.check(r1, roff.get('flags', (None,))[0] == flag_off, ver + ':flags-read-offset', 'request flags are read at offset %s' % (roff.get('flags'),))
        last = items[-1] if items else None
        okp = last is not None and sized and len(wb) == hdr_len and bool(pay_i) and pay_i[0] == len(items) - 1
        rep.check(r1, okp, ver + ':header-length', 'payload appended after %s header bytes, request header is %d bytes' % (len(wb) if sized else None, hdr_len), last['loc'] if last else '')
        rep.check(r1, all(it['must'] and not it['in_loop'] for it in items), ver + ':straight-line', 'all %d appends run exactly once on every reply path' % len(items))
        # R3: command dispatch in get_payload
        gp = F.fn('%s%sHeader::get_payload' % (P, ver))
        want = {0x72, 0x73} if ver == 'SMB1' else {0, 1}
        found = None
        for bi in range(gp.n):
            se = gp.switch_edges(bi)
            if se and not gp.blocks[bi]['cleanup'] and self_field(se[0]) == 'command':
                found = set(se[2])
        rep.check(r3, found == want, ver + ':commands', 'commands with a dissector: %s (required %s)' % (sorted(found) if found else None, sorted(want)), '%s:%d' % (gp.file, gp.line))

    # NetBIOS
    nb = F.fn('<proto::smb::NBTSession<T> as proto::dissector::MPacket>::repl')
    rep.saw(nb)
    items = vec_layout(nb, must_targets=some_points(nb))
    pay_i = [k for k, it in enumerate(items) if calls_in(it['value'], r'::repl$') != [] and not calls_in(it['value'], r'len$')]
    ok = len(pay_i) == 1 and pay_i[0] == len(items) - 1
    det = 'items %s' % [(it['op'], it['width']) for it in items]
    if ok:
        pay = peel(items[-1]['value'], unwraps=False)

        def src(e):
            if is_call(e, r'Vec::<[^>]*>::len$|\[T\]>::len$') and peel(e[2][0], unwraps=False) == pay:
                return ('len', 64)
            return None
        bl = byte_layout(nb, items[:-1], source=src)
        bits = [x[2] for x in bl]
        L = lambda k: ('in', 'len', k)
        want = [[0] * 8, [L(16)] + [0] * 7, [L(k) for k in range(8, 16)], [L(k) for k in range(0, 8)]]
        ok = bits == want
        det = 'type 0, then len(payload) & 0x1ffff as 24-bit big-endian, bit-exact: %s' % ok
    rep.check(r2, ok, 'netbios:length', det, items[0]['loc'] if items else '')
    seq, _ = dissector_layout(F, '<proto::smb::NBTSession<T> as proto::dissector::MPacket>::parse', '<proto::smb::NBTSession<T> as proto::dissector::MPacket>::new')
    rep.check(r2, [(s[0], s[2]) for s in seq[:3]] == [('NBType', 1), ('Reserved', 1), ('Length', 2)], 'netbios:request-framing', 'request framing read as %s' % [(s[0], s[2]) for s in seq])

    BLOBS = {}

    def body(ty):
        f = F.fn(repl_fn(ty))
        rep.saw(f, parse_fn(ty))
        items = vec_layout(f, must_targets=some_points(f))
        return f, items, offsets(items)

    def blob_item(items):
        c = [(i, it) for i, it in enumerate(items) if it['width'] and it['width'] > 100 and isinstance(peel(it['value']), tuple) and peel(it['value'])[0] == 'bytes']
        return c[0] if len(c) == 1 else (None, None)

    def len_of(e, blob):
        """e == len(blob) [as uN]"""
        e = peel(e, casts=True)
        return is_call(e, r'len$') and peel(e[2][0]) == peel(blob)

    # SMB2 negotiate
    f, items, offs = body('SMB2NegotiateRequest')
    bi_, blob = blob_item(items)
    ok = blob is not None
    if ok:
        boff = offs[bi_]
        at = {o: it for it, o in zip(items, offs)}
        so, sl = at.get(56), at.get(58)
        rep.check(r2, so is not None and const_val(le_value(so)) == 64 + boff, 'smb2-negotiate:SecurityBufferOffset', 'field at body offset 56 = %s; SMB2 header (64) + blob offset in body (%s) = %s' % (const_val(le_value(so)) if so else None, boff, 64 + boff if boff is not None else None), so['loc'] if so else '')
        rep.check(r2, sl is not None and sl['width'] == 2 and len_of(le_value(sl), blob['value']), 'smb2-negotiate:SecurityBufferLength', 'field at body offset 58 <- %s' % (short(le_value(sl)) if sl else None), sl['loc'] if sl else '')
        rep.check(r2, bi_ == len(items) - 1, 'smb2-negotiate:blob-last', 'the blob is the last thing appended')
        ss = at.get(0)
        rep.check(r2, ss is not None and const_val(le_value(ss)) == 65 and boff == 64, 'smb2-negotiate:StructureSize', 'StructureSize %s, fixed part %s bytes (65 = 64 + 1 by specification)' % (const_val(le_value(ss)) if ss else None, boff))
        # dialect: Some(..)? gate
        dv = at.get(4)
        dial = le_value(dv) if dv else None
        FIND = r'Iterator>::find$|Iterator::find$'
        okd = dial is not None and calls_in(dial, FIND) != []
        if okd and not calls_in(dial, r'Try>::branch$'):
            # `?` in its expanded form (or an explicit match): every reply lies behind the Some edge of the search result
            gd = f.gate_edges(lambda d, v, vals: isinstance(d, tuple) and d[0] == 'discr' and calls_in(d[1], FIND) != [] and v == 1)
            okd = bool(gd) and not f.must_pass(gd, some_points(f))
        rep.check(r3, okd, 'smb2-negotiate:dialect-or-silence', 'DialectRevision <- %s (None => no reply)' % (short(dial)[:100] if dial else None), dv['loc'] if dv else '')
        # the find closure tests membership in the dialects the client offered
        okc = False
        cids = set(F.closures_of.get(f.id, []))
        if dial is not None:
            cids |= {x[1][len('closure:'):] for x in walk(dial) if isinstance(x, tuple) and x[0] == 'agg' and str(x[1]).startswith('closure:')}
        for cid in sorted(cids):
            if cid not in F.fns:
                continue
            c = F.fn(cid)
            for cb, ct in c.calls(r'HashSet::<[^>]*>::contains$'):
                a0 = short(c.argv(cb, 0))
                if 'dialects' in a0:
                    okc = True
        rep.check(r3, okc, 'smb2-negotiate:dialect-offered', 'the selected dialect is tested against the set of dialects parsed from the request: %s' % okc)
    else:
        rep.bad(r2, 'smb2-negotiate:blob', 'security blob append not found')
    # SMB2 session setup
    f, items, offs = body('SMB2SessionSetupRequest')
    bi_, blob = blob_item(items)
    if blob is not None:
        at = {o: it for it, o in zip(items, offs)}
        boff = offs[bi_]
        so, sl = at.get(4), at.get(6)
        rep.check(r2, so is not None and const_val(le_value(so)) == 64 + boff, 'smb2-session:SecurityBufferOffset', 'field at body offset 4 = %s; 64 + %s' % (const_val(le_value(so)) if so else None, boff), so['loc'] if so else '')
        rep.check(r2, sl is not None and len_of(le_value(sl), blob['value']), 'smb2-session:SecurityBufferLength', 'field at body offset 6 <- %s' % (short(le_value(sl)) if sl else None), sl['loc'] if sl else '')
        rep.check(r2, bi_ == len(items) - 1 and const_val(le_value(at.get(0))) == 9 and boff == 8, 'smb2-session:shape', 'StructureSize 9 = 8 fixed bytes + 1, blob last')
    else:
        rep.bad(r2, 'smb2-session:blob', 'security blob append not found')
    # SMB1 negotiate
    f, items, offs = body('SMB1NegotiateRequest')
    bi_, blob = blob_item(items)
    if blob is not None:
        at = {o: it for it, o in zip(items, offs)}
        wc = at.get(0)
        # ByteCount is the 2-byte item right before the first byte-area item; parameter words lie between WordCount and ByteCount
        bc_i = [i for i, it in enumerate(items) if it['width'] == 2 and le_value(it) is not None and calls_in(le_value(it), r'len$')]
        ok = len(bc_i) == 1
        if ok:
            bc = items[bc_i[0]]
            words = offs[bc_i[0]] - 1
            rep.check(r2, (const_val(le_value(wc)) or 0) * 2 == words, 'smb1-negotiate:WordCount', 'WordCount %s, parameter bytes present %s' % (const_val(le_value(wc)), words), wc['loc'])
            after = items[bc_i[0] + 1:]
            fixed = sum(it['width'] for it in after if it is not blob)
            v = peel(le_value(bc), casts=True)
            if isinstance(v, tuple) and v[0] == 'field':
                v = v[1]
            okb = isinstance(v, tuple) and v[0] == 'bin' and v[1] in ('Add', 'AddWithOverflow') and len_of(v[2], blob['value']) and const_val(v[3]) == fixed and after[-1] is blob
            rep.check(r2, okb, 'smb1-negotiate:ByteCount', 'ByteCount <- %s; bytes following: blob + %d' % (short(le_value(bc))[:70], fixed), bc['loc'])
        else:
            rep.bad(r2, 'smb1-negotiate:ByteCount', 'ByteCount item not found')
        # dialect index: position() in the client's list
        di = at.get(1)
        dv = le_value(di) if di else None
        pos = deep_calls(F, f, dv, r'Iterator>::position$|Iterator::position$') if dv is not None else []
        okd = bool(pos) and all(recv is not None and 'dialects' in short(recv) for (_, recv) in pos)
        rep.check(r3, okd, 'smb1-negotiate:dialect-index', 'DialectIndex <- %s' % (short(dv)[:110] if dv else None), di['loc'] if di else '')
    else:
        rep.bad(r2, 'smb1-negotiate:blob', 'security blob append not found')
    # SMB1 session setup
    f, items, offs = body('SMB1SessionSetupRequest')
    bi_, blob = blob_item(items)
    if blob is not None:
        at = {o: it for it, o in zip(items, offs)}
        wc = at.get(0)
        lens = [(i, it) for i, it in enumerate(items) if it['width'] == 2 and le_value(it) is not None and calls_in(le_value(it), r'len$')]
        ok = len(lens) == 2
        if ok:
            sl, bc = lens[0][1], lens[1][1]
            words = offs[lens[1][0]] - 1
            rep.check(r2, (const_val(le_value(wc)) or 0) * 2 == words, 'smb1-session:WordCount', 'WordCount %s, parameter bytes present %s' % (const_val(le_value(wc)), words), wc['loc'])
            rep.check(r2, len_of(le_value(sl), blob['value']), 'smb1-session:SecurityBlobLength', 'SecurityBlobLength <- %s' % short(le_value(sl))[:60], sl['loc'])
            after = items[lens[1][0] + 1:]
            # ByteCount = sum of len() of exactly the constants appended after it
            terms = [c for c in walk(le_value(bc)) if isinstance(c, tuple) and c[0] == 'call' and re.search(r'len$', c[1])]
            tvals = sorted(short(peel(c[2][0])) for c in terms)
            avals = sorted(short(peel(it['value'])) for it in after)
            rep.check(r2, tvals == avals and after[0] is blob, 'smb1-session:ByteCount', 'ByteCount sums len() of %d constants; %d constants follow, blob first: %s' % (len(tvals), len(avals), tvals == avals), bc['loc'])
            # ... and what ByteCount counts is really there: each of those appends lies on every path to the reply (an
            # optional string that the count still includes makes the length lie for some requests only)
            opt = [it['loc'] for it in [bc] + after if not it['must'] or it['in_loop']]
            rep.check(r2, not opt, 'smb1-session:ByteCount-bytes-unconditional', 'ByteCount and the %d appends it counts are executed on every path to the reply; conditional ones: %s' % (len(after), opt), bc['loc'])
        else:
            rep.bad(r2, 'smb1-session:lengths', 'expected SecurityBlobLength and ByteCount, found %d length fields' % len(lens))
    else:
        rep.bad(r2, 'smb1-session:blob', 'security blob append not found')

    # R3: a reply needs a completely parsed request (state == End)
    for ty in ['SMB1NegotiateRequest', 'SMB1SessionSetupRequest', 'SMB2NegotiateRequest', 'SMB2SessionSetupRequest']:
        f = F.fn(repl_fn(ty))
        sp = some_points(f)
        adt = F.adts.get(P + ty.replace('SMB2SessionSetupRequest', 'SMB2SetupRequest') + 'State') or F.adts.get(P + ty + 'State')
        ok = False
        if adt:
            end = [i for i, v in enumerate(adt['variants']) if v['name'] == 'End']
            if end:
                def is_dstate(k):
                    if not (isinstance(k, tuple) and k[0] == 'discr'):
                        return False
                    x = k[1]
                    if isinstance(x, tuple) and x[0] == 'entry':
                        x = x[1]
                    return Fn.path_of(x)[-2:] == [('f', 'd'), ('f', 'state')]
                states, _ = fact_sim(f, is_dstate)
                ok = bool(sp)
                for b in sp:
                    sts = states.get(b, set())
                    if not sts:
                        ok = False
                    for (_, facts) in sts:
                        if not any(is_dstate(k) and rel == '==' and c == end[0] for (k, rel, c) in facts):
                            ok = False
        rep.check(r3, ok, ty + ':complete-request', 'every path state that reaches the reply has established d.state == End: %s' % ok, f.loc(sp[0]) if sp else '')

    # R3: a field that is read repeatedly in one state (the SMB2 dialect list) must start every entry from zero and hand
    # every completed entry to the collection - otherwise the "offered" set contains values the client never sent
    n_loops = 0
    for fid in sorted(F.fns):
        if not (fid.endswith('MPacket>::parse') and 'proto::smb::' in fid):
            continue
        try:
            seq_, info_ = dissector_layout(F, fid)
        except AnalysisError:
            continue
        f = F.fn(fid)
        for arm, (fld, width, endian, nxt) in sorted(info_.items()):
            if nxt != arm or fld is None:
                continue
            n_loops += 1
            rd = [(b, t) for b, t in f.calls(r'PacketDissector::<T>::read_u\w+$') if fld in short(f.argv(b, 2))]
            ok, det = len(rd) == 1, '%d read sites for %s' % (len(rd), fld)
            if ok:
                rb = rd[0][0]
                rv = f.call_val(rb)
                def is_di(a):
                    al = alts(a)
                    return bool(al) and all((isinstance(x, tuple) and x[0] == 'modby') or (isinstance(x, tuple) and x[0] == 'entry' and Fn.path_of(x[1])[-2:] == [('f', 'd'), ('f', 'i')]) for x in al) and \
                        any(isinstance(x, tuple) and x[0] == 'entry' for x in al)
                done = [(b, s_) for (b, s_) in eq_edges(f, lambda a, c: is_di(a) and const_val(c) == 0) if rb in f.dominators().get(b, ())]
                resets = []
                for bi, blk in enumerate(f.blocks):
                    if blk['cleanup']:
                        continue
                    for i_, st in enumerate(blk['stmts']):
                        fl = [p['f'] for p in st['lhs']['p'] if isinstance(p, dict) and 'f' in p]
                        if fl == [fld] and st['lhs']['l'] == 1 and const_val(f.rvalue(st['rv'], (bi, i_))) == 0:
                            resets.append(bi)
                # ... or the accumulator is moved out and left at its default in one step: std::mem::take(&mut self.<fld>) (0 for an integer)
                for bi, t_ in f.calls(r'^std::mem::take$|^core::mem::take$'):
                    if short(f.argv(bi, 0)).endswith('.' + fld) or short(f.arg(bi, 0)).endswith('.' + fld):
                        resets.append(bi)
                uses = [b for b, t in f.calls(r'HashSet::<[^>]*>::insert$|Vec::<[^>]*>::push$') if any(x == rv for x in walk(f.argv(b, 1))) or fld in short(f.argv(b, 1))
                        or any(is_call(x, r'mem::take$') and fld in short(x) for x in walk(f.argv(b, 1)))]
                rets = f.return_blocks()
                ok = bool(done) and bool(resets) and bool(uses)
                for (_, s_) in done:
                    if any(x in f.reachable(s_, removed_blocks=resets) for x in rets):
                        ok = False
                        det = 'an entry can complete without %s being reset to 0' % fld
                    already = bool_edges(f, lambda d_: is_call(peel(d_, unwraps=False), r'HashSet::<[^>]*>::contains$|\[T\]>::contains$') and fld in short(d_), True)
                    if any(x in f.reachable(s_, removed_blocks=uses, removed_edges=already) for x in rets):
                        ok = False
                        det = (det + '; ' if 'without' in det else '') + 'an entry can complete without being added to the collection'
                if ok:
                    det = 'every completed entry (d.i back to 0) is added to the collection and %s is reset to 0, on every path' % fld
            rep.check(r3, ok, '%s:%s:repeated-field' % (fid.split(' as ')[0].split('::')[-1], arm), det, '%s:%d' % (f.file, f.line))
    rep.check(r3, n_loops >= 1, 'repeated-fields-found', '%d repeated-field states found in the SMB dissectors (the SMB2 dialect list)' % n_loops)

    # R4: the accumulators that build every multi-byte field (little-endian: SMB; big-endian: NetBIOS length)
    r4 = rep.rule('C17-R4', 'field accumulation: after k bytes the little-endian accumulator holds byte j at bits 8j..8j+7 for every j < k (all field widths 2/4/8, bit-exact for every byte value); the big-endian one shifts the previous value up by 8 and puts the byte below it; the byte counter advances by one per byte and the state changes exactly when it reaches the field size', floor=12)
    from vlib.bits import BitEval, describe
    DP = 'proto::dissector::PacketDissector::<T>::'
    le, be_ = F.fn(DP + '_read_ulesize'), F.fn(DP + '_read_usize')
    rep.saw(le, be_)
    I_FIELD = ('entry', ('field', ('deref', ('param', 1)), 'i'))

    def ret_expr(f):
        rets = f.return_blocks()
        return f.ret_value(rets[0]) if len(rets) == 1 else None
    rle = ret_expr(le)
    for k in range(8):
        ok, got = False, '?'
        if rle is not None:
            e = rewrite(rle, lambda x: ('const', k, None, 'usize') if x == I_FIELD else None)

            def src(x, k=k):
                if x == ('param', 3):
                    return [('in', 'value', j) for j in range(8 * k)] + [0] * (64 - 8 * k)
                if x == ('entry', ('deref', ('param', 2))):
                    return ('byte', 8)
                return None
            bits = BitEval(src).bits(e)
            want = [('in', 'value', j) for j in range(8 * k)] + [('in', 'byte', j) for j in range(8)] + [0] * (64 - 8 * k - 8)
            ok = bits is not None and (bits + [0] * 64)[:64] == want
            got = describe(bits[8 * k:8 * k + 8]) if bits else '?'
        rep.check(r4, ok, 'le-accumulate:byte%d' % k, 'with %d bytes accumulated, the next byte lands at bits %d..%d and nothing else changes: %s (bits there: %s)' % (k, 8 * k, 8 * k + 7, ok, got), '%s:%d' % (le.file, le.line))
    rbe = ret_expr(be_)
    ok = False
    if rbe is not None:
        def srcb(x):
            if x == ('param', 3):
                return ('value', 64)
            if x == ('entry', ('deref', ('param', 2))):
                return ('byte', 8)
            return None
        bits = BitEval(srcb).bits(rbe)
        want = [('in', 'byte', j) for j in range(8)] + [('in', 'value', j) for j in range(56)]
        ok = bits is not None and (bits + [0] * 64)[:64] == want
    rep.check(r4, ok, 'be-accumulate', 'big-endian step = (value << 8) | byte, bit-exact: %s' % ok, '%s:%d' % (be_.file, be_.line))
    # counter and state change
    for f in (le, be_):
        iw = []
        for bi, b in enumerate(f.blocks):
            if b['cleanup']:
                continue
            for i_, st in enumerate(b['stmts']):
                fl = [p['f'] for p in st['lhs']['p'] if isinstance(p, dict) and 'f' in p]
                if fl == ['i']:
                    iw.append(peel(f._through(f.rvalue(st['rv'], (bi, i_)), (bi, i_), 0)))
        okc = len(iw) == 1 and isinstance(iw[0], tuple) and ((iw[0][0] == 'field' and iw[0][1][0] == 'bin' and iw[0][1][1] in ('AddWithOverflow',) and iw[0][1][2] == I_FIELD and const_val(iw[0][1][3]) == 1) or
                                                            (iw[0][0] == 'bin' and iw[0][1] in ('Add', 'AddUnchecked') and iw[0][2] == I_FIELD and const_val(iw[0][3]) == 1))
        nx = f.calls(r'next_state_when_i_reaches$')
        okn = len(nx) == 1 and peel(f.argv(nx[0][0], 1)) == ('param', 4) and peel(f.argv(nx[0][0], 2)) == ('param', 5) and all(nx[0][0] not in f.reachable(0, removed_blocks=[b for b, s_ in [(bi, 1) for bi, b in enumerate(f.blocks) if any([p['f'] for p in st['lhs']['p'] if isinstance(p, dict) and 'f' in p] == ['i'] for st in b['stmts'])]]) for _ in [0])
        rep.check(r4, okc and okn, f.id.split('::')[-1] + ':counter', 'self.i += 1 (once), then next_state_when_i_reaches(next_state, size): %s / %s' % (okc, okn), '%s:%d' % (f.file, f.line))
    ns = F.fn(DP + 'next_state_when_i_reaches')
    g = eq_edges(ns, lambda a, b: peel(a) == I_FIELD and peel(b) == ('param', 3))
    nsc = ns.calls(r'PacketDissector::<T>::next_state$')
    rep.check(r4, bool(g) and len(nsc) == 1 and not ns.must_pass(g, [nsc[0][0]]) and peel(ns.argv(nsc[0][0], 1)) == ('param', 2), 'next_state_when_i_reaches', 'next_state(state) exactly when self.i == size: %s' % bool(g), '%s:%d' % (ns.file, ns.line))
    for nm, inner, size, ty in [('read_ule16', '_read_ulesize', 2, 'u16'), ('read_ule32', '_read_ulesize', 4, 'u32'), ('read_ule64', '_read_ulesize', 8, 'u64'), ('read_u16', '_read_usize', 2, 'u16'), ('read_u32', '_read_usize', 4, 'u32')]:
        f = F.fn(DP + nm)
        v = ret_expr(f)
        ok = isinstance(v, tuple) and v[0] == 'cast' and v[3] == ty and is_call(v[2], inner + '$')
        if ok:
            a = v[2][2]
            ok = a[0] == ('param', 1) and a[1] == ('param', 2) and peel(a[2], casts=True) == ('param', 3) and a[3] == ('param', 4) and const_val(a[4]) == size
        rep.check(r4, ok, 'wrapper:' + nm, '%s = %s(self, byte, value, next_state, %d) as %s: %s' % (nm, inner, size, ty, ok), '%s:%d' % (f.file, f.line))
    dispatch_sound(ctx, 'C17', 'a session message reaches the SMB responders')
    no_abort_in(ctx, 'C17', r'proto::smb::|proto::dissector::', 'answering SMB')


