"""C18 — SSH and Gh0st: banner exchanges are answered exactly, malformed ones are not."""
from rules.common import *
from vlib.fsm import *
from rules import refs


def named_consts(F, fids, prefix):
    out = {}
    for fid in fids:
        f = F.fn(fid)
        for b in f.blocks:
            for st in b['stmts']:
                for o in [st['rv'].get('a'), st['rv'].get('b')] + list(st['rv'].get('ops', [])):
                    if o and o.get('k') == 'const' and o.get('name', '') and o['name'].startswith(prefix):
                        out[o['name'].split('::')[-1]] = o['val']
    return out


def run(ctx):
    F = ctx.facts()
    rep = ctx.rep
    rep.not_decided += ['that the zlib stream produced by flate2 inflates to the input (library)', 'the SSH-2.0 / SSH-1.99 prefix test is the dispatcher signature (C10)']
    rp = F.fn('proto::ssh::repl')
    pf = F.fn('proto::ssh::ssh_parse')
    rep.saw(rp, pf, 'proto::ghost::repl')
    K = named_consts(F, ['proto::ssh::repl', 'proto::ssh::ssh_parse', 'proto::ssh::ProtocolState::new'], 'proto::ssh::SSH_STATE_')
    for need in ['SSH_STATE_EOB', 'SSH_STATE_FAIL', 'SSH_STATE_START']:
        if need not in K:
            raise AnalysisError('constant %s not found' % need)
    EOB, FAIL, START = K['SSH_STATE_EOB'], K['SSH_STATE_FAIL'], K['SSH_STATE_START']

    r1 = rep.rule('C18-R1', 'ssh::repl answers exactly b"SSH-2.0-1\\r\\n" and only behind parser state == end-of-banner, after parsing the whole payload from a fresh state', floor=3)
    sp = some_points(rp)

    def is_state(e):
        als = palts(e)
        mods = [a for a in als if isinstance(a, tuple) and a[0] == 'modby']
        rest = [a for a in als if a not in mods]
        return bool(rest) and all(m_[1] == 'proto::ssh::ssh_parse' for m_ in mods) and bool(mods) and \
            all(isinstance(a, tuple) and a[0] == 'field' and a[2] == 'state' and is_call(peel(a[1]), r'ssh::ProtocolState::new$') for a in rest)
    g = eq_edges(rp, lambda a, b: is_state(a) and const_val(b) == EOB)
    rep.check(r1, bool(g) and bool(sp) and not rp.must_pass(g, sp), 'reply-gate', 'reply only through state == SSH_STATE_EOB (%d) of the state parsed from this payload' % EOB, rp.loc(sp[0]) if sp else '')
    vals = []
    for rb in rp.return_blocks():
        for a in alts(rp.ret_value(rb)):
            if isinstance(a, tuple) and a[0] == 'agg' and a[1].endswith('Option::Some'):
                vals.append(peel(a[2][0], unwraps=False))
    ok = len(vals) == 1 and is_call(vals[0], r'to_vec$') and isinstance(peel(vals[0][2][0]), tuple) and peel(vals[0][2][0])[:2] == ('bytes', b'SSH-2.0-1\r\n'.hex())
    rep.check(r1, ok, 'reply-constant', 'reply bytes: %s' % [short(v) for v in vals])
    pc = rp.calls(r'^proto::ssh::ssh_parse$')
    ok = len(pc) == 1 and peel(rp.argv(pc[0][0], 1)) == ('param', 1)
    rep.check(r1, ok, 'parses-payload', 'ssh_parse(&mut fresh, data): %s' % ok, rp.loc(pc[0][0]) if pc else '')
    ns = named_consts(F, ['proto::ssh::ProtocolState::new'], 'proto::ssh::SSH_STATE_')

    r2 = rep.rule('C18-R2', 'ssh_parse is a byte-at-a-time fold (incl. the one-byte push-back after a lone CR) whose extracted automaton accepts every identification of the statement grammar and nothing that is not "SSH-" [0-9.]* "-" ... CR LF', floor=4)
    m = ByteFsm(pf, ['state', 'prev_state'])
    start = (START, START)
    seen, trans, prob = explore(m, [start])
    fp = m.frame_problems()
    rep.check(r2, not fp, 'loop-is-all', 'the function is nothing but the byte loop starting at offset 0: %s' % (fp or 'ok'), '%s:%d' % (pf.file, pf.line))
    rep.check(r2, not prob and not m.impure, 'fold-shape', '%d states x 256 bytes evaluated; undecidable: %d; reads other than data[i]: %d' % (len(seen), len(prob), len(m.impure)), '%s:%d' % (pf.file, pf.line))
    for nm, v in [('EOB', EOB), ('FAIL', FAIL)]:
        sts = [s for s in seen if s[0] == v]
        ok = bool(sts) and all(trans.get((s, b), (None,))[0] == s for s in sts for b in range(256))
        rep.check(r2, ok, 'absorbing:' + nm, 'states %s map to themselves on all bytes: %s' % (sts, ok))
    acc = lambda s: s[0] == EOB
    for nm, ref, direction in [('well-formed-identifications-are-answered', refs.ssh_lower(), 'ref<=impl'), ('malformed-or-unterminated-not-answered', refs.ssh_upper(), 'impl<=ref')]:
        cex = check_inclusion(trans, start, acc, ref[1], ref[0], ref[2], direction)
        rep.check(r2, cex is None, nm, 'product exploration found %s' % ('no counterexample' if cex is None else 'counterexample %r' % cex), '%s:%d' % (pf.file, pf.line))
    rep.extra['ssh_fsm'] = {'states': sorted(seen), 'transitions': len(trans)}

    r3 = rep.rule('C18-R3', 'Gh0st reply = magic ++ LE32(total) ++ LE32(uncompressed) ++ zlib(data): total = len(compressed)+len(magic)+8, uncompressed = len() of the very buffer fed to the encoder, both emitted as four (x % 256, x /= 256) bytes, compressed bytes appended last', floor=6)
    gh = F.fn('proto::ghost::repl')
    pushes = gh.calls(r'Vec::<[^>]*>::push$')
    appends = gh.calls(r'Vec::<[^>]*>::append$')
    wa = gh.calls(r'Write::write_all$|::write_all$')
    # a 32-bit little-endian field may also be written as extend_from_slice(&(x as u32).to_le_bytes())
    le_sites = []
    for bi_, t_ in gh.calls(r'Vec::<[^>]*>::extend_from_slice$'):
        v_ = peel(gh.argv(bi_, 1), unwraps=False)
        if is_call(v_, r'<impl u32>::to_le_bytes$'):
            le_sites.append((bi_, v_[2][0]))
    n_le = len(pushes) + len(le_sites)
    rep.check(r3, n_le == 2 and len(appends) == 1 and len(wa) == 1, 'shape', '%d 32-bit length fields (%d byte-push loops, %d to_le_bytes), %d append, %d write_all' % (n_le, len(pushes), len(le_sites), len(appends), len(wa)))
    if n_le == 2 and len(appends) == 1 and len(wa) == 1:
        data_e = peel(gh.argv(wa[0][0], 1))
        comp = peel(gh.argv(appends[0][0], 1), unwraps=False)
        okc = is_call(comp, r'expect$|unwrap$') and calls_in(comp, r'flate2::.*::finish$') != []
        rep.check(r3, okc, 'compressed-is-encoder-output', 'appended buffer = %s' % short(comp)[:100], gh.loc(appends[0][0]))
        # result starts with the magic
        res0 = [a for a in palts(gh.argv(appends[0][0], 0), unwraps=False) if not (isinstance(a, tuple) and a[0] == 'modby')]
        okm = len(res0) == 1 and is_call(res0[0], r'to_vec$') and peel(res0[0][2][0])[:2] == ('bytes', b'Gh0st'.hex())
        rep.check(r3, okm, 'starts-with-magic', 'result initialised with %s' % [short(a) for a in res0])
        # order: push(total) loop, push(uncompressed) loop, append
        order_ok = True
        for pb, _ in list(pushes) + le_sites:
            later = set()
            for s in gh.succ[appends[0][0]]:
                later |= gh.reachable(s)
            if pb in later:
                order_ok = False
        rep.check(r3, order_ok, 'append-last', 'no length byte is pushed after the compressed data: %s' % order_ok, gh.loc(appends[0][0]))
        # classify the two push loops by the initial value of their counter
        kinds = {}
        for pb, t in pushes:
            v = peel(gh.argv(pb, 1), casts=False)
            ok = isinstance(v, tuple) and v[0] == 'cast' and v[3] == 'u8'
            init = None
            if ok:
                r_ = peel(v[2])
                ok = isinstance(r_, tuple) and r_[0] == 'bin' and r_[1] == 'Rem' and const_val(r_[3]) == 256
                if ok:
                    x = r_[2]
                    inits = [a for a in palts(x, unwraps=False) if not any(isinstance(y, tuple) and y and y[0] == 'cyc' for y in walk(a)) and not (isinstance(a, tuple) and a[0] == 'bin' and a[1] == 'Div')]
                    divs = [a for a in alts(x) if isinstance(peel(a), tuple) and peel(a)[0] == 'bin' and peel(a)[1] == 'Div' and const_val(peel(a)[3]) == 256]
                    ok = len(inits) == 1 and len(divs) >= 1
                    init = inits[0] if inits else None
            # loop bound 0..4
            rng = [gh.argv(b, 0) for b, tt in gh.calls(r'IntoIterator>::into_iter$|IntoIterator::into_iter$')]
            okr = all(isinstance(peel(r_, unwraps=False), tuple) and peel(r_, unwraps=False)[0] == 'agg' and [const_val(z) for z in peel(r_, unwraps=False)[2]] == [0, 4] for r_ in rng) and len(rng) == 2
            if init is not None and is_call(peel(init), r'len$') and peel(peel(init)[2][0]) == data_e:
                kinds['uncompressed'] = (pb, ok and okr, init)
            elif init is not None:
                kinds['total'] = (pb, ok and okr, init)
            else:
                kinds['?%d' % pb] = (pb, False, v)
        for pb, x in le_sites:
            init = peel(x, casts=True)
            # `as u32` keeps the low 32 bits - the same four bytes the (x % 256, x /= 256) x4 loop emits
            okc_ = isinstance(peel(x), tuple) and peel(x)[0] == 'cast' and peel(x)[3] == 'u32'
            if is_call(peel(init), r'len$') and peel(peel(init)[2][0]) == data_e:
                kinds['uncompressed'] = (pb, okc_, init)
            else:
                kinds['total'] = (pb, okc_, init)
        for k_ in ['total', 'uncompressed']:
            if k_ not in kinds:
                rep.bad(r3, 'le32:' + k_, 'no (x % 256, x /= 256) x4 loop found for the %s length' % k_)
                continue
            pb, ok, init = kinds[k_]
            if k_ == 'total':
                e = peel(init, casts=True)
                # (len(compressed) + len(magic)) + 8
                def flat(e):
                    e = peel(e, casts=True)
                    if isinstance(e, tuple) and e[0] == 'field' and e[2] == '0':
                        e = e[1]
                    if isinstance(e, tuple) and e[0] == 'bin' and e[1] in ('Add', 'AddWithOverflow'):
                        return flat(e[2]) + flat(e[3])
                    return [e]
                terms = flat(init)
                c8 = [t_ for t_ in terms if const_val(t_) == 8]
                lc = [t_ for t_ in terms if is_call(t_, r'len$') and peel(t_[2][0], unwraps=False) == comp]
                lm = [t_ for t_ in terms if is_call(t_, r'len$') and isinstance(peel(t_[2][0]), tuple) and peel(t_[2][0])[:2] == ('bytes', b'Gh0st'.hex())]
                ok = ok and len(terms) == 3 and len(c8) == 1 and len(lc) == 1 and len(lm) == 1
            rep.check(r3, ok, 'le32:' + k_, '%s length starts from %s and is emitted as 4 little-endian bytes' % (k_, short(init)[:110]), gh.loc(pb))
        if 'total' in kinds and 'uncompressed' in kinds:
            later = set()
            for s in gh.succ[kinds['uncompressed'][0]]:
                later |= gh.reachable(s)
            rep.check(r3, kinds['total'][0] not in later, 'total-before-uncompressed', 'the total length precedes the uncompressed length')
