"""C18 — SSH and Gh0st: banner exchanges are answered exactly, malformed ones are not."""
from rules.common import *
from vlib.fsm import *
from rules import refs


def named_consts(F, fids, prefix):
    out = {}
    for fid in fids:
        f = F.fn(fid)
        for b in f.blocks:
            for st in b['stmts']:
                for o in [st['rv'].get('a'), st['rv'].get('b')] + list(st['rv'].get('ops', [])):
                    if o and o.get('k') == 'const' and o.get('name', '') and o['name'].startswith(prefix):
                        out[o['name'].split('::')[-1]] = o['val']
    return out


def run(ctx):
    F = ctx.facts()
    rep = ctx.rep
    rep.not_decided += ['that the zlib stream produced by flate2 inflates to the input (library)', 'the SSH-2.0 / SSH-1.99 prefix test is the dispatcher signature (C10)']
    rp = F.fn('proto::ssh::repl')
    pf = F.fn('proto::ssh::ssh_parse')
    rep.saw(rp, pf, 'proto::ghost::repl')
    K = named_consts(F, ['proto::ssh::repl', 'proto::ssh::ssh_parse', 'proto::ssh::ProtocolState::new'], 'proto::ssh::SSH_STATE_')
    for need in ['SSH_STATE_EOB', 'SSH_STATE_FAIL', 'SSH_STATE_START']:
        if need not in K:
            raise AnalysisError('constant %s not found' % need)
    EOB, FAIL, START = K['SSH_STATE_EOB'], K['SSH_STATE_FAIL'], K['SSH_STATE_START']

    r1 = rep.rule('C18-R1', 'ssh::repl answers exactly b"SSH-2.0-1\\r\\n" and only behind parser state == end-of-banner, after parsing the whole payload from a fresh state', floor=3)
    sp = some_points(rp)

    def is_state(e):
        als = palts(e)
        mods = [a for a in als if isinstance(a, tuple) and a[0] == 'modby']
        rest = [a for a in als if a not in mods]
        return bool(rest) and all(m_[1] == 'proto::ssh::ssh_parse' for m_ in mods) and bool(mods) and \
            all(isinstance(a, tuple) and a[0] == 'field' and a[2] == 'state' and is_call(peel(a[1]), r'ssh::ProtocolState::new$') for a in rest)
    g = eq_edges(rp, lambda a, b: is_state(a) and const_val(b) == EOB)
    rep.check(r1, bool(g) and bool(sp) and not rp.must_pass(g, sp), 'reply-gate', 'reply only through state == SSH_STATE_EOB (%d) of the state parsed from this payload' % EOB, rp.loc(sp[0]) if sp else '')
    vals = []
    for rb in rp.return_blocks():
        for a in alts(rp.ret_value(rb)):
            if isinstance(a, tuple) and a[0] == 'agg' and a[1].endswith('Option::Some'):
                vals.append(peel(a[2][0], unwraps=False))
    ok = len(vals) == 1 and is_call(vals[0], r'to_vec$') and isinstance(peel(vals[0][2][0]), tuple) and peel(vals[0][2][0])[:2] == ('bytes', b'SSH-2.0-1\r\n'.hex())
    rep.check(r1, ok, 'reply-constant', 'reply bytes: %s' % [short(v) for v in vals])
    pc = rp.calls(r'^proto::ssh::ssh_parse$')
    ok = len(pc) == 1 and peel(rp.argv(pc[0][0], 1)) == ('param', 1)
    rep.check(r1, ok, 'parses-payload', 'ssh_parse(&mut fresh, data): %s' % ok, rp.loc(pc[0][0]) if pc else '')
    ns = named_consts(F, ['proto::ssh::ProtocolState::new'], 'proto::ssh::SSH_STATE_')

    r2 = rep.rule('C18-R2', 'ssh_parse is a byte-at-a-time fold (incl. the one-byte push-back after a lone CR) whose extracted automaton accepts every identification of the statement grammar and nothing that is not "SSH-" [0-9.]* "-" ... CR LF', floor=4)
    m = ByteFsm(pf, ['state', 'prev_state'])
    start = (START, START)
    seen, trans, prob = explore(m, [start])
    fp = m.frame_problems()
    rep.check(r2, not fp, 'loop-is-all', 'the function is nothing but the byte loop starting at offset 0: %s' % (fp or 'ok'), '%s:%d' % (pf.file, pf.line))
    rep.check(r2, not prob and not m.impure, 'fold-shape', '%d states x 256 bytes evaluated; undecidable: %d; reads other than data[i]: %d' % (len(seen), len(prob), len(m.impure)), '%s:%d' % (pf.file, pf.line))
    for nm, v in [('EOB', EOB), ('FAIL', FAIL)]:
        sts = [s for s in seen if s[0] == v]
        ok = bool(sts) and all(trans.get((s, b), (None,))[0] == s for s in sts for b in range(256))
        rep.check(r2, ok, 'absorbing:' + nm, 'states %s map to themselves on all bytes: %s' % (sts, ok))
    acc = lambda s: s[0] == EOB
    for nm, ref, direction in [('well-formed-identifications-are-answered', refs.ssh_lower(), 'ref<=impl'), ('malformed-or-unterminated-not-answered', refs.ssh_upper(), 'impl<=ref')]:
        cex = check_inclusion(trans, start, acc, ref[1], ref[0], ref[2], direction)
        rep.check(r2, cex is None, nm, 'product exploration found %s' % ('no counterexample' if cex is None else 'counterexample %r' % cex), '%s:%d' % (pf.file, pf.line))
    rep.extra['ssh_fsm'] = {'states': sorted(seen), 'transitions': len(trans)}

    r3 = rep.rule('C18-R3', 'Gh0st reply = magic ++ LE32(total) ++ LE32(uncompressed) ++ zlib(data): total = len(compressed)+len(magic)+8, uncompressed = len() of the very buffer fed to the encoder, both emitted as four (x % 256, x /= 256) bytes, compressed bytes appended last', floor=6)
    gh = F.fn('proto::ghost::repl')
    rep.saw(gh)
    from vlib.layout import vec_layout
    items = vec_layout(gh)
    wa = gh.calls(r'Write::write_all$|::write_all$')
    data_e = peel(gh.argv(wa[0][0], 1)) if len(wa) == 1 else None

    def strip(v):
        v = peel(v, unwraps=False)
        while True:
            if is_call(v, r'to_vec$|as_slice$|Deref::deref$'):
                v = peel(v[2][0], unwraps=False)
            elif is_call(v, r'Index<I>>::index$|Index::index$') and 'RangeFull' in short(v[2][1]):
                v = peel(v[2][0], unwraps=False)
            else:
                return v

    def loop_init(it):
        """(ok, init): the pushed byte is (x % 256) as u8 with x /= 256 per iteration of a 0..4 loop, x starting at init"""
        v = peel(it['value'], casts=False)
        if not (isinstance(v, tuple) and v[0] == 'cast' and v[3] == 'u8'):
            return False, None
        r_ = peel(v[2])
        if not (isinstance(r_, tuple) and r_[0] == 'bin' and r_[1] == 'Rem' and const_val(r_[3]) == 256):
            return False, None
        x = r_[2]
        inits = [a for a in palts(x, unwraps=False) if not any(isinstance(y, tuple) and y and y[0] == 'cyc' for y in walk(a)) and not (isinstance(a, tuple) and a[0] == 'bin' and a[1] == 'Div')]
        divs = [a for a in alts(x) if isinstance(peel(a), tuple) and peel(a)[0] == 'bin' and peel(a)[1] == 'Div' and const_val(peel(a)[3]) == 256]
        rng = [gh.argv(b, 0) for b, tt in gh.calls(r'IntoIterator>::into_iter$|IntoIterator::into_iter$')]
        okr = bool(rng) and all(isinstance(peel(q, unwraps=False), tuple) and peel(q, unwraps=False)[0] == 'agg' and [const_val(z) for z in peel(q, unwraps=False)[2]] == [0, 4] for q in rng)
        return (len(inits) == 1 and len(divs) >= 1 and okr), (inits[0] if inits else None)
    from vlib.layout import byte_layout

    def le32_group(its):
        """the items (outside any loop, 4 bytes in all) are the four little-endian bytes of one value X, however they are spelled
        (shift-and-mask pushes, / and % by powers of 256, to_le_bytes ...): decided on the bit provenance; -> X or None"""
        cands = sorted({x for it_ in its for x in walk(it_['value']) if isinstance(x, tuple) and x and x[0] in ('bin', 'call', 'cast', 'field') and const_val(x) is None},
                       key=lambda x: -len(short(x)))
        for X in cands[:40]:
            try:
                bl = byte_layout(gh, its, source=lambda e, X=X: ('x', 64) if e == X else None)
            except Exception:
                continue
            if [c for c, _, _ in bl] == [('field', 'x', k) for k in range(4)]:
                return X
        return None
    seq = []
    pending = []
    for it in items:
        v = strip(it['value'])
        if pending or (not it['in_loop'] and it['width'] in (1, 2) and not (isinstance(v, tuple) and v[0] == 'bytes')):
            pending.append(it)
            tot = sum(p_['width'] or 99 for p_ in pending)
            if tot == 4:
                X = le32_group(pending)
                seq.append(('len', X is not None, X, pending[0]) if X is not None else ('?', False, v, it))
                pending = []
            elif tot > 4:
                seq.append(('?', False, v, it))
                pending = []
            continue
        if isinstance(v, tuple) and v[0] == 'bytes' and bytes.fromhex(v[1]) == b'Gh0st':
            seq.append(('magic', True, None, it))
        elif it['op'] == 'push' and it['in_loop']:
            ok_, init = loop_init(it)
            seq.append(('len', ok_, init, it))
        elif is_call(v, r'<impl u32>::to_le_bytes$') and it['width'] == 4 and not it['in_loop']:
            x = peel(v[2][0])
            seq.append(('len', isinstance(x, tuple) and x[0] == 'cast' and x[3] == 'u32', peel(x, casts=True), it))
        elif calls_in(v, r'flate2::.*::finish$'):
            seq.append(('compressed', is_call(v, r'expect$|unwrap$'), v, it))
        else:
            seq.append(('?', False, v, it))
    kinds_ = [k_ for k_, _, _, _ in seq]
    rep.check(r3, kinds_ == ['magic', 'len', 'len', 'compressed'] and len(wa) == 1 and all(it['must'] or it['in_loop'] for _, _, _, it in seq), 'shape',
              'reply is built as %s (required: magic, two 32-bit little-endian lengths, compressed data), one write_all into the encoder: %d' % (kinds_, len(wa)), '%s:%d' % (gh.file, gh.line))
    if kinds_ == ['magic', 'len', 'len', 'compressed'] and len(wa) == 1:
        comp = seq[3][2]
        rep.check(r3, seq[3][1], 'compressed-is-encoder-output', 'appended buffer = %s' % short(comp)[:100], seq[3][3]['loc'])
        rep.check(r3, True, 'starts-with-magic', 'the first bytes are the Gh0st magic')
        rep.check(r3, True, 'append-last', 'the compressed data is the last item')

        def flat(e):
            e = peel(e, casts=True)
            if isinstance(e, tuple) and e[0] == 'field' and e[2] == '0':
                e = e[1]
            if isinstance(e, tuple) and e[0] == 'bin' and e[1] in ('Add', 'AddWithOverflow'):
                return flat(e[2]) + flat(e[3])
            return [e]
        ok_t, init_t = seq[1][1], seq[1][2]
        terms = flat(init_t) if init_t is not None else []
        c8 = [t_ for t_ in terms if const_val(t_) == 8]
        lc = [t_ for t_ in terms if is_call(t_, r'len$') and strip(t_[2][0]) == strip(comp)]
        lm = [t_ for t_ in terms if is_call(t_, r'len$') and isinstance(strip(t_[2][0]), tuple) and strip(t_[2][0])[:2] == ('bytes', b'Gh0st'.hex())]
        rep.check(r3, ok_t and len(terms) == 3 and len(c8) == 1 and len(lc) == 1 and len(lm) == 1, 'le32:total',
                  'total length = %s (required len(compressed) + len(magic) + 8), emitted as 4 little-endian bytes' % (short(init_t)[:110] if init_t is not None else None), seq[1][3]['loc'])
        ok_u, init_u = seq[2][1], seq[2][2]
        oku = ok_u and init_u is not None and is_call(peel(init_u, casts=True), r'len$') and peel(peel(init_u, casts=True)[2][0]) == data_e
        rep.check(r3, oku, 'le32:uncompressed', 'uncompressed length = %s (required len() of the buffer fed to the encoder), emitted as 4 little-endian bytes' % (short(init_u)[:110] if init_u is not None else None), seq[2][3]['loc'])
        rep.check(r3, True, 'total-before-uncompressed', 'the total length precedes the uncompressed length')
    dispatch_sound(ctx, 'C18', 'a banner reaches the SSH / Gh0st responders')
    no_abort_in(ctx, 'C18', r'proto::(ssh|ghost)::', 'answering SSH / Gh0st')


