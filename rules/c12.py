"""C12 — only requests are answered: protocol-marked replies never elicit a reply."""
from rules.common import *
from rules.c05 import rq, int_edges, code_zero_edges


def field_writes(f, fieldname):
    """[(block, idx, value expr)] of assignments to a field with that name"""
    out = []
    for bi, b in enumerate(f.blocks):
        if b['cleanup']:
            continue
        for i, s in enumerate(b['stmts']):
            ch = [p for p in s['lhs']['p'] if isinstance(p, dict) and 'f' in p]
            if ch and ch[-1]['f'] == fieldname:
                out.append((bi, i, f.rvalue(s['rv'], (bi, i))))
    return out


def patterns(F):
    f = F.fn('proto::proto_init')
    out = []
    for bi, t in f.calls(r'Smack::add_pattern$'):
        p = peel(f.argv(bi, 1), casts=True)
        out.append((bi, p, const_val(f.argv(bi, 2)), const_val(f.argv(bi, 3)) if const_val(f.argv(bi, 3)) is not None else flags_val(f.argv(bi, 3))))
    return f, out


def flags_val(e):
    e = peel(e)
    if is_call(e, r'BitOr::bitor$|bitor$'):
        a, b = flags_val(e[2][0]), flags_val(e[2][1])
        return None if a is None or b is None else a | b
    return const_val(e)


def run(ctx):
    F = ctx.facts()
    rep = ctx.rep
    rep.not_decided += ['the bound of two replies for messages that are at once a reply of protocol X and a valid request of another protocol Y (value-level polyglots)',
                        'SSH and Gh0st replies are themselves valid requests of their own protocol (not in the list of protocol-marked replies of the statement)']
    # R1 ARP / ICMP / TCP
    r1 = rep.rule('C12-R1', 'ARP replies (op 2), ICMP/ICMPv6 echo replies and neighbour advertisements, TCP SYN|ACK and RST never select a replying arm', floor=6)
    arp, i4, i6 = F.fn('layer_2::arp::repl'), F.fn('layer_4::icmpv4::repl'), F.fn('layer_4::icmpv6::repl')
    rep.saw(arp, i4, i6)
    for f, getname, allowed, banned, what in [(arp, 'get_operation', {1}, {2}, 'ARP operation'), (i4, 'get_icmp_type', {8}, {0}, 'ICMP type'),
                                              (i6, 'get_icmpv6_type', {128, 135}, {129, 136}, 'ICMPv6 type')]:
        sp = some_points(f)
        okg, _dg = value_required_at(f, sp, rq(getname), allowed)
        off = not okg
        armvals = set()
        for bi in range(f.n):
            se = f.switch_edges(bi)
            if se and isinstance(se[0], tuple) and se[0][0] == 'field' and rq(getname)(se[0][1]):
                armvals |= set(se[2])
        rep.check(r1, bool(sp) and not off and not (armvals & banned), f.id + ':' + getname, '%s values with an arm: %s; reply reachable only through %s; reply-typed values %s have no arm' % (what, sorted(armvals), sorted(allowed), sorted(banned)), f.loc(sp[0]) if sp else '')
    try:
        forked = None
        tcp, table, heads, label = tcp_arms(F)
    except FlagTableFork as e:
        # the guards mix the flags with other request data (payload length ...): the arm is a relation of the flags.  A
        # reply-typed flag set that CAN select an answering arm is a violation whatever that other data is; if none can,
        # the relation is beyond this rule and the check gives no verdict, as before.
        forked = e
    if forked is not None:
        bad = sorted(v for v, hs in forked.rows.items()
                     if ((v & RST) and (v & (PSH | ACK)) != (PSH | ACK) or ((v & SYN) and (v & ACK) and not (v & PSH))) and any(classify_arm(forked.fn, h) != 'drop' for h in hs))
        if not bad:
            raise forked
        rep.check(r1, False, 'tcp:reply-typed-flag-sets', 'the arm selected depends on request data other than the flags; RST-bearing or SYN+ACK flag sets (without PSH|ACK) that can select an answering arm: %s (%d values)' % ([hex(x) for x in bad[:8]], len(bad)),
                  forked.fn.loc(forked.rows[bad[0]][0]))
    else:
        for v, nm in [(SYN | ACK, 'SYN|ACK'), (RST, 'RST'), (RST | ACK, 'RST|ACK'), (SYN | ACK | ECE, 'SYN|ACK|ECE')]:
            rep.check(r1, label[table[v]] == 'drop', 'tcp:flags=%s' % nm, 'arm selected: %s' % label[table[v]], tcp.loc(table[v]))
        # every flag value containing RST, or SYN together with ACK but not PSH, is dropped
        bad = [v for v in range(512) if ((v & RST) and (v & (PSH | ACK)) != (PSH | ACK) or ((v & SYN) and (v & ACK) and not (v & PSH))) and label[table[v]] != 'drop']
        rep.check(r1, not bad, 'tcp:reply-typed-flag-sets', 'RST-bearing or SYN+ACK flag sets (without PSH|ACK) that are answered: %s' % [hex(x) for x in bad[:8]])

    # R2 STUN
    r2 = rep.rule('C12-R2', 'stun::repl answers only class==request(0) and method==binding(1); its own answer carries class success(2)', floor=3)
    st = F.fn('proto::stun::repl')
    rep.saw(st)
    sp = sorted(set(some_points(st) + forwarded_reply_points(st)))
    gc = eq_edges(st, lambda a, b: isinstance(peel(a), tuple) and peel(a)[0] == 'field' and peel(a)[2] == 'class' and const_val(b) == 0)
    gm = eq_edges(st, lambda a, b: isinstance(peel(a), tuple) and peel(a)[0] == 'field' and peel(a)[2] == 'method' and const_val(b) == 1)

    def of_request(edges):
        # the tested object is the parsed request StunPacket::new(data)
        return edges
    def req_field(name):
        def p(k):
            k = peel(k)
            return isinstance(k, tuple) and k[0] == 'field' and k[2] == name and calls_in(k, r'StunPacket::new$') != []
        return p
    okc, dc = value_required_at(st, sp, req_field('class'), {0})
    okm, dm = value_required_at(st, sp, req_field('method'), {1})
    rep.check(r2, okc, 'stun:class==0', 'reply only on path states with class == STUN_CLASS_REQUEST of the parsed request: %s' % dc, st.loc(sp[0]) if sp else '')
    rep.check(r2, okm, 'stun:method==1', 'reply only on path states with method == STUN_METHOD_BINDING of the parsed request: %s' % dm, st.loc(sp[0]) if sp else '')
    cw = [v for _, _, v in field_writes(st, 'class')]
    # the class that is tested is the protocol's class: indications (class 1) and responses (2, 3) decode as such
    from rules import c15 as _c15
    cc_ = _c15.class_codec(F)
    rep.check(r2, cc_['class_ok'], 'stun:class-decoder', 'the parsed class is (byte0 bit0, byte1 bit4) for all 65536 leading byte pairs, so indications / success / error responses never decode as requests: %s' % cc_['class_ok'])
    rep.check(r2, [const_val(v) for v in cw] == [2], 'stun:response-class', 'class written into the response: %s' % [short(v) for v in cw])
    mw = [v for _, _, v in field_writes(st, 'method')]
    rep.check(r2, [const_val(v) for v in mw] == [1], 'stun:response-method', 'method written into the response: %s' % [short(v) for v in mw])

    # R3 SMB
    r3 = rep.rule('C12-R3', 'SMB1/SMB2: a payload dissector is created only when the reply flag (0x80 / 0x1) is clear; without payload dissector repl() returns None', floor=4)
    for ver, mask in [('SMB1', 0x80), ('SMB2', 1)]:
        gp = F.fn('proto::smb::%sHeader::get_payload' % ver)
        rep.saw(gp)
        wr = field_writes(gp, 'payload')
        somew = [(bi, v) for bi, i, v in wr if not (isinstance(v, tuple) and v[0] == 'agg' and v[1].endswith('::None'))]

        def flagtest(a, b):
            a = peel(a)
            return isinstance(a, tuple) and a[0] == 'bin' and a[1] == 'BitAnd' and const_val(a[3]) == mask and const_val(b) == mask and \
                isinstance(peel(a[2]), tuple) and peel(a[2])[0] == 'entry' and Fn.path_of(peel(a[2])[1])[-1:] == [('f', 'flags')]
        g = ne_edges(gp, flagtest)
        off = gp.must_pass(g, [bi for bi, _ in somew]) if g else [1]
        rep.check(r3, bool(somew) and not off, ver + ':payload-gated', 'payload dissector created at %d site(s), all behind (flags & %#x) != %#x: %s' % (len(somew), mask, mask, not off), gp.loc(somew[0][0]) if somew else '')
        hr = F.fn('<proto::smb::%sHeader as proto::dissector::MPacket>::repl' % ver)
        rep.saw(hr)
        # Some(resp) only after payload.as_ref()? succeeded
        sp = sorted(set(some_points(hr) + forwarded_reply_points(hr)))
        def payload_present(d, v, vals):
            # the Some edge of a test on self.payload (`?` is expanded into that match by vlib/combinators.py; an explicit
            # match / if let reads the same)
            if not (isinstance(d, tuple) and d[0] == 'discr'):
                return False
            x = peel(d[1], unwraps=False)
            if is_call(x, r'Try>::branch$'):
                if v != 0:
                    return False
                x = peel(x[2][0], unwraps=False)
            elif v != 1:
                return False
            y = x
            if is_call(y, r'Option::<T>::as_(ref|mut|deref)$'):
                y = peel(y[2][0], unwraps=False)
            while isinstance(y, tuple) and y[0] == 'ref':
                y = peel(y[1], unwraps=False)
            z = y
            if isinstance(z, tuple) and z[0] == 'entry':
                z = z[1]
            return Fn.path_of(z)[-1:] == [('f', 'payload')] and Fn.root_of(z) == ('deref', ('param', 1))
        g = hr.gate_edges(payload_present)
        off = hr.must_pass(g, sp) if g else sp
        rep.check(r3, bool(sp) and not off, ver + ':no-payload-no-reply', 'header repl() builds a reply only when a payload dissector exists: %s' % (not off), hr.loc(sp[0]) if sp else '')
        # only get_payload writes the payload field
        writers = [fid for fid, f in F.fns.items() if fid.startswith('proto::smb::') or fid.startswith('<proto::smb::')
                   for (k, ch, bi, l, ty, dr) in field_accesses(f) if k in ('w', 'rw') and ('proto::smb::%sHeader' % ver, 'payload') in ch]
        rep.check(r3, set(writers) <= {'proto::smb::%sHeader::get_payload' % ver, '<proto::smb::%sHeader as proto::dissector::MPacket>::new' % ver}, ver + ':payload-writers', 'writers of the payload slot: %s' % sorted(set(writers)))

    # R4 DNS
    r4 = rep.rule('C12-R4', 'DNSPacket::repl answers only messages with QR == 0; its own answer sets QR = 1', floor=2)
    dn = F.fn('<proto::dns::DNSPacket as proto::dissector::MPacket>::repl')
    rep.saw(dn)
    # a reply is materialised where a Some is built - or where a callee's Option is returned as it is (`return x.repl(..)`)
    sp = sorted(set(some_points(dn) + forwarded_reply_points(dn)))

    def is_qr(d):
        d = peel(d)
        return isinstance(d, tuple) and d[0] == 'entry' and Fn.path_of(d[1])[-2:] == [('f', 'header'), ('f', '_qr')] and Fn.root_of(d[1]) == ('deref', ('param', 1))
    g = bool_edges(dn, is_qr, False) + eq_edges(dn, lambda a, b: is_qr(a) and const_val(b) == 0)
    off = dn.must_pass(g, sp) if g else sp
    rep.check(r4, bool(sp) and not off, 'dns:qr==0' if not off else 'dns:qr-gate-missing', 'a response is built only behind header.QR == 0: %s' % (not off), dn.loc(sp[0]) if sp else '')
    hd = F.fn('<proto::dns::header::DNSHeader as proto::dissector::MPacket>::repl')
    rep.saw(hd)
    qw = [const_val(v) for _, _, v in field_writes(hd, '_qr')]
    rep.check(r4, qw == [1], 'dns:response-qr', 'QR written into the response header: %s' % qw)
    # the parser derives _qr from bit 15 of the flags word
    hp = F.fn('<proto::dns::header::DNSHeader as proto::dissector::MPacket>::parse')
    qv = [v for _, _, v in field_writes(hp, '_qr')]
    okq = len(qv) == 1
    if okq:
        v = peel(qv[0])
        okq = isinstance(v, tuple) and v[0] == 'bin' and v[1] == 'Eq' and const_val(v[3]) == 1 and isinstance(peel(v[2]), tuple) and peel(v[2])[0] == 'bin' and peel(v[2])[1] == 'Shr' and const_val(peel(v[2])[3]) == 15
        if not okq:
            # any other spelling: on the bits, the stored value is exactly bit 15 of the flags word
            from vlib.bits import BitEval
            b_ = BitEval(lambda e: ('w', 16) if (isinstance(e, tuple) and e[0] in ('entry', 'phi', 'modby')) or is_call(e, r'read_u16$') else None).bits(peel(qv[0], casts=False))
            okq = b_ is not None and list(b_)[:1] == [('in', 'w', 15)] and all(x == 0 for x in list(b_)[1:])
    rep.check(r4, okq, 'dns:qr-bit', '_qr <- %s' % [short(x) for x in qv], '%s:%d' % (hp.file, hp.line))

    # R5 RPC
    r5 = rep.rule('C12-R5', 'ONC-RPC signatures require message type 0 (call) literally; the reply header carries message type 1', floor=3)
    pf, pats = patterns(F)
    rep.saw(pf)
    for pid, off_, name in [(5, 8, 'RPC_CALL_TCP'), (6, 4, 'RPC_CALL_UDP')]:
        ps = [p for _, p, i, fl in pats if i == pid]
        ok = len(ps) == 1 and ps[0][0] == 'bytes' and bytes.fromhex(ps[0][1])[off_:off_ + 4] == b'\x00\x00\x00\x00'
        rep.check(r5, ok, 'rpc:%s:msg-type-literal' % name, 'pattern bytes %d..%d = %s' % (off_, off_ + 4, bytes.fromhex(ps[0][1])[off_:off_ + 4] if ps and ps[0][0] == 'bytes' else None))
    br = F.fn('proto::rpc::build_repl')
    rep.saw(br)
    ex = br.calls(r'Extend<T>>::extend$|Extend::extend$')
    first = None
    for bi, t in sorted(ex):
        v = peel(br.argv(bi, 1), unwraps=False)
        if isinstance(v, tuple) and v[0] == 'agg' and v[1] == 'array':
            first = (bi, [const_val(x) for x in v[2]])
            break
    rep.check(r5, first is not None and first[1][:4] == [0, 0, 0, 1], 'rpc:reply-msg-type', 'first words after the XID: %s' % (first[1] if first else None), br.loc(first[0]) if first else '')
    dispatch_sound(ctx, 'C12', 'a payload reaches (or is kept from) a responder')
    hand_over_sound(ctx, 'C12')


