"""Reference automata written from the property statements (not from the code).
Each is (start, step(state, byte) -> state, accepting(state))."""

DIG = set(range(0x30, 0x3a))
SP, CR, LF, COLON, DOT, DASH = 0x20, 0x0d, 0x0a, 0x3a, 0x2e, 0x2d


def http_lower():
    """After the method token: SP target SP HTTP/d+.d+ EOL (name ':' value EOL)* EOL  -- must be answered.
    target = [^ CR LF]+ , name = [^: CR LF]+ , value = [^CR LF]* , EOL = CRLF | LF.  DONE is absorbing (content follows)."""
    lit = b'HTTP/'

    def step(s, b):
        if s == 'DONE' or s == 'DEAD':
            return s
        if s == 'sp':
            return 'tgt0' if b == SP else 'DEAD'
        if s == 'tgt0':
            return 'tgt' if b not in (SP, CR, LF) else 'DEAD'
        if s == 'tgt':
            if b == SP:
                return ('lit', 0)
            return 'tgt' if b not in (CR, LF) else 'DEAD'
        if isinstance(s, tuple) and s[0] == 'lit':
            if b != lit[s[1]]:
                return 'DEAD'
            return ('lit', s[1] + 1) if s[1] + 1 < len(lit) else 'maj0'
        if s == 'maj0':
            return 'maj' if b in DIG else 'DEAD'
        if s == 'maj':
            return 'maj' if b in DIG else ('min0' if b == DOT else 'DEAD')
        if s == 'min0':
            return 'min' if b in DIG else 'DEAD'
        if s == 'min':
            return 'min' if b in DIG else ('rl_cr' if b == CR else ('fs' if b == LF else 'DEAD'))
        if s == 'rl_cr':
            return 'fs' if b == LF else 'DEAD'
        if s == 'fs':
            if b == CR:
                return 'end_cr'
            if b == LF:
                return 'DONE'
            return 'name' if b != COLON else 'DEAD'
        if s == 'end_cr':
            return 'DONE' if b == LF else 'DEAD'
        if s == 'name':
            if b == COLON:
                return 'val'
            return 'name' if b not in (CR, LF) else 'DEAD'
        if s == 'val':
            if b == CR:
                return 'val_cr'
            if b == LF:
                return 'fs'
            return 'val'
        if s == 'val_cr':
            return 'fs' if b == LF else 'DEAD'
        return 'DEAD'
    return 'sp', step, (lambda s: s == 'DONE')


def http_upper():
    """The most lenient reading of 'request line, header lines, empty line' -- anything outside it must NOT be answered:
    SP [^ ]* SP "HTTP/" d* "." (d|CR)* LF  ( CR* [^CR LF][^: CR LF]* ":" [^LF]* LF )*  CR* LF  .*"""
    lit = b'HTTP/'

    def step(s, b):
        if s in ('DONE', 'DEAD'):
            return s
        if s == 'sp':
            return 'tgt' if b == SP else 'DEAD'
        if s == 'tgt':
            return ('lit', 0) if b == SP else 'tgt'
        if isinstance(s, tuple) and s[0] == 'lit':
            if b != lit[s[1]]:
                return 'DEAD'
            return ('lit', s[1] + 1) if s[1] + 1 < len(lit) else 'maj'
        if s == 'maj':
            return 'maj' if b in DIG else ('min' if b == DOT else 'DEAD')
        if s == 'min':
            if b in DIG or b == CR:
                return 'min'
            return 'fs' if b == LF else 'DEAD'
        if s == 'fs':
            if b == CR:
                return 'fs'
            if b == LF:
                return 'DONE'
            return 'name'
        if s == 'name':
            if b == COLON:
                return 'val'
            return 'name' if b not in (CR, LF) else 'DEAD'
        if s == 'val':
            return 'fs' if b == LF else 'val'
        return 'DEAD'
    return 'sp', step, (lambda s: s == 'DONE')


def ssh_lower():
    """'SSH-' [0-9.]+ '-' software [SP comment] CR LF ; software = ([^ CR LF] | lone CR)+ , comment = ([^CR LF] | lone CR)*"""
    lit = b'SSH-'

    def step(s, b):
        if s in ('DONE', 'DEAD'):
            return s
        if isinstance(s, tuple) and s[0] == 'lit':
            if b != lit[s[1]]:
                return 'DEAD'
            return ('lit', s[1] + 1) if s[1] + 1 < len(lit) else 'ver0'
        if s == 'ver0':
            return 'ver' if (b in DIG or b == DOT) else 'DEAD'
        if s == 'ver':
            if b in DIG or b == DOT:
                return 'ver'
            return 'soft0' if b == DASH else 'DEAD'
        if s == 'soft0':
            return 'soft' if b not in (SP, CR, LF) else 'DEAD'
        if s == 'soft':
            if b == CR:
                return 'soft_cr'
            if b == SP:
                return 'cmt'
            return 'soft' if b != LF else 'DEAD'
        if s == 'soft_cr':
            if b == LF:
                return 'DONE'
            if b == CR:
                return 'soft_cr'
            if b == SP:
                return 'cmt'
            return 'soft'
        if s == 'cmt':
            if b == CR:
                return 'cmt_cr'
            return 'cmt' if b != LF else 'DEAD'
        if s == 'cmt_cr':
            if b == LF:
                return 'DONE'
            if b == CR:
                return 'cmt_cr'
            return 'cmt'
        return 'DEAD'
    return ('lit', 0), step, (lambda s: s == 'DONE')


def ssh_upper():
    """Anything answered must be 'SSH-' [0-9.]* '-' <bytes> CR LF <anything>: identification terminated by CR LF."""
    lit = b'SSH-'

    def step(s, b):
        if s in ('DONE', 'DEAD'):
            return s
        if isinstance(s, tuple) and s[0] == 'lit':
            if b != lit[s[1]]:
                return 'DEAD'
            return ('lit', s[1] + 1) if s[1] + 1 < len(lit) else 'ver'
        if s == 'ver':
            if b in DIG or b == DOT:
                return 'ver'
            return 'body' if b == DASH else 'DEAD'
        if s == 'body':
            return 'cr' if b == CR else 'body'
        if s == 'cr':
            if b == LF:
                return 'DONE'
            return 'cr' if b == CR else 'body'
        return 'DEAD'
    return ('lit', 0), step, (lambda s: s == 'DONE')
