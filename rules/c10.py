"""C10 — protocol identification is decided by leading bytes against the signature set (structural part only)."""
from rules.common import *
from rules.c12 import patterns, flags_val

ANCHOR_BEGIN, ANCHOR_END, WILDCARDS = 1, 2, 4


def run(ctx):
    F = ctx.facts()
    rep = ctx.rep
    rep.not_decided += ['THE CORE CLAUSE: that the matcher compiled at run time by Smack::compile() recognises exactly the registered signatures for every byte string and every segmentation (deciding it needs the behaviour of the compiler algorithm, not the shape of the code)',
                        'observed outside static reach: the signature 00 01 ** 21 12 a4 42 is shadowed when its third byte is 00 (wildcard fix-up of the compiled automaton)']
    pf, pats = patterns(F)
    rp = F.fn('proto::repl')
    rep.saw(pf, rp)

    r1 = rep.rule('C10-R1', 'registration and dispatch agree: ids registered = ids dispatched = 1..=8; the handler of an id lives in the module that defines the signature constant(s) registered under it; HTTP signatures are built as "<verb> /" from HTTP_VERBS', floor=10)
    # dispatch map
    disp = None
    for bi in range(rp.n):
        se = rp.switch_edges(bi)
        if se and not rp.blocks[bi]['cleanup'] and len(se[2]) >= 6 and calls_in(se[0], r'Smack::search_next$'):
            disp = (bi, se)
    if disp is None:
        raise AnalysisError('proto::repl: dispatch switch not found')
    dbi, (dexpr, edges, vals) = disp
    handlers = {}
    for (s, v) in edges:
        if v is None:
            continue
        t = rp.blocks[s]['term']
        # the arm head calls the handler directly
        b = s
        seen = set()
        while rp.blocks[b]['term']['k'] != 'call' and len(rp.succ[b]) == 1 and b not in seen:
            seen.add(b)
            b = rp.succ[b][0]
        t = rp.blocks[b]['term']
        handlers[v] = ((t['resolved'] or [t['callee']])[0] if t['k'] == 'call' else None, b)
    reg = collections.defaultdict(list)
    for (bi, p, pid, fl) in pats:
        reg[pid].append((bi, p, fl))
    rep.check(r1, sorted(reg) == sorted(handlers) == list(range(1, 9)), 'id-sets', 'registered ids %s, dispatched ids %s' % (sorted(reg), sorted(handlers)), rp.loc(dbi))
    for pid in sorted(set(reg) | set(handlers)):
        h = handlers.get(pid, (None, None))[0]
        mods = set()
        for (bi, p, fl) in reg.get(pid, []):
            if isinstance(p, tuple) and p[0] == 'bytes' and len(p) > 3 and p[3]:
                mods.add('::'.join(p[3].split('::')[:-1]))
            else:
                # built at run time: HTTP
                its = [pf.argv(b, 0) for b, t in pf.calls(r'\[T\]>::iter$')]
                if any(isinstance(x, tuple) and x[0] == 'const' and x[2] and x[2].endswith('HTTP_VERBS') for e in its for x in walk(e)):
                    mods.add('proto::http')
        ok = h is not None and len(mods) == 1 and h.startswith(list(mods)[0] + '::')
        rep.check(r1, ok, 'id=%s' % pid, 'signature constant(s) defined in %s, handler %s' % (sorted(mods), h), rp.loc(handlers[pid][1]) if pid in handlers else '')
    # HTTP pattern construction: "{} /" with the verb
    http = [(bi, p, fl) for (bi, p, fl) in reg.get(1, [])]
    okh = len(http) == 1
    if okh:
        fm = fmt_of(http[0][1])
        okh = fm is not None and fm[0] == [('arg', 0), ('lit', ' /')]
    rep.check(r1, okh, 'http-signature-shape', 'HTTP signatures are format!("{} /", verb): %s' % okh, pf.loc(http[0][0]) if http else '')
    # every handler receives the payload, configuration, client info and control block unchanged
    for pid, (h, b) in sorted(handlers.items()):
        args = [peel(rp.argv(b, i), unwraps=False) for i in range(4)] if h else []
        rep.check(r1, args == [('param', 1), ('param', 2), ('param', 3), ('param', 4)], 'handler-args:id=%s' % pid, '%s(%s)' % (h, ', '.join(short(a) for a in args)), rp.loc(b))

    r2 = rep.rule('C10-R2', 'every registered signature is anchored at the first payload byte; "*" bytes occur exactly in the signatures registered with the WILDCARDS flag; the literal signatures are the published ones', floor=11)
    for (bi, p, pid, fl) in pats:
        key = 'sig@%s' % (p[3].split('::')[-1] if isinstance(p, tuple) and p[0] == 'bytes' and len(p) > 3 and p[3] else 'HTTP')
        ok = fl is not None and (fl & ANCHOR_BEGIN) == ANCHOR_BEGIN
        det = 'flags %s' % fl
        if isinstance(p, tuple) and p[0] == 'bytes':
            bs = bytes.fromhex(p[1])
            ok = ok and ((b'*' in bs) == bool(fl & WILDCARDS))
            det += ', pattern %r' % bs
        rep.check(r2, ok, key, det, pf.loc(bi))
    # the dispatcher matches bytes exactly (no case folding): signatures are byte strings, 'get /' is not 'GET /'
    nw = pf.calls(r'Smack::new$')
    cs = [const_val(pf.argv(b, 1)) for b, _ in nw]
    rep.check(r2, cs == [0], 'matcher:case-sensitive', 'Smack::new(.., nocase=%s) for the protocol matcher (required: one matcher, nocase=false)' % cs, pf.loc(nw[0][0]) if nw else '')
    lit = {p[3].split('::')[-1]: bytes.fromhex(p[1]) for (_, p, _, _) in pats if isinstance(p, tuple) and p[0] == 'bytes' and len(p) > 3 and p[3]}
    want = {'SSH_PATTERN_CLIENT_PROTOCOL_2': b'SSH-2.0', 'SSH_PATTERN_CLIENT_PROTOCOL_1': b'SSH-1.99', 'GHOST_PATTERN_SIGNATURE': b'Gh0st',
            'SMB1_PATTERN_MAGIC': b'\x00\x00**\xffSMB', 'SMB2_PATTERN_MAGIC': b'\x00\x00**\xfeSMB'}
    for k, v in want.items():
        rep.check(r2, lit.get(k) == v, 'published:' + k, 'constant = %r (published %r)' % (lit.get(k), v))
    for k in ['STUN_PATTERN_MAGIC', 'STUN_PATTERN_EMPTY', 'STUN_PATTERN_CHANGE_REQUEST']:
        v = lit.get(k, b'')
        rep.check(r2, v[:2] == b'\x00\x01', 'published:' + k, 'starts with the Binding Request type 00 01: %r' % v[:8])
    rep.check(r2, lit.get('STUN_PATTERN_MAGIC', b'')[4:8] == b'\x21\x12\xa4\x42', 'published:stun-magic-cookie', 'bytes 4..8 = 21 12 a4 42')
    for k, off in [('RPC_CALL_TCP', 4), ('RPC_CALL_UDP', 0)]:
        v = lit.get(k, b'')
        # xid(4 any) msgtype 0 rpcvers 00 00 00 * program 00 01 86 * version * procedure 00 00 00 *
        ok = len(v) == 24 + off and v[off:off + 4] == b'****' and v[off + 4:off + 8] == b'\x00\x00\x00\x00' and v[off + 8:off + 11] == b'\x00\x00\x00' and v[off + 12:off + 15] == b'\x00\x01\x86'
        rep.check(r2, ok, 'published:' + k, 'xid any, message type 0, program 0x000186**: %r' % v)

    r3 = rep.rule('C10-R3', 'the dispatch id depends only on the payload bytes, the flow\'s own matcher state / sticky id, and the compiled signature table - on no port, address or configuration field', floor=1)
    bad = []
    for x in walk(dexpr):
        if isinstance(x, tuple) and x[0] == 'param' and x[1] in (2, 3):
            bad.append(short(x))
        if isinstance(x, tuple) and x[0] == 'entry':
            r_ = Fn.root_of(x[1])
            nm = [p[1] for p in Fn.path_of(x[1]) if p[0] == 'f']
            inner = x[1]
            # entry:(*(arg4 as Some).0).proto_id / smack_state only
            if not (nm[-1:] in (['proto_id'], ['smack_state']) and any(y == ('param', 4) for y in walk(inner))):
                bad.append(short(x)[:60])
    rep.check(r3, not bad, 'dispatch-slice', 'dispatch id = %s ; foreign inputs: %s' % (short(dexpr)[:160], bad), rp.loc(dbi))

    r4 = rep.rule('C10-R4', 'matcher state handling: over TCP the state is loaded from the flow, advanced from payload offset 0 and stored back, and the id is sticky; datagrams start from BASE_STATE at offset 0 and try the end anchor only after NO_MATCH', floor=5)
    wp = walker_resume_problems(F)
    rep.check(r4, not wp, 'walker:resumes-from-saved-state', 'Smack::search_next continues from the saved row / cursor and never re-arms the begin anchors on a new segment: %s' % (wp or 'ok'))
    sn = rp.calls(r'Smack::search_next$')
    tcp_sn = [b for b, t in sn if 'smack_state' in short(rp.argv(b, 1))]
    udp_sn = [b for b, t in sn if b not in tcp_sn]
    ok = len(tcp_sn) == 1 and len(udp_sn) == 1
    rep.check(r4, ok, 'two-search-sites', 'search_next sites: TCP %d, datagram %d' % (len(tcp_sn), len(udp_sn)))
    if ok:
        b = tcp_sn[0]
        st = peel(rp.argv(b, 1), unwraps=False)
        okl = isinstance(st, tuple) and st[0] == 'entry' and Fn.path_of(st[1])[-1:] == [('f', 'smack_state')]
        rep.check(r4, okl and peel(rp.argv(b, 2)) == ('param', 1) and const_val(rp.argv(b, 3)) == 0, 'tcp:load-state', 'search_next(state <- %s, data <- %s, offset <- %s)' % (short(st), short(rp.argv(b, 2)), short(rp.argv(b, 3))), rp.loc(b))
        # written back after the call
        wb = []
        for bi, blk in enumerate(rp.blocks):
            for i, s_ in enumerate(blk['stmts']):
                fl = [p['f'] for p in s_['lhs']['p'] if isinstance(p, dict) and 'f' in p]
                if fl[-1:] == ['smack_state'] and not blk['cleanup']:
                    v = rp.rvalue(s_['rv'], (bi, i))
                    wb.append((bi, any(isinstance(y, tuple) and y[0] == 'modby' and y[1].endswith('search_next') for y in walk(v))))
        rep.check(r4, len(wb) == 1 and wb[0][1] and wb[0][0] in rp.reachable(b), 'tcp:store-state', 'flow state written back from the value advanced by search_next: %s' % wb, rp.loc(wb[0][0]) if wb else '')
        # sticky id: search only when proto_id == PROTO_NONE; id written from search result or reset to NONE in the default arm
        g = eq_edges(rp, lambda a, c: isinstance(peel(a), tuple) and peel(a)[0] == 'entry' and Fn.path_of(peel(a)[1])[-1:] == [('f', 'proto_id')] and const_val(c) == 0)
        rep.check(r4, bool(g) and not rp.must_pass(g, [b]), 'tcp:sticky-id', 'the matcher runs only while proto_id == PROTO_NONE: %s' % (bool(g) and not rp.must_pass(g, [b])), rp.loc(b))
        # ... and an id that selects no responder (signature not complete yet / NO_MATCH) is not kept: on the default
        # arm of the dispatch the flow's id goes back to PROTO_NONE, so the next segment continues the match
        oth = [s_ for (s_, v_) in edges if v_ is None]
        resets = []
        for bi2 in (dominated(rp, oth[0]) if oth else ()):
            for i2, s2 in enumerate(rp.blocks[bi2]['stmts']):
                fl = [p['f'] for p in s2['lhs']['p'] if isinstance(p, dict) and 'f' in p]
                if fl[-1:] == ['proto_id'] and const_val(rp.rvalue(s2['rv'], (bi2, i2))) == 0:
                    resets.append(bi2)
        okr = bool(resets)
        if okr:
            # on every path through the default arm with a control block
            r_ = rp.reachable(oth[0], removed_blocks=resets)
            tcb_none = rp.gate_edges(lambda d, v, vals: isinstance(d, tuple) and d[0] == 'discr' and any(y == ('param', 4) for y in walk(d)) and ((v is None and vals == [1]) or v == 0))
            r_ = rp.reachable(oth[0], removed_blocks=resets, removed_edges=tcb_none)
            okr = not any(x in r_ for x in rp.return_blocks())
        rep.check(r4, okr, 'tcp:undecided-keeps-matching', 'default arm of the dispatch resets the flow id to PROTO_NONE on every path with a control block: %s' % okr, rp.loc(oth[0]) if oth else '')
        ub = udp_sn[0]
        rep.check(r4, const_val(rp.argv(ub, 1)) == 0 and peel(rp.argv(ub, 2)) == ('param', 1) and const_val(rp.argv(ub, 3)) == 0, 'udp:fresh-state', 'search_next(BASE_STATE, data, 0): %s' % [short(rp.argv(ub, i)) for i in (1, 2, 3)], rp.loc(ub))
        # TCP/datagram split on tcb
        some = rp.gate_edges(lambda d, v, vals: isinstance(d, tuple) and d[0] == 'discr' and peel(d[1]) == ('param', 4) and v == 1)
        none = rp.gate_edges(lambda d, v, vals: isinstance(d, tuple) and d[0] == 'discr' and peel(d[1]) == ('param', 4) and ((v is None and vals == [1]) or v == 0))
        rep.check(r4, bool(some) and bool(none) and not rp.must_pass(some, [b]) and not rp.must_pass(none, [ub]), 'split-on-control-block', 'incremental matching iff a control block is passed')
    # PROTO_SMACK is the table consulted
    tab = [short(rp.arg(b, 0)) for b, t in sn]
    ders = rp.calls(resolved_re=r'PROTO_SMACK as std::ops::Deref>::deref$')
    rep.check(r4, len(ders) >= 2, 'table', 'the PROTO_SMACK table is dereferenced %d times for the searches' % len(ders))

    # R5: ingredients of the compiled matcher that the structural claim leans on (necessary conditions, decided by
    # dataflow; the compiler as a whole is NOT verified)
    r5 = rep.rule('C10-R5', 'matcher compiler ingredients: the symbol table is injective on characters (incl. the two virtual anchor characters): it stores, compares and indexes with the character itself; the anchor flags of the automaton only ever accumulate (never overwritten by a later pattern); the wildcard fix-up rewrites every column of a row', floor=4)
    S_ = 'smack::smack::Smack::'
    a = F.fn(S_ + 'add_symbol')
    rep.saw(a)
    cmpk = [peel(rp_, unwraps=False) for rp_ in []]
    cmp_ok = False
    for bi in range(a.n):
        se = a.switch_edges(bi)
        if se and not a.blocks[bi]['cleanup'] and isinstance(se[0], tuple) and se[0][0] == 'bin' and se[0][1] in ('Eq', 'Ne') and 'symbol_to_char' in short(se[0]):
            cmp_ok = peel(se[0][3]) == ('param', 2) or peel(se[0][2]) == ('param', 2)
    st_val = None
    for bi, b in enumerate(a.blocks):
        if b['cleanup']:
            continue
        for i, st in enumerate(b['stmts']):
            if st['lhs']['p'] and st['lhs']['p'][0] == 'deref' and len(st['lhs']['p']) == 1:
                tgt = a.value_of_local(st['lhs']['l'], (bi, i))
                if 'symbol_to_char' in short(tgt):
                    st_val = peel(a.rvalue(st['rv'], (bi, i)))
    idx_ok = any('char_to_symbol' in short(a.argv(b_, 0)) and peel(a.argv(b_, 1)) == ('param', 2) for b_, t_ in a.calls(r'IndexMut::index_mut$|IndexMut<I>>::index_mut$'))
    rep.check(r5, cmp_ok and st_val == ('param', 2) and idx_ok, 'symbol-table', 'add_symbol compares with, stores and indexes by the character itself: compare %s, stored %s, forward index %s' % (cmp_ok, short(st_val) if st_val is not None else None, idx_ok), '%s:%d' % (a.file, a.line))
    from rules.c12 import field_writes
    ap = F.fn(S_ + 'add_pattern')
    rep.saw(ap)
    for fld in ['is_anchor_begin', 'is_anchor_end']:
        ws = [v for _, _, v in field_writes(ap, fld)]

        def accum(v, fld=fld):
            if const_val(v) == 1:
                return True
            v = peel(v)
            return isinstance(v, tuple) and v[0] == 'bin' and v[1] == 'BitOr' and any(isinstance(peel(x), tuple) and peel(x)[0] == 'entry' and Fn.path_of(peel(x)[1])[-1:] == [('f', fld)] and Fn.root_of(peel(x)[1]) == ('deref', ('param', 1)) for x in (v[2], v[3]))
        rep.check(r5, bool(ws) and all(accum(v) for v in ws), 'anchor-flag:' + fld, 'writes: %s (each must be `true` or `self.%s | ..`)' % ([short(v)[:50] for v in ws], fld), '%s:%d' % (ap.file, ap.line))
    # the two virtual characters are distinct from each other and from every byte, and inside the alphabet
    consts_ = {}
    for fid_, g_ in F.fns.items():
        if not fid_.startswith('smack::'):
            continue
        for b_ in g_.blocks:
            for st_ in b_['stmts']:
                for o_ in [st_['rv'].get('a'), st_['rv'].get('b')] + list(st_['rv'].get('ops', [])):
                    if isinstance(o_, dict) and o_.get('k') == 'const' and str(o_.get('name', '')).startswith('smack::smack_constants::') and isinstance(o_.get('val'), int):
                        consts_[o_['name'].split('::')[-1]] = o_['val']
            t_ = b_['term']
            for o_ in (t_.get('args', []) if t_['k'] == 'call' else []):
                if isinstance(o_, dict) and o_.get('k') == 'const' and str(o_.get('name', '')).startswith('smack::smack_constants::') and isinstance(o_.get('val'), int):
                    consts_[o_['name'].split('::')[-1]] = o_['val']
    cs_, ce_, al_ = consts_.get('CHAR_ANCHOR_START'), consts_.get('CHAR_ANCHOR_END'), consts_.get('ALPHABET_SIZE')
    rep.check(r5, None not in (cs_, ce_, al_) and cs_ != ce_ and 256 <= cs_ < al_ and 256 <= ce_ < al_, 'anchor-chars-distinct',
              'CHAR_ANCHOR_START = %s, CHAR_ANCHOR_END = %s, ALPHABET_SIZE = %s (required: distinct, >= 256, < ALPHABET_SIZE)' % (cs_, ce_, al_))
    # the final table gets one entry per (state row, character): no iteration of the fill loops skips the store, and what is stored is goto(row, c)
    s4 = F.fn(S_ + 'stage4_make_final_table')
    rep.saw(s4)
    stores = []
    for bi, t in s4.calls(r'IndexMut::index_mut$|IndexMut<I>>::index_mut$'):
        if 'transitions' not in short(s4.argv(bi, 0)):
            continue
        ev = s4.call_val(bi)
        for b2, blk in enumerate(s4.blocks):
            for i, st in enumerate(blk['stmts']):
                if st['lhs']['p'] == ['deref'] and not blk['cleanup'] and st['lhs']['l'] == t['dest']['l'] and not t['dest']['p']:
                    stores.append((bi, b2, peel(s4.rvalue(st['rv'], (b2, i)))))
    nexts = [bi for bi, t in s4.calls(r'Iterator::next$') if stores and bi in s4.dominators().get(stores[0][0], ())]
    ok = len(stores) == 1 and len(nexts) == 2
    det = 'stores into transitions: %d, enclosing loops: %d' % (len(stores), len(nexts))
    if ok:
        ib, sb, val = stores[0]
        inner = max(nexts, key=lambda b: len(s4.dominators()[b]))
        body = [x for x in s4.succ[s4.blocks[inner]['term']['target']] if ib in s4.reachable(x) and s4.blocks[x]['term']['k'] != 'unreachable' and x in s4.dominators()[ib]]
        skip = bool(body) and inner in s4.reachable(body[0], removed_blocks=[sb])
        isgoto = is_call(val, r'^smack::smack::Smack::goto$')
        rngs4 = [peel(s4.argv(b_, 0), unwraps=False) for b_, t_ in s4.calls(r'IntoIterator>::into_iter$|IntoIterator::into_iter$')]
        full4 = sorted(short(r_[2][1])[:40] for r_ in rngs4 if isinstance(r_, tuple) and r_[0] == 'agg' and str(r_[1]).endswith('Range::Range') and const_val(r_[2][0]) == 0)
        ok = bool(body) and not skip and isgoto and len(full4) == 2 and any('m_state_count' in x for x in full4) and any('ALPHABET_SIZE' in x or x == '258' for x in full4)
        det = 'an iteration can skip the store: %s; stored value is goto(row, c): %s; loop ranges from 0 up to %s' % (skip, isgoto, full4)
    rep.check(r5, ok, 'final-table-total', det, '%s:%d' % (s4.file, s4.line))
    fw = F.fn(S_ + 'fixup_wildcards')
    rep.saw(fw)
    rngs = [peel(fw.argv(b_, 0), unwraps=False) for b_, t_ in fw.calls(r'IntoIterator>::into_iter$|IntoIterator::into_iter$')]
    full = [r_ for r_ in rngs if isinstance(r_, tuple) and r_[0] == 'agg' and str(r_[1]).endswith('Range::Range') and const_val(r_[2][0]) == 0 and
            isinstance(peel(r_[2][1]), tuple) and peel(r_[2][1])[0] == 'bin' and peel(r_[2][1])[1] == 'Shl' and const_val(peel(r_[2][1])[2]) == 1 and 'row_shift' in short(peel(r_[2][1])[3])]
    rep.check(r5, len(full) == 1, 'wildcard-fixup-covers-row', 'the rewrite loop runs over all 1 << row_shift columns: %s' % [short(r_)[:60] for r_ in rngs], '%s:%d' % (fw.file, fw.line))

