"""C15 — STUN: binding requests get a success response reflecting the observed address."""
from rules.common import *
from vlib.layout import *
from rules.c12 import field_writes

S = 'proto::stun::'


def class_codec(F):
    """Parsed-field expressions of StunPacket::new and the exhaustive evaluation of its class/method decoder:
    -> dict(parsed, rng, answered (second bytes accepted as a request after 00), class_ok (RFC 5389 bits on all
    65536 leading byte pairs))"""
    new = F.fn(S + 'StunPacket::new')
    agg = None
    for bi, b in enumerate(new.blocks):
        for i, st in enumerate(b['stmts']):
            if st['rv']['k'] == 'agg' and st['rv'].get('adt', '').endswith('StunPacket') and not b['cleanup']:
                agg = new._through(new.rvalue(st['rv'], (bi, i)), (bi, i), 0)
    if agg is None:
        raise AnalysisError('StunPacket construction not found')
    names = [fl['name'] for fl in F.adts[S + 'StunPacket']['variants'][0]['fields']]
    parsed = dict(zip(names, agg[2]))

    def rng(e):
        e = peel(e, unwraps=False)
        if is_call(e, r'byteorder::ByteOrder>::read_u\d+$|ByteOrder::read_u\d+$'):
            s_ = peel(e[2][0], unwraps=False)
            if is_call(s_, r'Index<I>>::index$|Index::index$') and peel(s_[2][0]) == ('param', 1):
                r_ = peel(s_[2][1], unwraps=False)
                if isinstance(r_, tuple) and r_[0] == 'agg':
                    return tuple(const_val(x) for x in r_[2]), e[1].split('::')[-1], ('BigEndian' in e[1])
        return None

    def byte_leaf(b0, b1):
        def leaf(e):
            if isinstance(e, tuple) and e[0] == 'entry':
                p = Fn.path_of(e[1])
                if p and p[-1][0] == 'i':
                    c = const_val(p[-1][1])
                    return {0: b0, 1: b1}.get(c)
            # a multi-byte read over a constant range of the message (byteorder)
            r_ = rng(e)
            if r_ and r_[0][0] is not None and r_[0][1] is not None and 0 <= r_[0][0] < r_[0][1] <= 2:
                bs = [{0: b0, 1: b1}[k] for k in range(r_[0][0], r_[0][1])]
                if not r_[2]:
                    bs = list(reversed(bs))
                v = 0
                for x in bs:
                    v = (v << 8) | x
                return v
            return None
        return leaf
    answered = []
    okc = True
    try:
        for b1 in range(256):
            c = eval_expr(parsed['class'], byte_leaf(0, b1), 8) & 0xff
            m = eval_expr(parsed['method'], byte_leaf(0, b1), 16) & 0xffff
            if c == 0 and m == 1:
                answered.append(b1)
        for b0 in range(256):
            for b1 in range(0, 256, 1):
                c = eval_expr(parsed['class'], byte_leaf(b0, b1), 8) & 0xff
                if c != (((b0 & 1) << 1) | ((b1 >> 4) & 1)):
                    okc = False
    except KeyError:
        # class / method are not functions of the first two message bytes alone: not the RFC 5389 decoder
        answered, okc = [], False
    return {'parsed': parsed, 'rng': rng, 'answered': answered, 'class_ok': okc, 'new': new}


def attr_walk_checks(F):
    """The attribute walker sees exactly the attributes the message declares: the attribute region is
    data[20 .. 20 + message length], each step advances by 4 + the attribute's own declared length, and
    StunAttribute::len() is that declared length for every variant.  -> [(key, ok, detail, loc)]"""
    out = []
    cc = class_codec(F)
    new = cc['new']
    d = peel(cc['parsed'].get('data'), unwraps=False)
    while is_call(d, r'to_vec$'):
        d = peel(d[2][0], unwraps=False)
    ok = is_call(d, r'Index<I>>::index$|Index::index$') and peel(d[2][0]) == ('param', 1)
    det = short(cc['parsed'].get('data'))[:120]
    if ok:
        rg = peel(d[2][1], unwraps=False)
        ok = isinstance(rg, tuple) and rg[0] == 'agg' and str(rg[1]).endswith('ops::Range::Range') and const_val(rg[2][0]) == 20
        if ok:
            hi = peel(rg[2][1], casts=True)
            if isinstance(hi, tuple) and hi[0] == 'field' and hi[2] == '0':
                hi = hi[1]
            ok = isinstance(hi, tuple) and hi[0] == 'bin' and hi[1] in ('Add', 'AddWithOverflow') and \
                ((const_val(hi[2]) == 20 and cc['rng'](peel(hi[3], casts=True)) == ((2, 4), 'read_u16', True)) or
                 (const_val(hi[3]) == 20 and cc['rng'](peel(hi[2], casts=True)) == ((2, 4), 'read_u16', True)))
    out.append(('attributes:region', ok, 'attribute bytes = data[20 .. 20 + length field]: %s' % det, '%s:%d' % (new.file, new.line)))
    ln = F.fn(S + 'StunAttribute::len')
    rv = []
    for rb in ln.return_blocks():
        rv += palts(ln.ret_value(rb))
    okl = bool(rv) and all(isinstance(a, tuple) and a[0] == 'entry' and Fn.path_of(a[1])[-1:] == [('f', 'length')] and Fn.root_of(a[1]) == ('deref', ('param', 1)) for a in rv)
    nv = len(F.adts[S + 'StunAttribute']['variants'])
    okl = okl and len({tuple(p_ for p_ in Fn.path_of(a[1]) if p_[0] == 'v') for a in rv}) == nv
    out.append(('attributes:len', okl, 'StunAttribute::len() is the declared length field of each of the %d variants: %s' % (nv, [short(a)[:50] for a in rv]), '%s:%d' % (ln.file, ln.line)))
    ga = F.fn(S + 'StunPacket::get_attributes')
    steps = []
    for bi, b in enumerate(ga.blocks):
        if b['cleanup']:
            continue
        for i, st in enumerate(b['stmts']):
            if not st['lhs']['p'] and ga.locals[st['lhs']['l']]['ty'] == 'usize' and st['rv']['k'] in ('bin', 'use'):
                v = ga._through(ga.rvalue(st['rv'], (bi, i)), (bi, i), 0)
                if any(isinstance(x, tuple) and x and x[0] == 'cyc' for x in walk(v)) and calls_in(v, r'StunAttribute::len$'):
                    steps.append((bi, v))
    oks = False
    dets = 'cursor update not found'
    for bi, v in steps:
        def flat(e):
            e = peel(e, casts=True)
            if isinstance(e, tuple) and e[0] == 'field' and e[2] == '0':
                e = e[1]
            if isinstance(e, tuple) and e[0] == 'bin' and e[1] in ('Add', 'AddWithOverflow'):
                return flat(e[2]) + flat(e[3])
            return [e]
        terms = flat(v)
        c4 = [t for t in terms if const_val(t) == 4]
        ls = [t for t in terms if is_call(t, r'StunAttribute::len$')]
        rest = [t for t in terms if t not in c4 and t not in ls]
        oks = len(c4) == 1 and len(ls) == 1 and ((len(rest) == 1 and isinstance(rest[0], tuple) and rest[0][0] == 'phi') or
                                                 (not rest and any(isinstance(peel(ga.argv(b2, 1), unwraps=False), tuple) and 'RangeFrom' in short(ga.argv(b2, 1))[:40] and
                                                                   any(y == v for y in walk(ga.argv(b2, 1))) for b2, _ in ga.calls(r'Index<I>>::index$|Index::index$'))))
        dets = 'cursor <- %s' % short(v)[:100]
    # the slice form: rest = &rest[4 + attr.len()..]
    if not steps:
        for bi, t in ga.calls(r'Index<I>>::index$|Index::index$'):
            rg = peel(ga.argv(bi, 1), unwraps=False)
            if isinstance(rg, tuple) and rg[0] == 'agg' and 'RangeFrom' in str(rg[1]) and calls_in(rg, r'StunAttribute::len$'):
                e = peel(rg[2][0], casts=True)
                if isinstance(e, tuple) and e[0] == 'field':
                    e = e[1]
                oks = isinstance(e, tuple) and e[0] == 'bin' and e[1] in ('Add', 'AddWithOverflow') and const_val(e[2]) == 4 and is_call(peel(e[3], casts=True), r'StunAttribute::len$')
                dets = 'remaining slice starts at %s' % short(rg[2][0])[:80]
    out.append(('attributes:stride', oks, 'each step advances by 4 + the attribute\'s declared length: %s' % dets, '%s:%d' % (ga.file, ga.line)))
    return out


def run(ctx):
    F = ctx.facts()
    rep = ctx.rep
    rep.not_decided += ['behaviour on malformed attribute TLVs beyond not panicking (C01) and not answering (the parse error propagates)',
                        'the STUN method decoder mis-places method bits 4..11 (visible in the extracted expression); harmless because the dispatcher signature pins the first two bytes to 00 01']
    new = F.fn(S + 'StunPacket::new')
    rp = F.fn(S + 'repl')
    ser = F.fn('<%sStunPacket as std::convert::Into<std::vec::Vec<u8>>>::into' % S)
    rep.saw(new, rp, ser)

    r1 = rep.rule('C15-R1', 'transaction id, class/method bits and message length: the id is read from bytes 4..20 and written back at bytes 4..20; the response is class 2 / method 1 and serialises to 01 01; the request test accepts 00 01 and no other second byte; length = sum over attributes of 4 + value length, computed after the last attribute is added and before serialisation', floor=8)
    cc = class_codec(F)
    parsed, rng, answered, okc = cc['parsed'], cc['rng'], cc['answered'], cc['class_ok']
    rep.check(r1, rng(parsed['id']) == ((4, 20), 'read_u128', True), 'parse:id', 'id <- %s' % short(parsed['id']), '%s:%d' % (new.file, new.line))
    okl = rng(parsed['length']) == ((2, 4), 'read_u16', True)
    if not okl:
        # any other spelling of "bytes 2..4, big-endian": decided on the bits of the stored value
        from vlib.bits import BitEval

        def dsrc(e):
            if isinstance(e, tuple) and e[0] == 'entry' and isinstance(e[1], tuple) and e[1][0] == 'index' and e[1][1] in (('deref', ('param', 1)), ('param', 1)) and const_val(e[1][2]) is not None:
                return ('d%d' % const_val(e[1][2]), 8)
            return None
        b_ = BitEval(dsrc).bits(parsed['length'])
        okl = b_ is not None and list(b_)[:16] == [('in', 'd3', k) for k in range(8)] + [('in', 'd2', k) for k in range(8)] and all(x == 0 for x in list(b_)[16:])
    rep.check(r1, okl, 'parse:length', 'length <- %s' % short(parsed['length']))
    rep.check(r1, answered == [1], 'parse:request-test', 'with first byte 00, (class,method) == (0,1) exactly for second byte(s) %s' % [hex(x) for x in answered])
    # class bits follow RFC 5389 (C1 = byte0 bit0, C0 = byte1 bit4) on all 65536 combinations
    rep.check(r1, okc, 'parse:class-bits', 'class = (byte0 bit0, byte1 bit4) for all 65536 leading byte pairs: %s' % okc)
    # writer
    items = vec_layout(ser)
    offs = offsets(items)

    def fld_leaf(cls, meth):
        def leaf(e):
            if isinstance(e, tuple) and e[0] == 'field' and e[1] == ('param', 1):
                return {'class': cls, 'method': meth}.get(e[2])
            return None
        return leaf
    b0 = eval_expr(items[0]['value'], fld_leaf(2, 1), 16) & 0xff
    b1 = eval_expr(items[1]['value'], fld_leaf(2, 1), 16) & 0xff
    rep.check(r1, (b0, b1) == (1, 1), 'write:success-response', 'class 2 / method 1 serialises to %02x %02x (Binding Success Response = 01 01)' % (b0, b1), items[0]['loc'])
    cw = [const_val(v) for _, _, v in field_writes(rp, 'class')]
    mw = [const_val(v) for _, _, v in field_writes(rp, 'method')]
    rep.check(r1, cw == [2] and mw == [1], 'repl:class-method', 'response class %s method %s' % (cw, mw))
    # layout: b0 b1 length(2 be) id(16 be) attributes
    def be_of(it, fld, w):
        v = peel(it['value'], unwraps=False)
        if is_call(v, r'to_vec$'):
            v = peel(v[2][0], unwraps=False)
        return is_call(v, r'to_be_bytes$') and peel(v[2][0]) == ('field', ('param', 1), fld) and it['width'] == w
    ok = len(items) >= 5 and be_of(items[2], 'length', 2) and be_of(items[3], 'id', 16) and offs[2] == 2 and offs[3] == 4
    rep.check(r1, ok, 'write:header-layout', 'type(2) length@2(2) id@4(16) then attributes: %s' % ok, items[2]['loc'] if len(items) > 2 else '')
    last = items[-1]
    rep.check(r1, last['in_loop'] and 'attributes' in short(last['value']) and offs[4] == 20 if len(offs) > 4 else False, 'write:attributes-last', 'attributes are appended in a loop after the 20-byte header')
    idw = [peel(v) for _, _, v in field_writes(rp, 'id')]
    ok = len(idw) == 1 and isinstance(idw[0], tuple) and idw[0][0] == 'field' and idw[0][2] == 'id' and calls_in(idw[0], r'StunPacket::new$') != []
    rep.check(r1, ok, 'repl:id-copied', 'response.id <- %s' % [short(v)[:80] for v in idw])
    # set_length placement
    sl = rp.calls(r'StunPacket::set_length$')
    pushes = [b for b, t in rp.calls(r'Vec::<[^>]*>::push$') if 'attributes' in short(rp.arg(b, 0))]
    into = [b for b, t in rp.calls(resolved_re=r'StunPacket as std::convert::Into')]
    ok = len(sl) == 1 and len(pushes) == 1 and len(into) == 1
    if ok:
        after_sl = set()
        for s_ in rp.succ[sl[0][0]]:
            after_sl |= rp.reachable(s_)
        ok = pushes[0] not in after_sl and into[0] in after_sl and sl[0][0] in rp.reachable(pushes[0])
    rep.check(r1, ok, 'repl:length-after-attributes', 'set_length() runs after the attribute is added and before serialisation: %s' % ok, rp.loc(sl[0][0]) if sl else '')
    slf = F.fn(S + 'StunPacket::set_length')
    lw = [slf._through(v, (bi, i), 0) for bi, i, v in field_writes(slf, 'length')]
    ok = any(const_val(v) == 0 for v in lw) and any(calls_in(v, r'StunAttribute::len$') != [] and any(const_val(x) == 4 for x in walk(v)) for v in lw)
    rep.check(r1, ok, 'set_length:sum', 'length := 0; length += 4 + attr.len() for each attribute: %s' % [short(v)[:60] for v in lw])

    r2 = rep.rule('C15-R2', 'MAPPED-ADDRESS reflects the observed endpoint: built from client_info.ip.src / port.src, type 0x0001, family 1/2 and value length 8/20 selected by the address variant, serialised as type length reserved family port address', floor=6)
    mk = rp.calls(r'StunMappedAddressAttribute::new$')
    ok = rp.n_sites([b_ for b_, _ in mk]) == 1
    if ok:
        a0, a1 = peel(rp.argv(mk[0][0], 0)), peel(rp.argv(mk[0][0], 1))

        def ci(e, path):
            # client_info.<path>, unwrapped by unwrap() or by a pattern (`Some(ip)`: the payload field "0" of the variant)
            return isinstance(e, tuple) and e[0] == 'entry' and [p[1] for p in Fn.path_of(e[1]) if p[0] == 'f' and p[1] != '0'] == path and Fn.root_of(e[1]) == ('deref', ('param', 3))
        ok = all(ci(peel(rp.argv(b_, 0)), ['ip', 'src']) and ci(peel(rp.argv(b_, 1)), ['port', 'src']) for b_, _ in mk)
    rep.check(r2, ok, 'mapped:inputs', 'MAPPED-ADDRESS built from (%s, %s)' % ((short(a0), short(a1)) if mk else ('?', '?')), rp.loc(mk[0][0]) if mk else '')
    # the only attribute pushed is that one
    for b in pushes:
        v = rp.argv(b, 1)
        rep.check(r2, calls_in(v, r'StunMappedAddressAttribute::new$') != [] and isinstance(peel(v, unwraps=False), tuple) and 'MappedAddress' in peel(v, unwraps=False)[1], 'mapped:only-attribute', 'attribute pushed: %s' % short(v)[:80], rp.loc(b))
    nf = F.fn(S + 'StunMappedAddressAttribute::new')
    agg = None
    for bi, b in enumerate(nf.blocks):
        for i, st in enumerate(b['stmts']):
            if st['rv']['k'] == 'agg' and st['rv'].get('adt', '').endswith('StunMappedAddressAttribute') and not b['cleanup']:
                agg = nf._through(nf.rvalue(st['rv'], (bi, i)), (bi, i), 0)
    names = [fl['name'] for fl in F.adts[S + 'StunMappedAddressAttribute']['variants'][0]['fields']]
    fld = dict(zip(names, agg[2])) if agg else {}
    rep.check(r2, const_val(fld.get('type_')) == 1 and const_val(fld.get('reserved')) == 0 and peel(fld.get('port')) == ('param', 2) and peel(fld.get('ip')) == ('param', 1),
              'mapped:fields', 'type %s reserved %s port<-%s ip<-%s' % (short(fld.get('type_')), short(fld.get('reserved')), short(fld.get('port')), short(fld.get('ip'))))
    # length / family selected by the variant: evaluate new() for both variants
    V4 = 0
    sel = {}
    for bi in range(nf.n):
        se = nf.switch_edges(bi)
        if se and isinstance(se[0], tuple) and se[0][0] == 'discr' and peel(se[0][1]) == ('param', 1):
            sel[bi] = se
    lens = sorted(const_val(x) for x in palts(fld.get('length')) if const_val(x) is not None) if fld.get('length') else []
    fams = sorted(const_val(x) for x in palts(fld.get('protocol_family')) if const_val(x) is not None) if fld.get('protocol_family') else []
    # pair them through dominance: which constant is assigned on the V4 edge
    def on_v4(consts_wanted):
        dom = nf.dominators()
        got = {}
        for bi, b in enumerate(nf.blocks):
            for st in b['stmts']:
                if st['rv']['k'] == 'use' and st['rv']['a']['k'] == 'const' and st['rv']['a'].get('val') in consts_wanted:
                    for sb, se in sel.items():
                        for (s_, v) in se[1]:
                            if v == V4 and s_ in dom.get(bi, ()) and len(nf.pred[s_]) == 1:
                                got[st['rv']['a']['val']] = 'V4'
                            elif v != V4 and s_ in dom.get(bi, ()) and len(nf.pred[s_]) == 1:
                                got.setdefault(st['rv']['a']['val'], 'V6')
        return got
    g1 = on_v4({4, 16})
    g2 = on_v4({1, 2})
    lenexpr = fld.get('length')
    ok = g1.get(4) == 'V4' and g1.get(16) == 'V6' and g2.get(1) == 'V4' and g2.get(2) == 'V6' and any(const_val(x) == 4 for x in walk(lenexpr) if isinstance(x, tuple) and x[0] == 'const')
    rep.check(r2, ok, 'mapped:variant-selects', 'IPv4 -> family 1, value length 4+4; IPv6 -> family 2, value length 4+16: %s (length %s)' % (ok, short(lenexpr)[:80]))
    ms = F.fn('<&%sStunMappedAddressAttribute as std::convert::Into<std::vec::Vec<u8>>>::into' % S)
    it = vec_layout(ms)

    # byte-level wire layout (vlib.layout.byte_layout): independent of push / extend_from_slice / array-literal spelling
    head = [x for x in it if x['must']]
    tail = [x for x in it if not x['must']]
    hb = [x[0] for x in byte_layout(ms, head)]
    want = [('field', 'type_', 1), ('field', 'type_', 0), ('field', 'length', 1), ('field', 'length', 0), ('field', 'reserved', 0), ('field', 'protocol_family', 0),
            ('field', 'port', 1), ('field', 'port', 0)]
    # the address may be one unconditional append of a merged value, or one append per variant
    addr_items = list(tail)
    if len(hb) > 8 and not tail:
        addr_items = [head[-1]]
        hb = [x[0] for x in byte_layout(ms, head[:-1])]
    fields, problems = field_groups(ms, addr_items, lambda x: 'addr')
    order_ok = all(a['block'] in ms.reachable(h['block']) for a in addr_items for h in (head if tail else head[:-1]))
    rep.check(r2, hb == want and len(fields) == 1 and not problems and order_ok, 'mapped:wire-order',
              'header bytes %s (required type.be length.be reserved family port.be), then the address%s' % (['%s.%s' % (b[1], b[2]) if b[0] == 'field' else str(b) for b in hb], ('; ' + '; '.join(problems)) if problems else ''), '%s:%d' % (ms.file, ms.line))
    if addr_items:
        av = []
        for x in addr_items:
            av += palts(x['value'], unwraps=False)
        v4 = [a for a in av if calls_in(a, r'Ipv4Addr::octets$') and 'V4' in short(a)]
        v6 = [a for a in av if calls_in(a, r'Ipv6Addr::octets$') and 'V6' in short(a)]
        other = [a for a in av if a not in v4 and a not in v6 and not is_call(peel(a, unwraps=False), r'Vec::<[^>]*>::new$')]
        rep.check(r2, len(v4) == 1 and len(v6) == 1 and not other, 'mapped:port-and-address-bytes', 'port high byte then low byte (bit-exact, see wire-order); address = octets() of the variant payload (4 or 16 bytes)%s' % ('; other address alternatives: %s' % [short(a)[:60] for a in other] if other else ''))
    else:
        rep.bad(r2, 'mapped:port-and-address-bytes', 'no address bytes appended')

    r3 = rep.rule('C15-R3', 'the converse: a parsable message of class request / method binding from a known client address is always answered, and every CHANGE-REQUEST attribute reaches the change-port test', floor=2)
    from rules import silence
    silence.run_for(ctx, r3, ['proto::stun::repl'])
    # inside the attribute loop: from the ChangeRequest arm the change_port test is reached before the next iteration
    cp = [bi for bi in range(rp.n) if rp.switch_edges(bi) and not rp.blocks[bi]['cleanup'] and short(rp.switch_edges(bi)[0]).endswith('.change_port')]
    crq = rp.gate_edges(lambda d, v, vals: isinstance(d, tuple) and d[0] == 'discr' and 'next(' in short(d) and 'attributes' in short(rp.through_refs(d, 0)) and False)
    arm = []
    for bi in range(rp.n):
        se = rp.switch_edges(bi)
        if se and not rp.blocks[bi]['cleanup'] and isinstance(se[0], tuple) and se[0][0] == 'discr' and 'next(' in short(se[0]) and short(se[0]).startswith('discr(entry:*(next('):
            variants = [v['name'] for v in F.adts[S + 'StunAttribute']['variants']]
            for (s_, v) in se[1]:
                if v is not None and v < len(variants) and variants[v] == 'ChangeRequest':
                    arm.append(s_)
    nx = [b for b, t in rp.calls(r'::next$') if 'attributes' in short(rp.through_refs(rp.argv(b, 0), b))]
    ok = len(cp) == 1 and len(arm) == 1 and len(nx) == 1
    if ok:
        r_ = rp.reachable(arm[0], removed_blocks=cp)
        ok = nx[0] not in r_ and not any(x in r_ for x in rp.return_blocks())
    if not ok and not nx:
        # the same scan written as attributes.iter().any(|a| ..): the predicate must look at change_port of every
        # CHANGE-REQUEST it is shown, and the scan must run on every answered path
        variants = [v['name'] for v in F.adts[S + 'StunAttribute']['variants']]
        cr = variants.index('ChangeRequest')
        anyb = [(b, t) for b, t in rp.calls(r'Iterator>::any$|Iterator::any$') if 'attributes' in short(rp.argv(b, 0))]
        if len(anyb) == 1:
            cl = [x for x in walk(rp.argv(anyb[0][0], 1)) if isinstance(x, tuple) and x[0] == 'agg' and str(x[1]).startswith('closure:')]
            if len(cl) == 1 and cl[0][1][len('closure:'):] in F.fns:
                g = F.fn(cl[0][1][len('closure:'):])
                _, exits = fact_sim(g, lambda k: True)
                crx = [facts for (_, (_, facts)) in exits if any(isinstance(k, tuple) and k[0] == 'discr' and r_ == '==' and c_ == cr for (k, r_, c_) in facts)]
                tested = all(any(short(k).endswith('.change_port') for (k, r_, c_) in facts) for facts in crx)
                if not tested:
                    # the predicate hands the flag back instead of branching on it: its value is change_port or the constant false
                    rv_ = [a_ for rb_ in g.return_blocks() for a_ in palts(g.ret_value(rb_))]
                    tested = bool(rv_) and all(const_val(a_) == 0 or short(a_).endswith('.change_port') for a_ in rv_) and any(short(a_).endswith('.change_port') for a_ in rv_)
                r_ = rp.reachable(0, removed_blocks=[anyb[0][0]])
                ok = bool(crx) and tested and not any(x in r_ for x in some_points(rp))
                cp = [anyb[0][0]]
    rep.check(r3, ok, 'change-port-test-always-reached', 'from the CHANGE-REQUEST arm every path tests change_port before the loop continues or the function returns: %s' % ok, rp.loc(cp[0]) if cp else '')

    r4 = rep.rule('C15-R4', 'the attributes that are honoured (CHANGE-REQUEST) are exactly those the message declares: attribute region = data[20 .. 20 + length], stride 4 + declared attribute length, len() = declared length for every variant', floor=3)
    for key, ok_, det_, loc_ in attr_walk_checks(F):
        rep.check(r4, ok_, key, det_, loc_)
    # CHANGE-REQUEST flags: change_port is bit 1 and change_ip bit 2 of the 32-bit flag word at value offset 0, each
    # decided by that bit alone (bit-exact, vlib/bits.py)
    from vlib.bits import BitEval
    tf = F.fn('<%sStunAttribute as std::convert::TryFrom<std::vec::Vec<u8>>>::try_from' % S)
    rep.saw(tf)
    cr = None
    for bi, b in enumerate(tf.blocks):
        for i, st in enumerate(b['stmts']):
            if st['rv']['k'] == 'agg' and st['rv'].get('adt', '').endswith('StunChangeRequestAttribute') and not b['cleanup']:
                cr = tf._through(tf.rvalue(st['rv'], (bi, i)), (bi, i), 0)
    okf, detf = False, 'ChangeRequest construction not found'
    if cr is not None:
        names = [fl['name'] for fl in F.adts[S + 'StunChangeRequestAttribute']['variants'][0]['fields']]
        d_ = dict(zip(names, cr[2]))

        def wsrc(e):
            if is_call(e, r'ByteOrder>::read_u32$|ByteOrder::read_u32$') and 'BigEndian' in e[1]:
                sl = peel(e[2][0], unwraps=False)
                if is_call(sl, r'Index<I>>::index$|Index::index$'):
                    rg = peel(sl[2][1], unwraps=False)
                    if isinstance(rg, tuple) and rg[0] == 'agg' and [const_val(x) for x in rg[2]] == [4, 8]:
                        return ('flagword', 32)
            return None
        be_ = BitEval(wsrc)
        bp, bi_ = be_.bits(d_.get('change_port')), be_.bits(d_.get('change_ip'))
        okf = bp == [('in', 'flagword', 1)] and bi_ == [('in', 'flagword', 2)]
        detf = 'change_port <- bit %s, change_ip <- bit %s of the big-endian flag word v[4..8] (required: bit 1 / bit 2 alone)' % (bp, bi_)
    rep.check(r4, okf, 'change-request:flag-bits', detf, '%s:%d' % (tf.file, tf.line))
    dispatch_sound(ctx, 'C15', 'a binding request reaches the STUN responder')
    no_abort_in(ctx, 'C15', r'proto::stun::', 'answering STUN')
    # the change-port answer leaves from (dport + 1) mod 2^16 only if the UDP layer uses the port the responder chose
    # whatever its value: a test on a port value there (a "never send from port 0" fallback) breaks the wrap at 65535.
    # C19-R2 decides "no branch of udp::repl depends on a port value" on the same facts.
    borrowed_rule(ctx, 'C15', 'RP', 'the UDP layer sends from the port the STUN responder left in ClientInfo whatever its value: no branch of udp::repl depends on a port number (C19-R2 layer_4::udp::repl:branches, same facts)',
                  'C19', lambda r_, k_: r_ == 'C19-R2' and k_ == 'layer_4::udp::repl:branches', floor=1)


