"""C20 — the event log is a faithful, balanced account of every frame."""
import re
from vlib.core import *
from rules.common import borrowed_rule, alts, is_call, calls_in, peel, short

LAYERS = {
    'layer_2::reply': 'eth', 'layer_2::arp::repl': 'arp', 'layer_3::ipv4::repl': 'ipv4',
    'layer_3::ipv6::repl': 'ipv6', 'layer_4::icmpv4::repl': 'icmpv4', 'layer_4::icmpv6::repl': 'icmpv6',
    'layer_4::tcp::repl': 'tcp', 'layer_4::udp::repl': 'udp',
}
LOWER = set(LAYERS) | {'proto::repl'}
PROTOS = ['arp', 'eth', 'ipv4', 'ipv6', 'icmpv4', 'icmpv6', 'tcp', 'udp']
EVENTS = ['recv', 'drop', 'send']


def opt_tag(rv):
    if rv['k'] == 'agg' and rv.get('agg') == 'adt' and rv.get('adt') == 'std::option::Option':
        return rv['variant']
    return None


def balance(ctx, F, fid, proto, rid):
    """P4: abstract state (recv 0..2, terminal '',recv-kind,'multi', lower-called-before-recv flag, ret tag, tags of locals)."""
    rep = ctx.rep
    f = F.fn(fid)
    rep.saw(f)
    problems = []

    def on_stmt(bi, i, s, st):
        recv, term, ret, tags = st
        lhs, rv = s['lhs'], s['rv']
        if lhs['p']:
            return st
        tags = dict(tags)
        tg = opt_tag(rv)
        val = None
        if tg:
            val = tg
        elif rv['k'] == 'use' and rv['a']['k'] in ('move', 'copy') and not rv['a']['place']['p']:
            val = tags.get(rv['a']['place']['l'])
        elif rv['k'] == 'agg' and rv.get('agg') == 'tuple' and rv['ops'] and rv['ops'][0]['k'] in ('move', 'copy') \
                and not rv['ops'][0]['place']['p']:
            val = tags.get(rv['ops'][0]['place']['l'])
        if lhs['l'] == 0:
            ret = val or '?'
        else:
            if val:
                tags[lhs['l']] = val
            else:
                tags.pop(lhs['l'], None)
        return (recv, term, ret, frozenset(tags.items()))

    def on_term(bi, t, st):
        recv, term, ret, tags = st
        if t['k'] != 'call':
            return st
        callee = t['resolved'][0] if t['resolved'] else t['callee']
        m = re.match(r'logger::meta::MetaLogger::(\w+)_(recv|drop|send)$', callee)
        if m and m.group(1) == proto:
            ev = m.group(2)
            if ev == 'recv':
                if term:
                    problems.append(('recv-after-terminal', f.loc(bi)))
                recv = min(recv + 1, 2)
            else:
                if recv == 0:
                    problems.append(('terminal-before-recv', f.loc(bi)))
                term = ev if term == '' else 'multi'
        elif m and m.group(1) != proto:
            problems.append(('foreign-layer-event:%s_%s' % (m.group(1), m.group(2)), f.loc(bi)))
        elif callee in LOWER and callee != fid:
            if recv == 0:
                problems.append(('lower-layer-before-recv:' + callee, f.loc(bi)))
            if term:
                problems.append(('lower-layer-after-terminal:' + callee, f.loc(bi)))
        tags = dict(tags)
        if not t['dest']['p']:
            tags.pop(t['dest']['l'], None)
        return (recv, term, ret, frozenset(tags.items()))

    init = (0, '', '?', frozenset())
    _, exits = f.simulate(init, on_stmt=on_stmt, on_term=on_term)
    summary = {}
    for (bi, st) in exits:
        recv, term, ret, _ = st
        summary.setdefault((recv, term, ret), []).append(bi)
    if not exits:
        raise AnalysisError('no return found in %s' % fid)
    for (recv, term, ret), bis in sorted(summary.items()):
        ok = recv == 1 and ((term == 'send' and ret == 'Some') or (term == 'drop' and ret == 'None'))
        key = '%s:return[recv=%d,terminal=%s,result=%s]' % (fid, recv, term or 'none', ret)
        rep.check(rid, ok, key,
                  'layer %s: a path returns %s after %d recv event(s) and terminal event %r (need exactly one recv, then exactly one terminal, send iff Some)'
                  % (proto, ret, recv, term or 'none'), f.loc(bis[0]))
    for (what, loc) in sorted(set(problems)):
        rep.bad(rid, '%s:%s' % (fid, what), 'event ordering: ' + what, loc)



def meta_forward_iter(F, f, p, ev):
    """The forwarding loop written as an iterator chain: one filter whose closure returns exactly the
       <p>_enabled() of its element, one for_each over that filter whose closure calls <p>_<ev> once on
       every path, and no other Logger call anywhere in the function or its closures."""
    flt = f.calls(r'Iterator::filter$')
    fe = f.calls(r'Iterator::for_each$')
    if len(flt) != 1 or len(fe) != 1:
        return False, 'neither the for-loop nor the filter/for_each forwarding idiom (%d filter, %d for_each calls)' % (len(flt), len(fe))

    def clos(e):
        e = peel(e)
        return e[1][len('closure:'):] if isinstance(e, tuple) and e[0] == 'agg' and str(e[1]).startswith('closure:') else None
    src = peel(f.argv(fe[0][0], 0))
    if not is_call(src, r'Iterator::filter$'):
        return False, 'for_each does not consume the filter'
    base = peel(f.argv(flt[0][0], 0))
    if not (is_call(base, r'::iter$|into_iter$') and 'loggers' in short(base)):
        return False, 'filter is not applied to the logger list: %s' % short(base)[:80]
    c0, c1 = clos(f.argv(flt[0][0], 1)), clos(f.argv(fe[0][0], 1))
    if not c0 or not c1 or c0 not in F.fns or c1 not in F.fns:
        return False, 'filter/for_each arguments are not closures of this function'
    g0, g1 = F.fn(c0), F.fn(c1)
    others = [c for c in F.fns if c.startswith(f.id + '::{closure') and c not in (c0, c1)]
    v0 = [(bi, t) for bi, t in g0.calls() if t['trait'] == 'logger::Logger']
    v1 = [(bi, t) for bi, t in g1.calls() if t['trait'] == 'logger::Logger']
    if others or [t['name'] for _, t in v0] != ['%s_enabled' % p] or [t['name'] for _, t in v1] != ['%s_%s' % (p, ev)]:
        return False, 'closures call %s / %s' % ([t['name'] for _, t in v0], [t['name'] for _, t in v1])
    rets = g0.return_blocks()
    want = g0.call_val(v0[0][0])
    if not rets or any(peel(g0.ret_value(rb)) != want for rb in rets):
        return False, 'the filter predicate is not exactly the enabled() result'
    evb = v1[0][0]
    if any(rb in g1.reachable(0, removed_blocks=[evb]) for rb in g1.return_blocks()):
        return False, 'the for_each body can return without the event call'
    # once: the call block is not on a cycle
    succs = set()
    for sx in g1.succ[evb]:
        succs |= g1.reachable(sx)
    if evb in succs:
        return False, 'the event call sits in a loop'
    return True, 'iterator idiom: filter(%s_enabled) . for_each(%s_%s)' % (p, p, ev)

def run(ctx):
    F = ctx.facts()
    rep = ctx.rep
    rep.not_decided += ['that values printed (Display of addresses) are rendered correctly by pnet/std']

    r1 = rep.rule('C20-R1', 'per layer function, every path to a return logs exactly one recv then exactly one terminal event of its own layer; terminal is send iff a reply is returned; lower layers are entered between them', floor=8)
    for fid, proto in LAYERS.items():
        balance(ctx, F, fid, proto, r1)

    # R1b: MetaLogger forwards each event to the same-named Logger method, once, under <proto>_enabled
    r1b = rep.rule('C20-R1b', 'MetaLogger::<p>_<ev> forwards to Logger::<p>_<ev> exactly once per logger, gated by <p>_enabled', floor=24)
    for p in PROTOS:
        for ev in EVENTS:
            fid = 'logger::meta::MetaLogger::%s_%s' % (p, ev)
            f = F.fn(fid)
            rep.saw(f)
            virt = [(bi, t) for bi, t in f.calls() if t['trait'] == 'logger::Logger']
            names = sorted(t['name'] for _, t in virt)
            ok = names == sorted(['%s_enabled' % p, '%s_%s' % (p, ev)])
            detail = 'Logger methods called: %s' % names
            if not virt:
                # iterator idiom: loggers.iter().filter(|l| l.<p>_enabled()).for_each(|l| l.<p>_<ev>(..))
                ok, detail = meta_forward_iter(F, f, p, ev)
                if ok:
                    rep.saw(*[c for c in F.fns if c.startswith(fid + '::{closure')])
            elif ok:
                en = [bi for bi, t in virt if t['name'].endswith('_enabled')][0]
                evb = [bi for bi, t in virt if not t['name'].endswith('_enabled')][0]
                enexpr = f.call_val(en)
                gate = f.gate_edges(lambda d, v, vals: d == enexpr and (v is None and vals == [0] or (v is not None and v != 0)))
                off = f.must_pass(gate, [evb])
                if off:
                    ok = False
                    detail += '; event call not gated by the enabled() true edge'
            rep.check(r1b, ok, fid, detail, '%s:%d' % (f.file, f.line))

    # R2: line discipline + R3 faithful labels of the prolog
    r2 = rep.rule('C20-R2', 'each Logger event method prints prolog(<proto>,<event>,crlf=false) first, then pieces without newline, and ends every path with exactly one newline-terminated print', floor=48)
    r3 = rep.rule('C20-R3', 'values printed by event methods derive only from the packet / ClientInfo parameters', floor=48)
    for logger in ['logger::console::ConsoleLogger', 'logger::logfmt::LogfmtLogger']:
        # prolog: crlf selects the line terminator, no other newline
        pf = F.fn(logger + '::prolog')
        rep.saw(pf)
        prints = pf.calls(r'std::io::_print$')
        okp = len(prints) == 1
        det = '%d print calls' % len(prints)
        if okp:
            fm = fmt_of(pf.argv(prints[0][0], 0))
            if not fm:
                okp = False
                det = 'cannot decode template'
            else:
                pieces, args = fm
                lits = ''.join(x[1] for x in pieces if x[0] == 'lit')
                last = pieces[-1]
                okp = '\n' not in lits and last[0] == 'arg'
                det = 'template %r' % (pieces,)
                if okp:
                    la = args[last[1]]
                    vals = set()
                    for a in alts(peel(la)):
                        a = peel(a)
                        if isinstance(a, tuple) and a[0] == 'bytes':
                            vals.add(bytes.fromhex(a[1]))
                    okp = b'\n' in vals and len(vals) == 2 and all(b'\n' not in v for v in vals - {b'\n'})
                    det += ' terminator alternatives %r' % sorted(vals)
                    # the newline alternative must be selected by crlf (param 4) == true
                    sw = [bi for bi in range(pf.n) if pf.switch_edges(bi) and peel(pf.switch_edges(bi)[0]) == ('param', 4)]
                    okp = okp and len(sw) >= 1
        rep.check(r2, okp, logger + '::prolog', det, '%s:%d' % (pf.file, pf.line))
        # client_info: no newline at all
        cf = F.fn(logger + '::client_info')
        rep.saw(cf)
        okc = True
        det = ''
        for bi, t in cf.calls(r'fmt::Arguments::<.*>::new$|from_str'):
            fm = fmt_of(cf.call_expr(bi))
            if fm is None:
                okc = False
                det = 'cannot decode'
                continue
            if any(x[0] == 'lit' and '\n' in x[1] for x in fm[0]):
                okc = False
                det = 'newline inside client_info piece %r' % (fm[0],)
        rep.check(r2, okc and len(cf.calls(r'std::io::_print$')) == 1, logger + '::client_info', det or 'one print, no newline', '%s:%d' % (cf.file, cf.line))
        if 'Console' in logger:
            # the console line is positional: its columns are the ClientInfo fields in the order of the logfmt keys
            # (mac src/dst, ip src/dst, transport, port src/dst), each column printing the field it tests
            r3c = rep.rule('C20-R3c', 'console client_info: seven tab-separated columns printing mac.src, mac.dst, ip.src, ip.dst, transport, port.src, port.dst in that order (the order of the logfmt keys)', floor=1)
            cols = []
            for bi, t in cf.calls(r'fmt::Arguments::<.*>::new$'):
                fm = fmt_of(cf.through_refs(cf.call_expr(bi), bi))
                if not fm or len(fm[1]) < 2:
                    continue
                for a in fm[1]:
                    paths = set()
                    for x in walk(a):
                        if isinstance(x, tuple) and x[0] == 'ref' and isinstance(x[1], tuple) and x[1][0] == 'local':
                            v_ = peel(cf.read(('local', x[1][1]), (bi, 0)), unwraps=False)
                            for y in walk(v_):
                                if isinstance(y, tuple) and y[0] == 'entry':
                                    e_ = y[1]
                                    pth = []
                                    while isinstance(e_, tuple) and e_[0] in ('field', 'variant', 'deref'):
                                        if e_[0] == 'field' and e_[2] != '0':
                                            pth.append(e_[2])
                                        e_ = e_[1]
                                    if e_ == ('param', 2):
                                        paths.add('.'.join(reversed(pth)))
                    cols.append(sorted(paths))
            want_cols = [['mac.src'], ['mac.dst'], ['ip.src'], ['ip.dst'], ['transport'], ['port.src'], ['port.dst']]
            rep.check(r3c, cols == want_cols, logger + '::client_info:columns', 'columns print %s' % cols, '%s:%d' % (cf.file, cf.line))
        if 'Logfmt' in logger:
            r3b = rep.rule('C20-R3b', 'logfmt client_info: each key=value label names the ClientInfo field whose value is printed', floor=7)
            for bi, t in cf.calls(r'fmt::Arguments::<.*>::new$'):
                fm = fmt_of(cf.through_refs(cf.call_expr(bi), bi))
                if not fm or len(fm[1]) != 1:
                    continue
                lit = ''.join(x[1] for x in fm[0] if x[0] == 'lit')
                m = re.match(r'^ (\w+)=$', lit)
                if not m:
                    continue
                label = m.group(1)
                a = peel(fm[1][0])
                path = []
                e = a
                if isinstance(e, tuple) and e[0] == 'entry':
                    e = e[1]
                while isinstance(e, tuple) and e[0] in ('field', 'variant', 'deref'):
                    if e[0] == 'field' and e[2] != '0':
                        path.append(e[2])
                    e = e[1]
                path.reverse()
                rep.check(r3b, '_'.join(path) == label and e == ('param', 2), logger + '::client_info:' + label,
                          'label %s prints %s' % (label, short(a)), cf.loc(bi))
            if logger.endswith('LogfmtLogger') and not [1 for i_ in rep.rules[r3b]['instances']]:
                # table form: [("key", c.<field>.map(to_string)), ...] folded into ' key=value' pieces
                tabs = []
                for bi, b in enumerate(cf.blocks):
                    for i, st in enumerate(b['stmts']):
                        if st['rv']['k'] == 'agg' and st['rv'].get('agg') == 'array' and not b['cleanup']:
                            v = cf._through(cf.rvalue(st['rv'], (bi, i)), (bi, i), 0)
                            if all(isinstance(x, tuple) and x[0] == 'agg' and x[1] == 'tuple' and len(x[2]) == 2 for x in v[2]) and v[2]:
                                tabs.append((bi, v))
                ps = [(b_, cf.argv(b_, 1)) for b_, t_ in cf.calls(r'String::push_str$')]
                keyp = [b_ for b_, a_ in ps if short(a_).endswith('.0.0')]
                valp = [b_ for b_, a_ in ps if '.0.1' in short(a_)]
                same_elem = len(keyp) == 1 and len(valp) == 1 and calls_in(ps[0][1], r'::next$') != [] and \
                    [c_[2] for c_ in calls_in(cf.argv(keyp[0], 1), r'::next$')] == [c_[2] for c_ in calls_in(cf.argv(valp[0], 1), r'::next$')]
                for bi, v in tabs[:1]:
                    for x in v[2]:
                        lab = peel(x[2][0])
                        label = bytes.fromhex(lab[1]).decode('latin1') if isinstance(lab, tuple) and lab[0] == 'bytes' else '?'
                        label = label.strip().rstrip('=')       # the key may carry its separator and '=' (" ip_src=")
                        ents = sorted(set(y for y in walk(x[2][1]) if isinstance(y, tuple) and y[0] == 'entry'), key=lambda y: len(short(y)))
                        # one field of the ClientInfo is read (its Option is tested and unpacked: the reads share one field path)
                        def fpath(y):
                            p_, e_ = [], y[1]
                            while isinstance(e_, tuple) and e_[0] in ('field', 'variant', 'deref'):
                                if e_[0] == 'field' and e_[2] != '0':
                                    p_.append(e_[2])
                                e_ = e_[1]
                            return tuple(reversed(p_)), e_
                        if len(set(fpath(y) for y in ents)) == 1:
                            ents = ents[:1]
                        path, e = [], (ents[0][1] if ents else None)
                        while isinstance(e, tuple) and e[0] in ('field', 'variant', 'deref'):
                            if e[0] == 'field' and e[2] != '0':
                                path.append(e[2])
                            e = e[1]
                        path.reverse()
                        rep.check(r3b, '_'.join(path) == label and e == ('param', 2) and same_elem and len(ents) == 1, logger + '::client_info:' + label,
                                  'table entry %s renders %s; key and value pushed from the same element: %s' % (label, short(x[2][1])[:60], same_elem), cf.loc(bi))
        for p in PROTOS:
            for ev in EVENTS:
                fid = '<%s as logger::Logger>::%s_%s' % (logger, p, ev)
                f = F.fn(fid)
                rep.saw(f)
                key = fid
                # sequence of output calls along every path (the bodies are straight-line apart from unwinding)
                seq = []
                b = 0
                seen = set()
                linear = True
                while True:
                    if b in seen:
                        linear = False
                        break
                    seen.add(b)
                    t = f.blocks[b]['term']
                    if t['k'] == 'call':
                        seq.append((b, t))
                    s = f.succ[b]
                    if len(s) == 0:
                        break
                    if len(s) > 1:
                        linear = False
                        break
                    b = s[0]
                if not linear:
                    rep.bad(r2, key, 'event method is not straight-line; line discipline not decidable here', '%s:%d' % (f.file, f.line))
                    continue
                outs = [(b, t) for b, t in seq if re.search(r'::prolog$|::client_info$|std::io::_print$', t['callee'])]
                ok = len(outs) >= 2 and outs[0][1]['callee'] == logger + '::prolog'
                det = []
                if ok:
                    b0 = outs[0][0]
                    a_proto, a_verb, a_crlf = peel(f.arg(b0, 1)), peel(f.arg(b0, 2)), f.arg(b0, 3)
                    sp = bytes.fromhex(a_proto[1]).decode() if a_proto[0] == 'bytes' else None
                    sv = bytes.fromhex(a_verb[1]).decode() if a_verb[0] == 'bytes' else None
                    if sp != p or sv != ev:
                        ok = False
                        det.append('prolog labels (%r,%r) do not name this event (%s,%s)' % (sp, sv, p, ev))
                    if const_val(a_crlf) != 0:
                        ok = False
                        det.append('prolog called with crlf != false')
                    # middle pieces: no prolog again, no newline; last: newline-terminated _print
                    for (bm, tm) in outs[1:-1]:
                        if tm['callee'].endswith('::prolog'):
                            ok = False
                            det.append('second prolog')
                        if tm['callee'].endswith('_print'):
                            fm = fmt_of(f.argv(bm, 0))
                            if not fm or any(x[0] == 'lit' and '\n' in x[1] for x in fm[0]):
                                ok = False
                                det.append('newline in a middle piece')
                    bl, tl = outs[-1]
                    if not tl['callee'].endswith('_print'):
                        ok = False
                        det.append('last output is not a print')
                    else:
                        fm = fmt_of(f.argv(bl, 0))
                        if not fm:
                            ok = False
                            det.append('cannot decode final template')
                        else:
                            pieces = fm[0]
                            lits = ''.join(x[1] for x in pieces if x[0] == 'lit')
                            if not (pieces and pieces[-1][0] == 'lit' and pieces[-1][1].endswith('\n') and lits.count('\n') == 1):
                                ok = False
                                det.append('final print is not terminated by exactly one newline: %r' % (pieces,))
                            # R3: printed values derive from params 2 (packet) / 3 (client info)
                            bad_args = []
                            for a in fm[1]:
                                roots = set()
                                for x in walk(a):
                                    if isinstance(x, tuple) and x[0] == 'param':
                                        roots.add(x[1])
                                    if isinstance(x, tuple) and x[0] == 'call' and x[3] is not None and not is_pure_getter(x[1]):
                                        roots.add('impure:' + x[1])
                                if not roots or not roots <= {2, 3}:
                                    bad_args.append(short(a))
                            rep.check(r3, not bad_args, key, 'printed values: %s' % ([short(a) for a in fm[1]],) if not bad_args else 'value not derived from the frame: %s' % bad_args, f.loc(bl))
                else:
                    det.append('outputs: %s' % [t['callee'].split('::')[-1] for _, t in outs])
                rep.check(r2, ok, key, '; '.join(det) or 'prolog(%s,%s,false) .. one newline-terminated print' % (p, ev), '%s:%d' % (f.file, f.line))

    # R4: "the addresses and ports printed are those of the frame": ClientInfo is what the loggers print; its only
    # rewrite after parsing (STUN change-port) must belong to an answer, otherwise drop events show a port the frame never had
    # the configured loggers do receive the events: add() stores the logger in the list that init() and every forwarder iterate,
    # and both concrete loggers have every layer enabled (their <p>_enabled() is the trait default `true`, or a field that new()
    # sets to true and nothing else writes)
    r6 = rep.rule('C20-R6', 'nothing is filtered away: MetaLogger::add pushes its argument into self.loggers; every <proto>_enabled() of ConsoleLogger / LogfmtLogger is true (a constant, or a flag that new() sets to true and no other function writes)', floor=17)
    ad = F.fn('logger::meta::MetaLogger::add')
    rep.saw(ad)
    pushes = [b_ for b_, t_ in ad.calls(r'Vec::<[^>]*>::push$') if 'loggers' in short(ad.argv(b_, 0)) and peel(ad.argv(b_, 1)) == ('param', 2)]
    reach_ = ad.reachable(0, removed_blocks=pushes)
    rep.check(r6, bool(pushes) and not any(x in reach_ for x in ad.return_blocks()), 'MetaLogger::add', 'add(log) pushes log into self.loggers on every path: %s' % bool(pushes), '%s:%d' % (ad.file, ad.line))
    for logger in ('logger::console::ConsoleLogger', 'logger::logfmt::LogfmtLogger'):
        short_ = logger.split('::')[-1]
        nw = F.fn(logger + '::new')
        inits = {}
        for bi, b in enumerate(nw.blocks):
            for i, st in enumerate(b['stmts']):
                if st['rv']['k'] == 'agg' and st['rv'].get('adt') == logger and not b['cleanup']:
                    names_ = [fl['name'] for fl in F.adts[logger]['variants'][0]['fields']]
                    v_ = nw._through(nw.rvalue(st['rv'], (bi, i)), (bi, i), 0)
                    inits = dict(zip(names_, [const_val(x) for x in v_[2]]))
        other_writers = set()
        for fid_, g_ in F.fns.items():
            if fid_ == logger + '::new':
                continue
            for (k_, ch_, bi_, l_, ty_, dr_) in field_accesses(g_):
                if k_ == 'w' and ch_ and ch_[-1][0] == logger:
                    other_writers.add((fid_, ch_[-1][1]))
        for proto in ('arp', 'eth', 'ipv4', 'ipv6', 'icmpv4', 'icmpv6', 'tcp', 'udp'):
            cands = [k for k in F.fns if k.endswith('::%s_enabled' % proto) and short_ in k]
            if not cands:
                rep.ok(r6, '%s::%s_enabled' % (short_, proto), 'not overridden: the trait default', '')
                dflt = F.fn('logger::Logger::%s_enabled' % proto) if ('logger::Logger::%s_enabled' % proto) in F.fns else None
                if dflt is not None:
                    rv_ = [const_val(dflt.ret_value(rb_)) for rb_ in dflt.return_blocks()]
                    rep.check(r6, rv_ == [1], 'Logger::%s_enabled:default' % proto, 'trait default returns %s' % rv_, '%s:%d' % (dflt.file, dflt.line))
                continue
            g = F.fn(cands[0])
            rvs = [peel(g.ret_value(rb_)) for rb_ in g.return_blocks()]
            ok = False
            det = 'returns %s' % [short(x) for x in rvs]
            if rvs and all(const_val(x) == 1 for x in rvs):
                ok = True
            elif len(rvs) == 1 and isinstance(rvs[0], tuple) and rvs[0][0] == 'entry':
                fld = [p_[1] for p_ in Fn.path_of(rvs[0][1]) if p_[0] == 'f']
                ok = len(fld) == 1 and inits.get(fld[0]) == 1 and not any(w_[1] == fld[0] for w_ in other_writers)
                det = 'returns self.%s; new() sets it to %s; other writers: %s' % (fld[0] if fld else '?', inits.get(fld[0]) if fld else None, sorted(w_[0] for w_ in other_writers if fld and w_[1] == fld[0]))
            rep.check(r6, ok, '%s::%s_enabled' % (short_, proto), det, '%s:%d' % (g.file, g.line))
    # what is printed is printed whole: no placeholder of a logger template carries a precision (`{:.15}` cuts the value)
    r3d = rep.rule('C20-R3d', 'the loggers print every value whole: no format placeholder in ConsoleLogger / LogfmtLogger has a precision (truncation)', floor=2)
    for logger in ('logger::console::ConsoleLogger', 'logger::logfmt::LogfmtLogger'):
        cut = []
        ntpl = 0
        for fid_, g_ in F.fns.items():
            if not fid_.startswith(logger) and ('<' + logger) not in fid_:
                continue
            for bi_, t_ in g_.calls(r'fmt::Arguments::<.*>::new$'):
                fm = fmt_of(g_.call_expr(bi_))
                if fm is None:
                    continue
                ntpl += 1
                if any(len(x) > 2 and x[0] == 'arg' and x[2] == 'prec' for x in fm[0]):
                    cut.append(g_.loc(bi_))
        rep.check(r3d, ntpl > 0 and not cut, logger.split('::')[-1] + ':no-truncation', '%d templates, placeholders with a precision at %s' % (ntpl, cut or 'none'), cut[0] if cut else '')
    r4 = rep.rule('C20-R4', 'ClientInfo (the source of every printed address/port) is rewritten by upper layers only on paths that produce a reply', floor=1)
    st = F.fn('proto::stun::repl')
    rep.saw(st)
    rty_ = st.locals[0]['ty']
    silent = [b2 for b2, blk2 in enumerate(st.blocks) if not blk2['cleanup'] and any(
        s2['rv']['k'] == 'agg' and s2['rv'].get('adt') == 'std::option::Option' and s2['rv'].get('variant') == 'None' and not s2['lhs']['p'] and st.locals[s2['lhs']['l']]['ty'] == rty_ for s2 in blk2['stmts'])]
    wr = []
    for bi, blk in enumerate(st.blocks):
        for s2 in blk['stmts']:
            ch = [p for p in s2['lhs']['p'] if isinstance(p, dict) and p.get('adt', '').endswith('ClientInfo')]
            if ch and not blk['cleanup']:
                wr.append(bi)
    bad = [b for b in wr for x in silent if x in st.reachable(b)]
    rep.check(r4, bool(wr) and not bad, 'stun::repl:rewrite-only-when-answering', '%d rewrite site(s); silent returns reachable afterwards: %d' % (len(wr), len(bad)), st.loc(wr[0]) if wr else '')
    # and no other function of the application layer writes ClientInfo (C03-R2 has the full table)
    others = []
    for fid in F.cone(['proto::repl']):
        if fid == 'proto::stun::repl':
            continue
        g_ = F.fn(fid)
        for (k, ch, bi, l, ty, dr) in field_accesses(g_):
            if k in ('w', 'rw') and any(a.endswith('ClientInfo') for a, _ in ch):
                others.append(fid)
    rep.check(r4, not others, 'app-layer:no-other-rewrite', 'other application-layer writers of ClientInfo: %s' % sorted(set(others)))

    # every event of one frame prints that frame's own addresses: the ClientInfo fields the loggers print are written once,
    # by the layer that parsed them, with the request's value (C03-R2 decides the full writer table on the same facts) - an
    # overwrite in mid-frame makes the later send events name a peer the earlier recv events did not
    borrowed_rule(ctx, 'C20', 'R4b', 'the ClientInfo fields printed with every event are written only by the layer that parsed them, with the value of the request field - never rewritten between the recv and the send events of a frame (C03-R2, same facts)',
                  'C03', lambda r_, k_: r_ == 'C03-R2', floor=12)

    # R7: a logged send is a frame on the wire.  The send events are logged inside layer_2::reply and below; whatever sits
    # between its return and the datalink sender must hand the frame on unchanged, or the log claims a reply nobody got.
    r7 = rep.rule('C20-R7', 'between layer_2::reply and the wire nothing drops or replaces the reply: the top-level reply() returns the result of layer_2::reply as it is (or None before calling it), and main() passes the frame returned by reply() to DataLinkSender::send_to', floor=2)
    top = F.fn('reply')
    mn = F.fn('main')
    rep.saw(top, mn)
    rv = [a for rb in top.return_blocks() for a in alts(top.ret_value(rb))]

    def _is_l2(a):
        return is_call(peel(a, unwraps=False), r'^layer_2::reply$')

    def _is_none(a):
        return isinstance(a, tuple) and a[0] == 'agg' and str(a[1]).endswith('Option::None')
    other = [short(a)[:80] for a in rv if not _is_l2(a) and not _is_none(a)]
    rep.check(r7, any(_is_l2(a) for a in rv) and not other, 'reply:returns-layer2-result', 'reply() returns %s' % ([short(a)[:60] for a in rv] if other else 'layer_2::reply(..) or None'), '%s:%d' % (top.file, top.line))
    snd = mn.calls(r'DataLinkSender::send_to$')
    oks = [bi for bi, t in snd if calls_in(mn.argv(bi, 1), r'^reply$') and is_call(peel(mn.argv(bi, 1), unwraps=False), r'::packet$')]
    rep.check(r7, len(snd) >= 1 and len(oks) == len(snd), 'main:sends-what-reply-returned', 'send_to sites: %d, sending packet() of the frame returned by reply(): %d' % (len(snd), len(oks)), mn.loc(snd[0][0]) if snd else '')

    # R5: a frame whose processing aborts leaves recv events without their terminal event - balance presupposes
    # that nothing between reply()'s entry and its return can panic, which is what the C01 inventory decides
    r5 = rep.rule('C20-R5', 'no abort between a recv event and its terminal event: every abort site reachable from reply() is discharged or reviewed (the C01 inventory, evaluated here on the same facts)', floor=1)
    from vlib.runner import borrow, load_known
    known1 = {k['key'] for k in load_known() if k.get('property') == 'C01' and k.get('status') == 'known'}
    sub = borrow(ctx, 'C01', lambda r_, k_: r_ in ('C01-R1', 'C01-R2', 'C01-R3', 'C01-R4'))
    bad = [(r_, i_) for r_, i_ in sub if not i_['ok'] and '%s:%s' % (r_, i_['key']) not in known1]
    rep.check(r5, bool(sub) and not bad, 'no-abort-mid-frame', '%d abort-site obligations evaluated, %d not established%s' % (len(sub), len(bad), (': ' + '; '.join('%s at %s' % (i_['key'][:80], i_['loc']) for _, i_ in bad[:3])) if bad else ''))

