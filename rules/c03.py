"""C03 — replies go back to the asker, from the identity that was asked."""
from rules.common import *

CI = 'client::client_info::ClientInfo'


def getter(name, cls=None):
    def p(e):
        e = peel(e)
        return is_call(e, r"(^|::)%s::<'a>::%s$" % (cls or r'\w+', name)) and peel(e[2][0]) == ('param', 1)
    return p


def arm_value(f, disc_pred, block):
    """Values of the dispatch switch (discriminant satisfying disc_pred) whose target dominates `block`."""
    dom = f.dominators()
    out = []
    found = False
    for bi in range(f.n):
        if f.blocks[bi]['cleanup']:
            continue
        se = f.switch_edges(bi)
        if not se or not disc_pred(se[0]):
            continue
        found = True
        for (s, v) in se[1]:
            if v is not None and s in dom.get(block, ()) and len(f.pred[s]) == 1:
                out.append(v)
    return found, out


def field0(pred):
    def p(d):
        return isinstance(d, tuple) and d[0] == 'field' and d[2] == '0' and pred(d[1])
    return p


def setter_sites(f, name):
    return [(bi, t) for bi, t in f.calls(r"::Mutable\w+Packet::<'a>::%s$" % name)]


def run(ctx):
    F = ctx.facts()
    rep = ctx.rep
    rep.not_decided += ['pnet setter/getter byte offsets (library: part of the trusted base)']
    r1 = rep.rule('C03-R1', 'every address / port / protocol field written into a reply has the mirrored provenance of the request', floor=20)

    def expect(f, setter, pred, what, count=1, key=None):
        sites = setter_sites(f, setter)
        k = key or '%s:%s' % (f.id, setter)
        if len(sites) != count and f.n_sites([b for b, _ in sites]) != count:
            rep.bad(r1, k, 'expected %d call(s) of %s, found %d' % (count, setter, len(sites)), '%s:%d' % (f.file, f.line))
            return
        for bi, t in sites:
            v = f.argv(bi, 1)
            rep.check(r1, pred(v, bi), k if len(sites) == 1 else '%s@%s' % (k, short(v)[:40]), '%s <- %s   (required: %s)' % (setter, short(v)[:160], what), f.loc(bi))

    # --- Ethernet
    l2 = F.fn('layer_2::reply')
    rep.saw(l2)
    expect(l2, 'set_source', lambda v, b: peel(v) == ('entry', ('field', ('deref', ('param', 2)), 'mac')), 'configured MAC (masscanned.mac)')
    expect(l2, 'set_destination', lambda v, b: getter('get_source', 'EthernetPacket')(v), "request's source MAC")
    is_et = field0(getter('get_ethertype', 'EthernetPacket'))
    for bi, t in setter_sites(l2, 'set_ethertype'):
        c = const_val(l2.arg(bi, 1))
        found, vals = arm_value(l2, is_et, bi)
        rep.check(r1, found and vals == [c], 'layer_2::reply:set_ethertype@%s' % c, 'EtherType written %s; dispatch values selecting this arm %s' % (c, vals), l2.loc(bi))
    rep.check(r1, len(setter_sites(l2, 'set_ethertype')) == 3, 'layer_2::reply:set_ethertype#', '%d set_ethertype sites' % len(setter_sites(l2, 'set_ethertype')))
    # all three set on the one reply object that is returned
    # --- IPv4
    v4 = F.fn('layer_3::ipv4::repl')
    rep.saw(v4)
    expect(v4, 'set_source', lambda v, b: getter('get_destination', 'Ipv4Packet')(v), "request's destination address")
    expect(v4, 'set_destination', lambda v, b: getter('get_source', 'Ipv4Packet')(v), "request's source address")
    expect(v4, 'set_version', lambda v, b: const_val(v) == 4, '4')
    is_np = field0(getter('get_next_level_protocol', 'Ipv4Packet'))
    sites = setter_sites(v4, 'set_next_level_protocol')
    rep.check(r1, len(sites) == 3, 'layer_3::ipv4::repl:set_next_level_protocol#', '%d sites' % len(sites))
    for bi, t in sites:
        c = const_val(v4.arg(bi, 1))
        found, vals = arm_value(v4, is_np, bi)
        rep.check(r1, found and vals == [c], 'layer_3::ipv4::repl:set_next_level_protocol@%s' % c, 'protocol written %s; dispatch values selecting this arm %s' % (c, vals), v4.loc(bi))
    # --- IPv6
    v6 = F.fn('layer_3::ipv6::repl')
    rep.saw(v6)
    expect(v6, 'set_destination', lambda v, b: getter('get_source', 'Ipv6Packet')(v), "request's source address")
    expect(v6, 'set_version', lambda v, b: const_val(v) == 6, '6')
    is_nh = field0(getter('get_next_header', 'Ipv6Packet'))
    sites = setter_sites(v6, 'set_next_header')
    rep.check(r1, len(sites) == 3, 'layer_3::ipv6::repl:set_next_header#', '%d sites' % len(sites))
    for bi, t in sites:
        c = const_val(v6.arg(bi, 1))
        found, vals = arm_value(v6, is_nh, bi)
        rep.check(r1, found and vals == [c], 'layer_3::ipv6::repl:set_next_header@%s' % c, 'next header written %s; dispatch values selecting this arm %s' % (c, vals), v6.loc(bi))

    def v6_source(v, b):
        al = palts(v)
        direct = [a for a in al if getter('get_destination', 'Ipv6Packet')(a)]
        nd = [a for a in al if isinstance(a, tuple) and a[0] == 'field' and a[2] == '1' and is_call(peel(a[1]), r'^layer_4::icmpv6::repl$')]
        return len(direct) == 1 and len(direct) + len(nd) == len(al) and len(nd) <= 1
    expect(v6, 'set_source', v6_source, "request's destination, or the solicited ND target returned by icmpv6::repl")
    # the ND substitution happens only on the ICMPv6 arm
    nd_defs = []
    ssb = setter_sites(v6, 'set_source')
    srcvar = var_feeding(v6, ssb[0][0], 1) if len(ssb) == 1 else None
    for bi, i, val in (defs_of_local(v6, srcvar) if srcvar is not None else []):
        if not getter('get_destination', 'Ipv6Packet')(val):
            nd_defs.append((bi, val))
    for bi, val in nd_defs:
        found, vals = arm_value(v6, is_nh, bi)
        rep.check(r1, vals == [58], 'layer_3::ipv6::repl:dst-substitution', 'dst reassigned to %s on arm %s (allowed: ICMPv6 only)' % (short(val)[:80], vals), v6.loc(bi))
    # whenever icmpv6::repl handed back an address (an answered solicitation), that address becomes the source
    from rules.c02 import track as _track
    nd_blocks = {bi for bi, _ in nd_defs}
    icmp_calls = {b for b, t in v6.calls(r'^layer_4::icmpv6::repl$')}

    def _flags_on_edge(bi, s, efs, flags):
        return flags | {'nd'} if s in nd_blocks else flags

    def _on_call(bi, t, flags):
        return flags | {'icmp'} if bi in icmp_calls else flags
    st6, _ = fact_sim(v6, lambda k: _track(k) or 'icmpv6::repl' in str(k) or 'repl(' in short(k), on_call=_on_call, on_edge_flags=_flags_on_edge)
    for bi, t in ssb:
        sts = st6.get(bi, set())
        bad = []
        for (flags, facts) in sts:
            if 'icmp' not in flags or 'nd' in flags:
                continue
            none_known = any(isinstance(k, tuple) and k[0] == 'discr' and isinstance(k[1], tuple) and k[1][0] == 'field' and k[1][2] == '1' and
                             ((rel == '!=' and c == 1) or (rel == '==' and c == 0)) for (k, rel, c) in facts)
            if not none_known:
                bad.append(sorted((short(k)[:50], rel, c) for (k, rel, c) in facts if 'repl' in short(k)))
        rep.check(r1, bool(sts) and not bad, 'layer_3::ipv6::repl:nd-target-always-used', 'on every ICMPv6 path the source is the address returned by icmpv6::repl unless it returned none: %d of %d path states violate this' % (len(bad), len(sts)), v6.loc(bi))
    # --- TCP / UDP ports
    for fid, cls in [('layer_4::tcp::repl', 'TcpPacket'), ('layer_4::udp::repl', 'UdpPacket')]:
        f = F.fn(fid)
        rep.saw(f)

        def port(which, getname):
            def p(v, b):
                # unwrap(client_info.port.<which>) whose reaching writes are: Some(req.get_<x>()) at entry, or an upper-layer write (R2)
                al = palts(v)
                own = [a for a in al if getter(getname, cls)(a)]
                mod = [a for a in al if isinstance(a, tuple) and a[0] == 'modby']
                return len(own) == 1 and len(own) + len(mod) == len(al)
            return p
        expect(f, 'set_source', port('dst', 'get_destination'), "client_info.port.dst = request's destination port (upper layers may rewrite: see R2)")
        expect(f, 'set_destination', port('src', 'get_source'), "client_info.port.src = request's source port")
        # and they are read from ClientInfo (so that the STUN rewrite is honoured)
        for setter, fld in [('set_source', 'dst'), ('set_destination', 'src')]:
            for bi, t in setter_sites(f, setter):
                raw = f.arg(bi, 1)
                rd = [x for x in walk(raw) if isinstance(x, tuple) and x[0] == 'modby']
                # (only where the application layer can have run before this site: a copy of the tail that belongs to a reply
                #  without payload processing has nothing to honour)
                upper = [b2 for b2, t2 in f.calls(r'^proto::repl$|^proto::tcb::get_tcb$') if bi in f.reachable(b2)]
                rep.check(r1, bool(rd) or not upper, '%s:%s-after-upper-layer' % (fid, setter), 'port is read from ClientInfo after the application layer ran: %s' % (bool(rd) or not upper), f.loc(bi))

    # R2 who may write ClientInfo
    r2 = rep.rule('C03-R2', 'ClientInfo is written only by the layer that parsed the field, with the value of the request field; the single upper-layer rewrite is the STUN change-port (+1 mod 2^16 under the change_port flag)', floor=12)
    WR = {
        'layer_2::reply': {'mac.src': ('get_source', 'EthernetPacket'), 'mac.dst': ('get_destination', 'EthernetPacket')},
        'layer_3::ipv4::repl': {'ip.src': ('get_source', 'Ipv4Packet'), 'ip.dst': ('get_destination', 'Ipv4Packet'), 'transport': ('get_next_level_protocol', 'Ipv4Packet')},
        'layer_3::ipv6::repl': {'ip.src': ('get_source', 'Ipv6Packet'), 'ip.dst': ('get_destination', 'Ipv6Packet'), 'transport': ('get_next_header', 'Ipv6Packet')},
        'layer_4::tcp::repl': {'port.src': ('get_source', 'TcpPacket'), 'port.dst': ('get_destination', 'TcpPacket'), 'cookie': None},
        'layer_4::udp::repl': {'port.src': ('get_source', 'UdpPacket'), 'port.dst': ('get_destination', 'UdpPacket')},
        'proto::stun::repl': {'port.dst': 'stun'},
    }
    seen = collections.defaultdict(set)
    for fid, f in sorted(F.fns.items()):
        if fid == 'client::client_info::ClientInfo::new' or fid.startswith('<client::client_info::ClientInfo'):
            continue
        for bi, b in enumerate(f.blocks):
            if b['cleanup']:
                continue
            for i, s in enumerate(b['stmts']):
                lhs = s['lhs']
                ch = [p for p in lhs['p'] if isinstance(p, dict) and 'f' in p]
                idx = [j for j, p in enumerate(ch) if p['adt'] == CI]
                whole = not idx and lhs['p'] and place_type(f, lhs) == CI
                mutborrow = s['rv']['k'] == 'ref' and s['rv'].get('mut') and any(
                    isinstance(p, dict) and p.get('adt') in (CI, 'client::client_info::ClientInfoSrcDst') for p in s['rv']['place']['p'])
                if mutborrow:
                    rep.bad(r2, fid + ':mut-borrow-of-field', 'mutable borrow of a ClientInfo field (untracked writer)', '%s:%d' % (f.file, s['line']))
                if whole:
                    rep.bad(r2, fid + ':whole-struct-write', 'ClientInfo overwritten as a whole', '%s:%d' % (f.file, s['line']))
                if not idx:
                    continue
                path = '.'.join(p['f'] for p in ch[idx[0]:][:2])
                seen[fid].add(path)
                table = WR.get(fid)
                key = '%s:%s' % (fid, path)
                val = f.rvalue(s['rv'], (bi, i))
                loc = '%s:%d' % (f.file, s['line'])
                if table is None or path not in table:
                    rep.bad(r2, key, 'unexpected writer of ClientInfo.%s (value %s)' % (path, short(val)[:80]), loc)
                    continue
                spec = table[path]
                if spec is None:
                    g = peel(val)
                    rep.check(r2, is_call(g, r'^synackcookie::generate$'), key, 'cookie <- %s' % short(val)[:80], loc)
                elif spec == 'stun':
                    v = peel(val)
                    ok = is_call(v, r'u16>::wrapping_add$') and const_val(v[2][1]) == 1
                    if ok:
                        base = peel(v[2][0])
                        ok = isinstance(base, tuple) and base[0] == 'entry' and Fn.path_of(base[1])[-2:] == [('f', 'port'), ('f', 'dst')]
                    # gate: change_port flag true
                    def flag_true(fs):
                        return any(isinstance(peel(k_), tuple) and peel(k_)[0] in ('entry', 'field') and 'change_port' in short(k_) and ((r_ == '!=' and c_ == 0) or (r_ == '==' and c_ == 1)) for (k_, r_, c_) in fs)
                    # the flag of the attribute at hand (true edge of the test dominates the write in the same loop
                    # iteration) ...
                    g = bool_edges(f, lambda d: isinstance(peel(d), tuple) and peel(d)[0] in ('entry', 'field') and 'change_port' in short(d), True)
                    off = f.must_pass(g, [bi]) if g else [bi]
                    if off:
                        # ... or `attributes.iter().any(|a| .. a.change_port)` established on every path state
                        at_ = path_states_at(f, [bi], lambda k_: True, stable_fn=lambda k_: is_call(peel(k_, unwraps=False), r'Iterator>::any$|Iterator::any$'))[bi]
                        off = not at_ or any(not (exists_element_with(F, f, fs, flag_true) is not None and 'attributes' in short(exists_element_with(F, f, fs, flag_true))) for fs in at_)
                    rep.check(r2, ok and not off, key, 'port.dst <- %s; under change_port==true on every path: %s' % (short(val)[:90], not off), loc)
                    # the rewrite belongs to an answer: from it no silent return is reachable
                    rty_ = f.locals[0]['ty']
                    silent = [b2 for b2, blk2 in enumerate(f.blocks) if not blk2['cleanup'] and any(
                        st2['rv']['k'] == 'agg' and st2['rv'].get('adt') == 'std::option::Option' and st2['rv'].get('variant') == 'None' and not st2['lhs']['p'] and f.locals[st2['lhs']['l']]['ty'] == rty_ for st2 in blk2['stmts'])]
                    r_ = f.reachable(bi)
                    rep.check(r2, not [b2 for b2 in silent if b2 in r_], key + ':only-when-answering', 'after the local port was rewritten the request is always answered (so no drop event / no silence carries the rewritten port): %s' % (not [b2 for b2 in silent if b2 in r_]), loc)
                else:
                    v = peel(val)
                    if path.startswith('ip.'):
                        want = 'std::net::IpAddr::V4' if 'ipv4' in fid else 'std::net::IpAddr::V6'
                        if isinstance(v, tuple) and v[0] == 'agg' and v[1] == want and len(v[2]) == 1:
                            v = peel(v[2][0])
                        else:
                            v = ('?wrong-wrapper',)
                    rep.check(r2, getter(spec[0], spec[1])(v), key, 'ClientInfo.%s <- %s (required: request.%s())' % (path, short(val)[:80], spec[0]), loc)
    for fid, table in WR.items():
        miss = set(table) - seen.get(fid, set())
        rep.check(r2, not miss, fid + ':writes-all', 'fields this layer must record: %s; missing: %s' % (sorted(table), sorted(miss)))
    # the layer's own writes precede the hand-over to the next layer (so upper layers and the cookie see them)
    for fid, table in WR.items():
        if fid == 'proto::stun::repl':
            continue
        f = F.fn(fid)
        lower = [bi for bi, t in f.calls() if (t['resolved'] or [t['callee']])[0] in
                 ('layer_2::arp::repl', 'layer_3::ipv4::repl', 'layer_3::ipv6::repl', 'layer_4::tcp::repl', 'layer_4::udp::repl',
                  'layer_4::icmpv4::repl', 'layer_4::icmpv6::repl', 'proto::repl', 'proto::tcb::get_tcb', 'synackcookie::generate')]
        wblocks = collections.defaultdict(list)
        for bi, b in enumerate(f.blocks):
            if b['cleanup']:
                continue
            for s in b['stmts']:
                ch = [p for p in s['lhs']['p'] if isinstance(p, dict) and 'f' in p]
                idx = [j for j, p in enumerate(ch) if p['adt'] == CI]
                if idx:
                    wblocks['.'.join(p['f'] for p in ch[idx[0]:][:2])].append(bi)
        for path, bls in wblocks.items():
            if path == 'cookie':
                continue
            reach = f.reachable(0, removed_blocks=bls)
            late = [b for b in lower if b in reach]
            rep.check(r2, not late, '%s:%s-before-handover' % (fid, path), 'calls into other layers reachable before ClientInfo.%s is recorded: %s' % (path, [f.loc(b) for b in late]))

    # R3 one frame out per frame in
    r3 = rep.rule('C03-R3', 'exactly one transmit site in the crate: main() sends the frame returned by reply(), once per received frame', floor=3)
    sends = []
    for fid, f in F.fns.items():
        for bi, t in f.calls(r'DataLinkSender::send_to$|DataLinkSender::build_and_send$|::send_to$'):
            sends.append((fid, bi))
    rep.check(r3, [s[0] for s in sends] == ['main'], 'send-sites', 'transmit call sites: %s' % [(a, F.fn(a).loc(b)) for a, b in sends])
    if sends and sends[0][0] == 'main':
        m = F.fn('main')
        sb = sends[0][1]
        pkt = m.argv(sb, 1)
        rc = m.calls(r'^reply$')
        okp = len(rc) == 1 and bool(calls_in(pkt, r'^reply$'))
        rep.check(r3, okp, 'send-arg', 'transmitted bytes = %s' % short(pkt)[:120], m.loc(sb))
        if len(rc) == 1:
            rb = rc[0][0]
            # no cycle through the send block that avoids the reply() call
            reach = set()
            for s in m.succ[sb]:
                reach |= m.reachable(s, removed_blocks=[rb])
            rep.check(r3, sb not in reach, 'send-once-per-reply', 'send_to can be re-entered without a new reply(): %s' % (sb in reach), m.loc(sb))
            # reply's argument is the received packet
            a0 = m.argv(rb, 0)
            rep.check(r3, bool(calls_in(a0, r'DataLinkReceiver::next$')), 'reply-arg', 'reply() is given %s' % short(a0)[:100], m.loc(rb))

    # the change-port rewrite is driven by attributes: they must be exactly the ones the request declares (C15-R4)
    from rules import c15 as _c15
    for key, ok_, det_, loc_ in _c15.attr_walk_checks(F):
        rep.check(r2, ok_, 'stun:' + key, det_, loc_)
    hand_over_sound(ctx, 'C03')


