"""C07 — TCP data is accepted only behind a valid cookie; seq/ack arithmetic is exact."""
from rules.common import *
from rules.c06 import req


def run(ctx):
    F = ctx.facts()
    rep = ctx.rep
    rep.not_decided += ['semantics of u32::wrapping_add / wrapping_sub and HashMap (std, trusted)', 'cookie collisions between flows']
    tcp, table, heads, label = tcp_arms(F)
    rep.saw(tcp)
    data_heads = [h for h, l in label.items() if l == 'data']
    fin_heads = [h for h, l in label.items() if l == 'finack']

    r3 = rep.rule('C07-R3', 'exhaustive flag table: PSH|ACK supersets -> data arm, exactly FIN|ACK -> FIN|ACK reply, bare ACK and bare RST (and everything else without SYN policy) -> drop', floor=512)
    for v in range(512):
        got, want = label[table[v]], flag_policy(v)
        rep.check(r3, got == want, 'flags=%#05x' % v, 'selected arm: %s, reference: %s' % (got, want), tcp.loc(table[v]))
    rep.extra['exhaustive'] = True
    # drop arms are silent
    for h, l in label.items():
        if l == 'drop':
            reach = tcp.reachable(h)
            bad = [b for b in some_points(tcp) if b in reach]
            rep.check(r3, not bad, 'drop-arm(%d values):silent' % len(heads[h]), 'reply construction reachable from a drop arm: %s' % bool(bad), tcp.loc(h))

    r1 = rep.rule('C07-R1', 'data arm: the connection table entry is created / the application layer is entered only when the flow is already validated (is_tcb_set(cookie)) or cookie == ack-1 (mod 2^32), cookie = generate(client_info, key) of this frame; a mismatch leads only to silence', floor=5)
    if len(data_heads) != 1:
        rep.bad(r1, 'data-arm', 'expected one data arm, found %d' % len(data_heads))
        return
    dh = data_heads[0]
    gen = [(bi, t) for bi, t in tcp.calls(r'^synackcookie::generate$') if bi in dominated(tcp, dh)]
    ok = len(gen) == 1
    rep.check(r1, ok, 'data:cookie-computed-once', '%d generate() calls on the data arm' % len(gen), tcp.loc(gen[0][0]) if gen else tcp.loc(dh))
    if not ok:
        return
    gexpr = tcp.call_val(gen[0][0])
    gb = gen[0][0]
    rep.check(r1, peel(tcp.argv(gb, 0)) == ('param', 3) and Fn.path_of(peel(tcp.argv(gb, 1), unwraps=False))[-1:] == [('f', 'synack_key')],
              'data:cookie-inputs', 'generate(%s, %s)' % (short(tcp.argv(gb, 0)), short(tcp.argv(gb, 1))), tcp.loc(gb))
    cookie = ('field', ('variant', gexpr, 'Ok'), '0')

    def is_cookie(e):
        return peel(e) == peel(cookie)
    eq = eq_edges(tcp, lambda a, b: is_cookie(a) and is_ack_minus_one(tcp, b))
    ne = ne_edges(tcp, lambda a, b: is_cookie(a) and is_ack_minus_one(tcp, b))
    known = bool_edges(tcp, lambda d: is_call(peel(d, unwraps=False), r'^proto::tcb::is_tcb_set$') and is_cookie(peel(d, unwraps=False)[2][0]), True)
    # generate() failing: the cookie field keeps its entry value (None: fresh ClientInfo, tcp::repl is the only writer - C08-R2),
    # so client_info.cookie.unwrap() diverges before get_tcb is reached
    err = tcp.gate_edges(lambda d, v, vals: d == ('discr', gexpr) and ((v is not None and v != 0) or (v is None and vals == [0])))
    rep.check(r1, bool(eq) and bool(ne) and bool(known), 'data:tests-present', 'cookie==ack-1 test: %s, already-validated test: %s' % (bool(eq), bool(known)), tcp.loc(dh))
    addb = [bi for bi, t in tcp.calls(r'^proto::tcb::add_tcb$')]
    getb = [bi for bi, t in tcp.calls(r'^proto::tcb::get_tcb$')]
    # path-sensitive: on every path state reaching the site the comparison cookie == ack-1 was established
    def pair(a, b):
        return is_cookie(a) and is_ack_minus_one(tcp, b)

    def cmp_key(k):
        return isinstance(k, tuple) and k[0] == 'bin' and k[1] in ('Eq', 'Ne') and (pair(k[2], k[3]) or pair(k[3], k[2]))

    def known_true(facts):
        for (k, r_, c_) in facts:
            kk = peel(k, unwraps=False)
            if is_call(kk, r'^proto::tcb::is_tcb_set$') and is_cookie(kk[2][0]) and ((r_ == '!=' and c_ == 0) or (r_ == '==' and c_ == 1)):
                return True
        return False

    def gen_failed(facts):
        return any(k == ('discr', gexpr) and ((r_ == '==' and c_ != 0) or (r_ == '!=' and c_ == 0)) for (k, r_, c_) in facts)
    at = path_states_at(tcp, addb + getb, lambda k: True, stable_fn=cmp_key)
    off = [b for b in addb if not at[b] or any(cmp_fact(fs, pair) != 'eq' for fs in at[b])]
    rep.check(r1, len(addb) == 1 and not off, 'data:add_tcb-validated', 'add_tcb reachable on a path state without cookie == ack-1: %s (%d path states)' % (bool(off), sum(len(at[b]) for b in addb)), tcp.loc(addb[0]) if addb else '')
    for b in addb:
        rep.check(r1, is_cookie(tcp.argv(b, 0)), 'data:add_tcb-key', 'add_tcb(%s)' % short(tcp.argv(b, 0))[:80], tcp.loc(b))
    off = [b for b in getb if not at[b] or any(not (cmp_fact(fs, pair) == 'eq' or known_true(fs) or gen_failed(fs)) for fs in at[b])]
    rep.check(r1, len(getb) == 1 and not off, 'data:app-layer-validated', 'get_tcb/application layer reachable on a path that is neither already-validated nor cookie==ack-1: %s' % bool(off), tcp.loc(getb[0]) if getb else '')
    # reply construction on the data arm also lies behind validation
    spd = [b for b in some_points(tcp)]
    datab = dominated(tcp, dh)
    # the write of the cookie field that get_tcb later reads
    w = []
    for bi, b in enumerate(tcp.blocks):
        if b['cleanup']:
            continue
        for i, s in enumerate(b['stmts']):
            ch = [p for p in s['lhs']['p'] if isinstance(p, dict) and p.get('f') == 'cookie']
            if ch:
                w.append((bi, peel(tcp.rvalue(s['rv'], (bi, i)))))
    rep.check(r1, len(w) == 1 and is_cookie(w[0][1]), 'data:cookie-recorded', 'client_info.cookie <- %s' % [short(x[1])[:60] for x in w], tcp.loc(w[0][0]) if w else '')
    for b in getb:
        al = palts(tcp.argv(b, 0))
        okk = all(is_cookie(a) or (isinstance(a, tuple) and a[0] == 'entry') for a in al) and any(is_cookie(a) for a in al)
        rep.check(r1, okk, 'data:get_tcb-key', 'get_tcb key alternatives: %s' % [short(a)[:60] for a in al], tcp.loc(b))
    # mismatch => silence
    # path-sensitive: no path state on which cookie != ack-1 was established reaches a reply, the table or the
    # application layer (the mismatch may be detected inside a helper and reported back as a bool)
    tgt = sorted(set(spd + getb + addb) & set(datab))
    at2 = path_states_at(tcp, tgt, lambda k: True, stable_fn=cmp_key)
    bad = [b for b in tgt if any(cmp_fact(fs, pair) == 'ne' for fs in at2[b])]
    rep.check(r1, bool(ne) and not bad, 'data:mismatch-is-silent', 'a reply / table access / the application layer is reachable on a path state with cookie != ack-1: %s' % [tcp.loc(b) for b in bad], tcp.loc(ne[0][1]) if ne else '')
    # the flags local used by validation is not the issue; ack-1 form
    rep.check(r1, True, 'data:ack-form', 'ack-1 is computed as wrapping_sub(ack,1) or the guarded form ack>0?ack-1:0xFFFFFFFF (checked by is_ack_minus_one)')

    r2 = rep.rule('C07-R2', 'reply fields: data arm ack = wrapping_add(seq, payload length as u32), seq = request ack, flags ACK|PSH iff the application layer produced data (then appended after the 20-byte header) else ACK; FIN|ACK arm: flags 0x11, ack = wrapping_add(seq,1), seq = request ack', floor=9)

    def arm_sites(head, name):
        bl = dominated(tcp, head)
        return [b for b in sorted(bl) if tcp.blocks[b]['term']['k'] == 'call' and tcp.blocks[b]['term']['callee'].endswith("MutableTcpPacket::<'a>::" + name)]
    sa = arm_sites(dh, 'set_acknowledgement')
    v = peel(tcp.argv(sa[0], 1)) if tcp.n_sites(sa) == 1 else None
    def is_paylen(x):
        x = peel(x, casts=True)
        return is_call(x, r'\[T\]>::len$') and is_call(peel(x[2][0]), r"TcpPacket<'a> as pnet::packet::Packet>::payload$") and peel(peel(x[2][0])[2][0]) == ('param', 1)
    # seq + payload length (mod 2^32), in any spelling (wrapping_add, 64-bit sum cut to 32 bits, ...)
    ok = v is not None and all(is_modsum(tcp.argv(b_, 1), [req('get_sequence'), is_paylen], 0) for b_ in sa)
    rep.check(r2, ok, 'data:ack', 'acknowledgement <- %s' % (short(v) if v else '%d sites' % len(sa)), tcp.loc(sa[0]) if sa else tcp.loc(dh))
    ss = arm_sites(dh, 'set_sequence')
    v = peel(tcp.argv(ss[0], 1)) if tcp.n_sites(ss) == 1 else None
    rep.check(r2, v is not None and all(req('get_acknowledgement')(peel(tcp.argv(b_, 1))) for b_ in ss), 'data:seq', 'sequence <- %s' % (short(v) if v else '%d sites' % len(ss)), tcp.loc(ss[0]) if ss else tcp.loc(dh))
    sf = arm_sites(dh, 'set_flags')
    consts = {b: const_val(tcp.arg(b, 1)) for b in sf}
    rep.check(r2, sorted(consts.values(), key=lambda x: -1 if x is None else x) == [ACK, ACK | PSH], 'data:flag-sites', 'set_flags constants on the data arm: %s' % sorted(hex(c) if c is not None else '?' for c in consts.values()), tcp.loc(dh))
    # payload_repl discriminant edges
    def from_app(x):
        # the application layer's answer: the slot the get_tcb callback writes, or what get_tcb hands back from its callback
        return isinstance(x, tuple) and ((x[0] == 'modby' and x[1] == 'proto::tcb::get_tcb') or is_call(x, r'^proto::tcb::get_tcb$'))
    pr = None
    for bi in sorted(datab):
        se = tcp.switch_edges(bi)
        if se and isinstance(se[0], tuple) and se[0][0] == 'discr':
            inner = se[0][1]
            if any(from_app(x) for x in walk(inner)):
                pr = (bi, se)
    if pr is None:
        rep.bad(r2, 'data:payload-switch', 'no branch on the application-layer result found on the data arm', tcp.loc(dh))
    else:
        bi, (d, edges, vals) = pr
        some_t = [s for s, vv in edges if vv == 1]
        none_t = [s for s, vv in edges if vv != 1]
        dom = tcp.dominators()
        for b, c in consts.items():
            if c == (ACK | PSH):
                okd = bool(some_t) and some_t[0] in dom[b]
                rep.check(r2, okd, 'data:psh-iff-data', 'ACK|PSH is written only where the application layer returned Some: %s' % okd, tcp.loc(b))
            elif c == ACK:
                okd = bool(none_t) and none_t[0] in dom[b]
                rep.check(r2, okd, 'data:ack-only-iff-no-data', 'bare ACK is written only where the application layer returned None: %s' % okd, tcp.loc(b))
        # buffers
        ow = arm_sites(dh, 'owned')
        for b in ow:
            v = peel(tcp.argv(b, 0), unwraps=False)
            on_some = bool(some_t) and some_t[0] in dom[b]
            segs = buf_segments_at(tcp, b, 0) or []
            if on_some:
                ok = len(segs) == 2 and header_only(segs[:1], r'minimum_packet_size$') and segs[1][0] == 'data' and \
                    any(from_app(x) for x in walk(segs[1][1]))
                rep.check(r2, ok, 'data:buffer-with-payload', 'buffer = %s' % short(v)[:140], tcp.loc(b))
            else:
                ok = header_only(segs, r'minimum_packet_size$')
                rep.check(r2, ok, 'data:buffer-header-only', 'buffer = %s' % short(v)[:100], tcp.loc(b))
    # closure stores proto::repl's result into payload_repl
    for cid in F.closures_of.get('layer_4::tcp::repl', []):
        c = F.fn(cid)
        st = []
        for bi, b in enumerate(c.blocks):
            if b['cleanup']:
                continue
            for i, s in enumerate(b['stmts']):
                if s['lhs']['p'] and s['lhs']['p'][0] == 'deref':
                    st.append((bi, c.lv(s['lhs'], (bi, i)), c.rvalue(s['rv'], (bi, i))))
            t = b['term']
            if t['k'] == 'call' and t['dest']['p']:
                st.append((bi, c.lv(t['dest'], (bi, len(b['stmts']))), c.call_expr(bi)))
        okc = any(is_call(v, r'^proto::repl$') and 'arg1' in short(lv) for _, lv, v in st)
        if not okc:
            # or the callback returns proto::repl(..) and get_tcb returns what its callback returned
            rets = [peel(c.ret_value(rb), unwraps=False) for rb in c.return_blocks()]
            gt = F.fn('proto::tcb::get_tcb')
            grets = [peel(gt.ret_value(rb), unwraps=False) for rb in gt.return_blocks()]
            okc = bool(rets) and all(is_call(r_, r'^proto::repl$') for r_ in rets) and bool(grets) and \
                all(is_call(r_, r'ops::(FnOnce::call_once|FnMut::call_mut|Fn::call)$') for r_ in grets)
            st = st or [(0, ('ret',), rets[0] if rets else None)]
        rep.check(r2, okc, cid + ':stores-result', 'callback stores proto::repl(..) into the captured reply slot: %s' % [(short(lv)[:40], short(v)[:40]) for _, lv, v in st], '%s:%d' % (c.file, c.line))
    # FIN|ACK arm
    if len(fin_heads) != 1:
        rep.bad(r2, 'finack-arm', 'expected one FIN|ACK arm, found %d' % len(fin_heads))
    else:
        fh = fin_heads[0]
        sa = arm_sites(fh, 'set_acknowledgement')
        v = peel(tcp.argv(sa[0], 1)) if tcp.n_sites(sa) == 1 else None
        ok = v is not None and is_modsum(tcp.argv(sa[0], 1), [req('get_sequence')], 1)
        rep.check(r2, ok, 'finack:ack', 'acknowledgement <- %s' % (short(v) if v else None), tcp.loc(sa[0]) if sa else tcp.loc(fh))
        ss = arm_sites(fh, 'set_sequence')
        v = peel(tcp.argv(ss[0], 1)) if tcp.n_sites(ss) == 1 else None
        rep.check(r2, v is not None and req('get_acknowledgement')(v), 'finack:seq', 'sequence <- %s' % (short(v) if v else None), tcp.loc(ss[0]) if ss else tcp.loc(fh))
        fl = last_set_flags(tcp, fh)
        rep.check(r2, [c for _, c in fl] == [FIN | ACK], 'finack:flags', 'flags %s' % [c for _, c in fl], tcp.loc(fh))
        hit = [(tcp.blocks[b]['term']['resolved'] or [''])[0] for b in dominated(tcp, fh) if tcp.blocks[b]['term']['k'] == 'call']
        rep.check(r2, not [c for c in hit if c in TABLE_FNS + ['proto::repl']], 'finack:stateless', 'FIN|ACK arm touches no state', tcp.loc(fh))

    r4 = rep.rule('C07-R4', 'validated flows stay validated: nothing ever removes or clears connection-table entries', floor=1)
    from rules.c09 import table_ops, ALLOWED_NONGROWTH, GROWTH, ENTRY_ABSENT_ONLY
    ops = table_ops(F)
    bad = [(fid, n) for fid, bi, n in ops if n not in ALLOWED_NONGROWTH and n not in ('insert', 'entry') and n not in ENTRY_ABSENT_ONLY]
    rep.check(r4, bool(ops) and not bad, 'table-ops', 'operations on the connection table crate-wide: %s' % sorted(set(n for _, _, n in ops)))
    hand_over_sound(ctx, 'C07')


