"""C09 — unvalidated traffic allocates no connection state."""
from rules.common import *

# Entry API methods that only act on a vacant entry (insert-if-absent by HashMap semantics)
ENTRY_ABSENT_ONLY = {'or_insert', 'or_insert_with', 'or_insert_with_key', 'or_default'}
ALLOWED_NONGROWTH = {'contains_key', 'get_mut', 'get', 'len', 'is_empty'}
GROWTH = {'insert', 'entry', 'extend', 'try_insert', 'get_or_insert_with', 'extend_one', 'from_iter', 'raw_entry_mut'}


def table_ops(F):
    """Every call to a HashMap method whose receiver map holds TCPControlBlock values, crate-wide."""
    out = []
    for fid, f in F.fns.items():
        for bi, t in f.calls(r'^std::collections::HashMap::<[^>]*>::|^std::collections::hash_map::'):
            tys = []
            for a in t['args']:
                if a['k'] in ('move', 'copy'):
                    tys.append(f.locals[a['place']['l']]['ty'])
            if any('TCPControlBlock' in x for x in tys):
                out.append((fid, bi, t['name']))
        # the whole map replaced: `*ct = HashMap::new()` (a store through a reference to the table), mem::swap / replace / take
        for bi, b in enumerate(f.blocks):
            if b['cleanup']:
                continue
            for st in b['stmts']:
                if st['lhs']['p'] == ['deref'] and re.search(r'HashMap<[^;]*TCPControlBlock', f.locals[st['lhs']['l']]['ty']):
                    out.append((fid, bi, 'assign-whole-map'))
            t = b['term']
            if t['k'] == 'call' and re.search(r'^(std|core)::mem::(swap|replace|take)$', t['callee']):
                if any(a['k'] in ('move', 'copy') and re.search(r'HashMap<[^;]*TCPControlBlock', f.locals[a['place']['l']]['ty']) for a in t['args']):
                    out.append((fid, bi, 'mem::' + t['callee'].split('::')[-1]))
    return out


def run(ctx):
    ctx.rep.not_decided += ['semantics of std HashMap (insert/contains_key) and equality of u32 (trusted)',
                            'that two distinct flows never share a 32-bit cookie (collisions)']
    table_discipline(ctx, 'C09')


def f_loc(F, fid):
    f = F.fn(fid)
    return '%s:%d' % (f.file, f.line)


def table_discipline(ctx, pfx):
    F = ctx.facts()
    rep = ctx.rep
    tcp, table, _ = tcp_table(F)
    rep.saw(tcp, *TABLE_FNS)

    # R1: growth operations
    r1 = rep.rule(pfx + ('-R1' if pfx == 'C09' else '-R6a'), 'the connection table is touched only inside proto::tcb::{is_tcb_set,get_tcb,add_tcb}; its only growth operation is one insert in add_tcb behind !contains_key(same key)', floor=3)
    ops = table_ops(F)
    users = [fid for fid, f in F.fns.items() if f.calls(resolved_re=r'CONTABLE as std::ops::Deref>::deref$')]
    users = [u for u in users if not u.startswith('<proto::tcb::CONTABLE as ')]
    rep.check(r1, bool(users) and set(users) <= set(TABLE_FNS), 'users-of-CONTABLE', 'functions dereferencing the CONTABLE static: %s' % sorted(users))
    for fid, bi, name in ops:
        f = F.fn(fid)
        key = '%s:%s' % (fid, name)
        if fid not in TABLE_FNS:
            rep.bad(r1, key, 'connection-table operation outside proto::tcb', f.loc(bi))
        elif name == 'entry' and fid == 'proto::tcb::add_tcb':
            # insert-if-absent spelled with the entry API: entry(key).or_insert(..), nothing else done with the entry
            ev = f.call_val(bi)
            uses = [(b2, t2) for b2, t2 in f.calls() if b2 != bi and any(x == ev for a_ in range(len(t2['args'])) for x in walk(f.argv(b2, a_)))]
            ok = peel(f.argv(bi, 1)) == ('param', 1) and len(uses) == 1 and uses[0][1]['name'] in ENTRY_ABSENT_ONLY and peel(f.argv(uses[0][0], 0), unwraps=False) == ev
            rep.check(r1, ok, key, 'growth op entry(%s) consumed by %s (vacant-only: %s)' % (short(f.argv(bi, 1)), [t2['name'] for _, t2 in uses], ok), f.loc(bi))
        elif name in ENTRY_ABSENT_ONLY and fid == 'proto::tcb::add_tcb':
            recv = peel(f.argv(bi, 0), unwraps=False)
            rep.check(r1, is_call(recv, r'HashMap::<[^>]*>::entry$'), key, 'vacant-only entry operation on %s' % short(recv)[:60], f.loc(bi))
        elif name in GROWTH:
            ok = fid == 'proto::tcb::add_tcb' and name == 'insert'
            det = 'growth op %s' % name
            if ok:
                # gate: contains_key(.., &cookie) false edge, same key as inserted
                ck = f.calls(r'HashMap::<[^>]*>::contains_key$')
                gate = []
                for cb, ct in ck:
                    ce = f.call_val(cb)
                    if peel(f.argv(cb, 1)) == peel(f.argv(bi, 1)) == ('param', 1):
                        gate += f.gate_edges(lambda d, v, vals: (d == ce and v == 0) or
                                             (d == ('un', 'Not', ce) and truthy(v, vals)))
                off = f.must_pass(gate, [bi]) if gate else [bi]
                ok = not off
                det += '; key %s; gated by !contains_key(key): %s' % (short(f.argv(bi, 1)), ok)
            rep.check(r1, ok, key, det, f.loc(bi))
        elif name in ALLOWED_NONGROWTH:
            rep.ok(r1, key, 'non-growth op', f.loc(bi))
        else:
            rep.bad(r1, key, 'connection-table operation %s is neither a known lookup nor the guarded insert' % name, f.loc(bi))
    n_ins = sum(1 for fid, bi, name in ops if name in GROWTH)
    rep.check(r1, n_ins == 1, 'growth-op-count', '%d growth operations on the table crate-wide' % n_ins)

    # R2: add_tcb single call site, under the validated fact
    r2 = rep.rule(pfx + ('-R2' if pfx == 'C09' else '-R6b'), 'add_tcb has exactly one call site, in the PSH|ACK arm of tcp::repl, reached only through the false edge of cookie != ack-1 where cookie = generate(client_info, key) of this frame', floor=2)
    callers = F.callers('proto::tcb::add_tcb')
    rep.check(r2, [c for c, _ in callers] == ['layer_4::tcp::repl'], 'add_tcb:callers', 'call sites: %s' % callers)
    heads = collections.defaultdict(list)
    for v, h in table.items():
        heads[h].append(v)
    cls = {h: classify_arm(tcp, h) for h in heads}
    data_heads = [h for h, c in cls.items() if c == 'data']
    for fid, bi in callers:
        if fid != 'layer_4::tcp::repl':
            continue
        inarm = [h for h in data_heads if bi in dominated(tcp, h)]
        vals = sorted(v for h in inarm for v in heads[h])
        okarm = bool(inarm) and all((v & (PSH | ACK)) == (PSH | ACK) for v in vals)
        rep.check(r2, okarm, 'add_tcb:arm', 'call site is inside the arm selected by %d flag values, all containing PSH|ACK: %s' % (len(vals), okarm), tcp.loc(bi))
        key_e = peel(tcp.argv(bi, 0))
        is_gen = is_call(key_e, r'^synackcookie::generate$')
        def pair(a, b):
            return peel(a) == key_e and is_ack_minus_one(tcp, b)

        def cmp_key(k):
            return isinstance(k, tuple) and k[0] == 'bin' and k[1] in ('Eq', 'Ne') and (pair(k[2], k[3]) or pair(k[3], k[2]))
        at = path_states_at(tcp, [bi], lambda k: True, stable_fn=cmp_key)[bi]
        off = not at or any(cmp_fact(fs, pair) != 'eq' for fs in at)
        rep.check(r2, is_gen and not off, 'add_tcb:validated',
                  'key = %s; every path to add_tcb establishes key == (ack-1 mod 2^32): %s' % (short(key_e), not off), tcp.loc(bi))

    # the cookie that is compared (and used as the key) identifies this flow: it hashes each endpoint field, whole and
    # by itself - a cookie that ignores or mixes fields lets one flow's valid ack admit another flow
    from rules.c06 import cookie_inputs
    for ok_, key_, det_, loc_ in cookie_inputs(F):
        if key_.startswith('generate:feeds:') or key_.startswith('generate:write:') or key_ == 'generate:families-distinct':
            rep.check(r2, ok_, 'cookie:' + key_, det_, loc_)

    # ... and the segment whose acknowledgement number is compared is the frame's own TCP segment: every layer hands
    # the next one exactly the payload of the packet it parsed (C19-R2 hand-over instances)
    from vlib.runner import borrow
    for rid_, inst in borrow(ctx, 'C19', lambda r_, k_: ':hand-over:' in k_):
        rep.check(r2, inst['ok'], inst['key'], inst['detail'], inst['loc'])

    # R3: no table function elsewhere
    r3 = rep.rule(pfx + ('-R3' if pfx == 'C09' else '-R6c'), 'no connection-table function is reachable from udp/icmp/arp handling, nor on any TCP arm other than PSH|ACK', floor=5)
    for root in ['layer_4::udp::repl', 'layer_4::icmpv4::repl', 'layer_4::icmpv6::repl', 'layer_2::arp::repl']:
        cone = F.cone([root])
        hit = sorted(set(cone) & set(TABLE_FNS))
        rep.check(r3, not hit, root, 'cone of %d functions; table functions reached: %s' % (len(cone), hit))
    # cone of proto::repl (application layer) must not reach the table either (also the no-reentrancy clause of C01)
    cone = F.cone(['proto::repl'])
    hit = sorted(set(cone) & set(TABLE_FNS))
    rep.check(r3, not hit, 'proto::repl', 'cone of %d functions; table functions reached: %s' % (len(cone), hit))
    databl = set()
    for h in data_heads:
        databl |= dominated(tcp, h)
    for bi, t in tcp.calls():
        c = t['resolved'][0] if t['resolved'] else t['callee']
        if c in TABLE_FNS:
            rep.check(r3, bi in databl, 'tcp::repl:%s' % c.split('::')[-1], 'called only under the PSH|ACK arm', tcp.loc(bi))
    # closures of tcp::repl (get_tcb callback) may not touch the table
    for cid in F.closures_of.get('layer_4::tcp::repl', []):
        cone = F.cone([cid])
        hit = sorted(set(cone) & set(TABLE_FNS))
        rep.check(r3, not hit, cid, 'closure cone: table functions reached: %s' % hit)
    # drop/SYN/FIN arms: summarised
    for h, c in sorted(cls.items()):
        if c == 'data':
            continue
        bl = dominated(tcp, h)
        hit = [tcp.blocks[b]['term'].get('callee') for b in bl if tcp.blocks[b]['term']['k'] == 'call' and
               (tcp.blocks[b]['term']['resolved'] or [''])[0] in TABLE_FNS]
        rep.check(r3, not hit, 'tcp-arm:%s(%d values)' % (c, len(heads[h])), 'table calls on this arm: %s' % hit, tcp.loc(h))
