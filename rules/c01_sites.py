"""P9: abort-site inventory for C01 and the structural discharge rules."""
import json
from rules.common import *

PANIC_FNS = r'^(core::panicking::|std::rt::begin_panic|core::panicking::assert_failed|std::panicking::|core::option::expect_failed|core::result::unwrap_failed|core::slice::index::slice_\w+_fail|core::str::slice_error_fail)'
UNWRAP = r'^std::(option::Option::<T>|result::Result::<T, E>)::(unwrap|expect|unwrap_err|expect_err)$'
# external APIs that may panic depending on their arguments
MAYPANIC_API = [
    (r'^core::slice::index::<impl std::ops::Index(Mut)?<I> for \[T\]>::index(_mut)?$', 'slice-index'),
    (r'^<std::vec::Vec<T, A> as std::ops::Index(Mut)?<I>>::index(_mut)?$', 'vec-index'),
    (r'^std::ops::Index(Mut)?::index(_mut)?$', 'index'),
    (r'^core::str::traits::<impl std::ops::Index', 'str-index'),
    (r'copy_from_slice$', 'copy_from_slice'),
    (r'\[T\]>::split_at(_mut)?$', 'split_at'),
    (r'^std::vec::Vec::<T, A>::(remove|insert|swap_remove|drain|split_off|truncate)$', 'vec-op'),
    (r'^byteorder::ByteOrder::read_|as byteorder::ByteOrder>::read_', 'byteorder-read'),
    (r"^pnet::packet::.*::Mutable\w+Packet::<'a>::(set_payload|populate|set_options)$", 'pnet-fill'),
    # pnet 0.33: the only length function of pnet_packet with unchecked arithmetic is ndp_option_payload_length ((len * 8) - 2 in u8);
    # it is evaluated by every accessor that parses NDP options (incl. the derived Debug of the NDP message packets)
    (r"^pnet::packet::icmpv6::ndp::\w+Packet::<'a>::(get_options|get_options_iter)$", 'pnet-ndp-options'),
    (r"^pnet::packet::icmpv6::ndp::(Mutable)?NdpOptionPacket::<'a>::(get_data|get_data_raw)$", 'pnet-ndp-options'),
    (r"^<pnet::packet::icmpv6::ndp::(Mutable)?NdpOptionPacket<'\w+> as pnet::packet::(Packet|PacketSize|MutablePacket)>::", 'pnet-ndp-options'),
    (r"^<pnet::packet::icmpv6::ndp::NdpOptionIterable<'\w+> as std::iter::Iterator>::", 'pnet-ndp-options'),
    (r"^<pnet::packet::icmpv6::ndp::(Mutable)?(NeighborSolicit|NeighborAdvert|RouterSolicit|RouterAdvert|Redirect|NdpOption)Packet<'\w+> as std::fmt::Debug>::fmt$", 'pnet-ndp-options'),
    # byte offsets into UTF-8 text: these panic when the offset is not a character boundary (or out of range)
    (r'^std::string::String::(truncate|insert|insert_str|remove|split_off|drain|replace_range|pop_at)$|^core::str::<impl str>::(split_at|split_at_mut)$', 'string-offset'),
    (r'^std::string::String::from_utf8_lossy$', None),
    (r'^core::num::<impl \w+>::(pow|abs|div_euclid|rem_euclid)$', 'arith-api'),
    (r'^core::char::methods::<impl char>::from_digit$', 'from_digit'),
    (r'^std::time::Duration::(from_secs_f\d+|mul_f\d+|div_f\d+|new)$', 'duration-arith'),
    (r'^<std::time::(SystemTime|Instant) as std::ops::(Sub|Add)', 'time-arith'),
    (r'^core::cell::RefCell', 'refcell'),
    (r'^std::sync::mpsc|^std::thread::', 'thread'),
]
ENVIRONMENT = [
    (r'^std::io::_print$', 'stdout write failure (println!)'),
    (r'^std::io::_eprint$', 'stderr write failure'),
]


def classify_call(c):
    if re.search(PANIC_FNS, c):
        return 'panic'
    if re.search(UNWRAP, c):
        return 'unwrap'
    for rx, k in MAYPANIC_API:
        if k and re.search(rx, c):
            return 'api:' + k
    return None


def head(e, depth=0):
    """Short, refactoring-stable description of a value: constants, field paths, getters, parameters."""
    e0 = e
    e = peel(e, casts=True)
    if not isinstance(e, tuple) or not e:
        return '?'
    k = e[0]
    if k == 'const':
        return 'c:%s' % (e[1],)
    if k == 'bytes':
        return 'bytes[%d]' % (len(e[1]) // 2)
    if k == 'param':
        return 'arg%d' % e[1]
    if k == 'entry':
        p = [x[1] for x in Fn.path_of(e[1]) if x[0] == 'f' and not str(x[1]).isdigit()]
        r = Fn.root_of(e[1])
        while isinstance(r, tuple) and r[0] in ('deref', 'entry', 'field', 'variant'):
            if r[0] == 'field' and not str(r[2]).isdigit():
                p.insert(0, r[2])
            r = r[1]
        return 'in:' + (short(r) if isinstance(r, tuple) and r[0] == 'param' else '?') + ('.' + '.'.join(map(str, p)) if p else '')
    if k == 'field':
        if e[2] == '0' and isinstance(e[1], tuple) and e[1][0] == 'bin' and e[1][1].endswith('WithOverflow'):
            return head(('bin', e[1][1].replace('WithOverflow', ''), e[1][2], e[1][3]), depth)
        return head(e[1], depth) + '.' + str(e[2])
    if k == 'variant':
        return head(e[1], depth)
    if k == 'index':
        return head(e[1], depth + 1) + '[]'
    if k == 'call':
        n = e[1].split('::')[-1]
        if depth >= 1 or not e[2]:
            return n + '()'
        return n + '(' + ','.join(head(a, depth + 1) for a in e[2][:2]) + ')'
    if k == 'bin':
        if depth >= 2:
            return 'expr'
        return '(%s %s %s)' % (head(e[2], depth + 1), e[1], head(e[3], depth + 1))
    if k == 'un':
        return e[1] + '(' + head(e[2], depth + 1) + ')'
    if k == 'len':
        return 'len(' + head(e[1], depth + 1) + ')'
    if k == 'phi':
        if any(isinstance(x, tuple) and x and x[0] == 'cyc' for a in e[1] for x in walk(a)):
            return 'loopvar'
        hs = sorted(set(head(a, depth + 2) for a in e[1]))
        return 'sel{' + '|'.join(hs[:4]) + ('|..' if len(hs) > 4 else '') + '}'
    if k == 'local':
        return 'obj'
    if k == 'agg':
        return e[1].split('::')[-1] + '{}'
    if k == 'modby':
        return 'mod:' + e[1].split('::')[-1]
    if k in ('cyc', 'uninit'):
        return k
    if k == 'discr':
        return 'discr(' + head(e[1], depth + 1) + ')'
    return k


def sites(F, cone):
    """Yield abort sites: dict(fid, bi, kind, key, detail, loc)."""
    for fid in sorted(cone):
        f = F.fn(fid)
        for bi, b in enumerate(f.blocks):
            if b['cleanup']:
                continue
            t = b['term']
            if t['k'] == 'assert':
                kind = t['kind']
                ops = [f._through(f.operand(o, (bi, len(b['stmts']))), (bi, len(b['stmts'])), 0) for o in t['ops']]
                cond = f._through(f.operand(t['cond'], (bi, len(b['stmts']))), (bi, len(b['stmts'])), 0)
                yield dict(fid=fid, bi=bi, kind='assert:' + kind, ops=ops, cond=cond, expected=t['expected'], loc=f.loc(bi), f=f)
            elif t['k'] == 'call':
                c = (t['resolved'] or [t['callee']])[0]
                decl = t['callee']
                k = classify_call(c) or classify_call(decl)
                fa = F.fmt_arg_target(f, bi)
                if fa and fa not in F.fns and classify_call(fa):
                    k, c = classify_call(fa), fa
                if k:
                    args = [f.argv(bi, i) for i in range(len(t['args']))]
                    yield dict(fid=fid, bi=bi, kind=k, callee=c, args=args, loc=f.loc(bi), f=f, macro=t['span'].get('macro', ''))


# ---------------------------------------------------------------------------------------
# guard primitive: a relation established on a dominating edge, with no write to the guarded variable in between
def base_lvs(f, op, point, depth=0):
    """Canonical lvalues the operand's value is a plain copy (or int cast) of."""
    if op['k'] not in ('copy', 'move'):
        return set()
    pl = op['place']
    lv = f.lv(pl, point)
    out = {lv}
    if pl['p'] or depth > 6:
        return out
    l = pl['l']
    if f.locals[l]['name']:
        return out          # a user variable: stop here
    # unique reaching definition that is a copy / cast?
    bi, si = point
    defs = []
    # search backwards in this block, then through a chain of single predecessors
    cur, i = bi, (si if si != 'end' else len(f.blocks[bi]['stmts'])) - 1
    hops = 0
    while True:
        b = f.blocks[cur]
        while i >= 0:
            st = b['stmts'][i]
            if not st['lhs']['p'] and st['lhs']['l'] == l:
                rv = st['rv']
                if rv['k'] == 'use' or (rv['k'] == 'cast' and rv['kind'] == 'IntToInt'):
                    inner = base_lvs(f, rv['a'], (cur, i), depth + 1)
                    return inner if inner else out
                return out
            i -= 1
        ps = f.pred[cur]
        if len(ps) != 1 or hops > 8:
            return out
        p = ps[0]
        pt_ = f.blocks[p]['term']
        if pt_['k'] == 'call' and not pt_['dest']['p'] and pt_['dest']['l'] == l:
            return out
        cur, i = p, len(f.blocks[p]['stmts']) - 1
        hops += 1


def region_between(f, gate_edges, target):
    """Blocks on paths from a gate edge target to `target` that do not re-pass a gate edge."""
    ge = set(gate_edges)
    fwd = set()
    for (_, g) in ge:
        fwd |= f.reachable(g, removed_edges=ge)
    # backward from target
    bwd = {target}
    work = [target]
    while work:
        b = work.pop()
        for p in f.pred[b]:
            if (p, b) in ge:
                continue
            if p not in bwd:
                bwd.add(p)
                work.append(p)
    return fwd & bwd


def writes_in_region(f, region, lvs, target):
    """Does any statement / call in the region (target block: statements only) possibly write one of lvs?"""
    for b in region:
        blk = f.blocks[b]
        for i, st in enumerate(blk['stmts']):
            for lv in lvs:
                if f._stmt_write(b, i, st, lv, Fn.root_of(lv)) is not None:
                    return (b, i)
        if b != target and blk['term']['k'] == 'call':
            for lv in lvs:
                if f._term_write(b, lv, Fn.root_of(lv)) is not None:
                    return (b, 'term')
    return None


def rel_edges(f, want):
    """Edges establishing a relation.  want(op, a, b) -> True if the *true* outcome of (a op b) is the wanted fact,
    'neg' if the false outcome is.  Handles Not and bool switches."""
    out = []
    for bi in range(f.n):
        if f.blocks[bi]['cleanup']:
            continue
        se = f.switch_edges(bi)
        if not se:
            continue
        d, edges, vals = se
        neg = False
        while isinstance(d, tuple) and d[0] == 'un' and d[1] == 'Not':
            d = d[2]
            neg = not neg
        if not (isinstance(d, tuple) and d[0] == 'bin' and d[1] in ('Lt', 'Le', 'Gt', 'Ge', 'Eq', 'Ne')):
            continue
        w = want(d[1], d[2], d[3])
        if not w:
            continue
        want_true = (w is True) != neg
        for (s, v) in edges:
            if (truthy(v, vals) if want_true else v == 0):
                out.append((bi, s))
    return out


def guarded(f, bi, want, guarded_ops):
    """True iff every path to block bi passes an edge establishing `want`, and nothing in between writes the
    variables behind the operands in guarded_ops (MIR operands of the terminator of bi)."""
    gates = rel_edges(f, want)
    if not gates:
        return False, 'no dominating test'
    if f.must_pass(gates, [bi]):
        return False, 'a path reaches the site without the test'
    pt = (bi, len(f.blocks[bi]['stmts']))
    lvs = set()
    for op in guarded_ops:
        if op['k'] == 'const':
            continue
        ex = f._through(f.operand(op, pt), pt, 0)
        if stable_expr(ex):
            continue      # a value-numbered expression: equal expressions are equal values
        lvs |= base_lvs(f, op, pt)
    region = region_between(f, gates, bi)
    w = writes_in_region(f, region, lvs, bi)
    if w:
        return False, 'the guarded variable is written between the test and the use (bb%s)' % (w[0],)
    return True, 'guard on every path, no intervening write'


def norm(e):
    """peel + canonical form of slice/Vec length"""
    e = peel(e, casts=True)
    if isinstance(e, tuple) and e and e[0] == 'call' and re.search(r'(\[T\]>::len|Vec::<[^>]*>::len|String::len|str>::len)$', e[1]) and e[2]:
        return ('len', norm_obj(e[2][0]))
    if isinstance(e, tuple) and e and e[0] == 'len':
        return ('len', norm_obj(e[1]))
    return e


def norm_obj(e):
    e = peel(e, casts=True)
    if isinstance(e, tuple) and e and e[0] == 'call' and re.search(r'Deref::deref$|as_slice$|as_ref$', e[1]) and e[2]:
        return norm_obj(e[2][0])
    return e


def switch_cmp(f, bi):
    """For a SwitchInt block whose discriminant was computed in this block by a comparison:
    (op, operandA, operandB, point, negated) else None."""
    t = f.blocks[bi]['term']
    if t['k'] != 'switch' or t['discr']['k'] not in ('copy', 'move') or t['discr']['place']['p']:
        return None
    l = t['discr']['place']['l']
    neg = False
    stmts = f.blocks[bi]['stmts']
    i = len(stmts) - 1
    while i >= 0:
        st = stmts[i]
        if not st['lhs']['p'] and st['lhs']['l'] == l:
            rv = st['rv']
            if rv['k'] == 'un' and rv['op'] == 'Not' and rv['a']['k'] in ('copy', 'move') and not rv['a']['place']['p']:
                l = rv['a']['place']['l']
                neg = not neg
            elif rv['k'] == 'use' and rv['a']['k'] in ('copy', 'move') and not rv['a']['place']['p']:
                l = rv['a']['place']['l']
            elif rv['k'] == 'bin' and rv['op'] in ('Lt', 'Le', 'Gt', 'Ge', 'Eq', 'Ne'):
                return (rv['op'], rv['a'], rv['b'], (bi, i), neg)
            else:
                return None
        i -= 1
    return None


def var_guarded(f, bi, idx_op, want):
    """Variable-based guard for loop cursors: some comparison `A op B` on every path, where A is a copy of the same
    variable as idx_op and want(op, a_is_var, a_expr, b_expr) accepts it; no write to the variable in between.
    want returns True (true edge), 'neg' (false edge) or False; it is called for both operand orders."""
    pt = (bi, len(f.blocks[bi]['stmts']))
    V = base_lvs(f, idx_op, pt)
    if not V:
        return False, 'index is not a variable'
    gates = []
    for sb in range(f.n):
        if f.blocks[sb]['cleanup']:
            continue
        sc = switch_cmp(f, sb)
        if not sc:
            continue
        op, A, B, cpt, neg = sc
        ea = f._through(f.operand(A, cpt), cpt, 0)
        eb = f._through(f.operand(B, cpt), cpt, 0)
        va, vb = base_lvs(f, A, cpt), base_lvs(f, B, cpt)
        w = False
        if va & V:
            w = want(op, ea, eb)
        if not w and vb & V:
            flip = {'Lt': 'Gt', 'Gt': 'Lt', 'Le': 'Ge', 'Ge': 'Le', 'Eq': 'Eq', 'Ne': 'Ne'}[op]
            w = want(flip, eb, ea)
        if not w:
            continue
        se = f.switch_edges(sb)
        want_true = (w is True) != neg
        for (s2, v) in se[1]:
            if (truthy(v, se[2]) if want_true else v == 0):
                gates.append((sb, s2))
    if not gates:
        return False, 'no test on the variable'
    if f.must_pass(gates, [bi]):
        return False, 'a path reaches the site without the test'
    region = region_between(f, gates, bi)
    w = writes_in_region(f, region, V, bi)
    if w:
        return False, 'the variable is written between the test and the use (bb%s)' % (w[0],)
    return True, 'test on every path, variable not written in between'


def max_value(e, depth=0):
    """Upper bound of an unsigned integer expression from constants, masks, shifts and source types; None = unbounded."""
    e0 = e
    if not isinstance(e, tuple) or depth > 12:
        return None
    k = e[0]
    if k == 'const':
        return e[1] if isinstance(e[1], int) else None
    if k == 'cast':
        m = max_value(e[2], depth + 1)
        tw = INT_W.get(e[3])
        sw = INT_W.get(e[4]) if len(e) > 4 and e[4] else None
        cands = [x for x in [m, (1 << sw) - 1 if sw else None, (1 << tw) - 1 if tw else None] if x is not None]
        return min(cands) if cands else None
    if k == 'bin':
        op = e[1]
        a, b = max_value(e[2], depth + 1), max_value(e[3], depth + 1)
        if op == 'BitAnd':
            c = [x for x in (a, b) if x is not None]
            return min(c) if c else None
        if op in ('Shr', 'ShrUnchecked'):
            cb = const_val(e[3])
            return a >> cb if a is not None and cb is not None else a
        if op in ('Shl', 'ShlUnchecked'):
            cb = const_val(e[3])
            return a << cb if a is not None and cb is not None else None
        if op in ('BitOr', 'BitXor'):
            if a is None or b is None:
                return None
            return (1 << max(a.bit_length(), b.bit_length())) - 1
        if op in ('Add', 'AddWithOverflow', 'AddUnchecked'):
            return a + b if a is not None and b is not None else None
        if op in ('Mul', 'MulWithOverflow'):
            return a * b if a is not None and b is not None else None
        if op in ('Rem',):
            return b - 1 if b is not None and b > 0 else a
        if op in ('Div',):
            return a
        if op in ('Sub', 'SubWithOverflow'):
            return a
        return None
    if k == 'field' and e[2] == '0' and isinstance(e[1], tuple) and e[1][0] == 'bin' and e[1][1].endswith('WithOverflow'):
        return max_value(e[1], depth + 1)
    if k in ('ref', 'deref'):
        return max_value(e[1], depth + 1)
    if k == 'phi':
        ms = [max_value(x, depth + 1) for x in e[1]]
        return None if any(m is None for m in ms) else max(ms)
    if k == 'call':
        n = e[1]
        if n in TRANSPARENT or n in UNWRAPS or n.endswith('TryInto::try_into') or n.endswith('::try_into'):
            return max_value(e[2][0], depth + 1)
        if re.search(r'::to_le_bytes$|::to_be_bytes$', n):
            return None
        return None
    if k == 'index':
        return None
    return None



def pinned_eval(f, bi):
    """For an Assert at block bi: if a dominating integer switch pins a memory place / local to a finite value set and
    that place is not written in between, evaluate the assert condition for each pinned value.
    Returns (True, detail) if it holds for all of them, else (False, why)."""
    dom = f.dominators()
    best = None
    for sb in range(f.n):
        if f.blocks[sb]['cleanup'] or sb not in dom.get(bi, ()):
            continue
        t = f.blocks[sb]['term']
        if t['k'] != 'switch' or t['discr']['k'] not in ('copy', 'move'):
            continue
        stmts = f.blocks[sb]['stmts']
        src = None
        if t['discr']['place']['p']:
            src = (t['discr']['place'], (sb, len(stmts)))
        else:
            # the discriminant local is a plain copy of a place P
            l = t['discr']['place']['l']
            for i in range(len(stmts) - 1, -1, -1):
                st = stmts[i]
                if not st['lhs']['p'] and st['lhs']['l'] == l:
                    if st['rv']['k'] == 'use' and st['rv']['a']['k'] in ('copy', 'move'):
                        src = (st['rv']['a']['place'], (sb, i))
                    break
            if src is None and f.locals[l]['name']:
                src = (t['discr']['place'], (sb, len(stmts)))
        if src is None:
            continue
        place, spt = src
        vals = [v for v, tg in t['targets'] if tg in dom.get(bi, ()) and tg != sb]
        if not vals:
            continue
        heads = {tg for v, tg in t['targets'] if v in vals}
        if len(heads) != 1:
            continue
        head_b = heads.pop()
        lv = f.lv(place, spt)
        gates = [(sb, head_b)]
        region = region_between(f, gates, bi)
        if writes_in_region(f, region, {lv}, bi):
            continue
        best = (place, vals, head_b)
        # fast path: `P op const` directly on the pinned place
        at = f.blocks[bi]['term']
        m = re.match(r'overflow:(Add|Sub|Mul)$', at['kind'])
        if m and len(at['ops']) == 2 and at['ops'][1]['k'] == 'const' and at['ops'][0]['k'] in ('copy', 'move'):
            opl = at['ops'][0]['place']
            srcp = None
            if opl['p']:
                srcp = opl
            else:
                for st in reversed(f.blocks[bi]['stmts']):
                    if not st['lhs']['p'] and st['lhs']['l'] == opl['l']:
                        if st['rv']['k'] == 'use' and st['rv']['a']['k'] in ('copy', 'move'):
                            srcp = st['rv']['a']['place']
                        break
            if srcp is not None and json.dumps(srcp, sort_keys=True) == json.dumps(place, sort_keys=True):
                c = at['ops'][1].get('val')
                ty = at['ops'][1].get('ty')
                w = INT_W.get(ty, 64)
                okv = c is not None and all((0 <= (v + c if m.group(1) == 'Add' else v - c if m.group(1) == 'Sub' else v * c) < (1 << w)) for v in vals)
                if okv:
                    return True, '%s %s %d cannot overflow for the arm values %s' % ('state', m.group(1), c, sorted(vals))
        results = []
        for v in vals:
            key = json.dumps(place, sort_keys=True)
            menv = {key: v} if place['p'] else {}
            env = {} if place['p'] else {place['l']: v}
            r = eval_region(f, head_b, env, menv=menv, assume_asserts=True, until_assert=bi)
            results.append((v, r[0], r[3] if len(r) > 3 else None))
        exp = f.blocks[bi]['term']['expected']
        if all(k == 'cond' and c is not None and bool(c) == bool(exp) for _, k, c in results):
            return True, 'holds for every value %s of the dominating match arm' % sorted(vals)
    return False, 'no pinning switch' if best is None else 'not constant under the pinned values'


def counter_field(F, adt, field):
    """All writes to <adt>.<field> crate-wide are constants or `self + 1`: the field counts events (bytes)."""
    n = 0
    for fid, f in F.fns.items():
        for bi, b in enumerate(f.blocks):
            if b['cleanup']:
                continue
            for i, st in enumerate(b['stmts']):
                ch = [p for p in st['lhs']['p'] if isinstance(p, dict) and 'f' in p]
                if not ch or ch[-1]['f'] != field or ch[-1]['adt'] != adt:
                    continue
                n += 1
                v = f.rvalue(st['rv'], (bi, i))
                for a in alts(v):
                    a = peel(a)
                    if const_val(a) is not None:
                        continue
                    if isinstance(a, tuple) and a[0] == 'field' and a[2] == '0':
                        a = a[1]
                    if isinstance(a, tuple) and a[0] == 'bin' and a[1] in ('Add', 'AddWithOverflow') and const_val(a[3]) == 1:
                        src = peel(a[2])
                        if isinstance(src, tuple) and src[0] == 'entry':
                            src = src[1]
                        if isinstance(src, tuple) and Fn.path_of(src)[-1:] == [('f', field)]:
                            continue
                    return False
    return n > 0
