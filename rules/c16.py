"""C16 — ONC-RPC / portmapper: replies correlated, framed, advertise the contacted endpoint."""
from rules.common import *
from vlib.layout import *

R = 'proto::rpc::'


def pfield(e, name):
    e = peel(e, casts=True)
    return isinstance(e, tuple) and e[0] == 'entry' and Fn.path_of(e[1])[-1:] == [('f', name)] and Fn.root_of(e[1]) == ('deref', ('param', 1))


def ci_field(e, path, param=2):
    e = peel(e, casts=True)
    return isinstance(e, tuple) and e[0] == 'entry' and [p[1] for p in Fn.path_of(e[1]) if p[0] == 'f'] == path and Fn.root_of(e[1]) == ('deref', ('param', param))


def arr_consts(e):
    e = peel(e, unwraps=False)
    if is_call(e, r'to_vec$'):
        b = peel(e[2][0])
        if isinstance(b, tuple) and b[0] == 'bytes':
            return list(bytes.fromhex(b[1]))
    if isinstance(e, tuple) and e[0] == 'agg' and e[1] == 'array':
        return [const_val(x) for x in e[2]]
    if isinstance(e, tuple) and e[0] == 'bytes':
        return list(bytes.fromhex(e[1]))
    return None


def track(k):
    s = short(k)
    return 'prog_version' in s or 'procedure' in s or 'program' in s


def facts_at(states, b):
    return [facts for (_, facts) in states.get(b, set())]


def holds(facts, name, rel, c):
    for (k, r_, c_) in facts:
        if pfield(k, name) and r_ == rel and c_ == c:
            return True
    return False


def cmp_fact(facts, name, op, c, truth):
    """fact recorded for a comparison `field op c` having the given truth value"""
    for (k, r_, c_) in facts:
        k2 = peel(k, unwraps=False)
        if isinstance(k2, tuple) and k2[0] == 'bin' and k2[1] == op and pfield(k2[2], name) and const_val(k2[3]) == c:
            if (r_ == '==' and c_ == (1 if truth else 0)) or (r_ == '!=' and c_ == (0 if truth else 1)):
                return True
    return False


def run(ctx):
    F = ctx.facts()
    rep = ctx.rep
    rep.not_decided += ['XDR well-formedness of every body for all inputs beyond the padding rule and the fixed word sequences', 'the call parser\'s accepted language (credential/verifier lengths)']
    br, pm, rt, ru = F.fn(R + 'build_repl'), F.fn(R + 'build_repl_portmap'), F.fn(R + 'repl_tcp'), F.fn(R + 'repl_udp')
    psp, pu32, gnb = F.fn(R + 'push_string_pad'), F.fn(R + 'push_u32'), F.fns.get(R + 'get_nth_byte')
    rep.saw(br, pm, rt, ru, psp, pu32, *([gnb] if gnb else []))

    r1 = rep.rule('C16-R1', 'reply header: XID of the call first, then message type 1 (reply), reply state 0 (accepted), null verifier; words are emitted big-endian', floor=5)
    items = vec_layout(br)
    first = br.calls(r'rpc::push_u32$')
    ok = len(first) == 1 and pfield(br.argv(first[0][0], 1), 'xid')
    if ok:
        # nothing appended before it
        anc = set()
        for it in items:
            if first[0][0] in br.reachable(it['block']) and it['block'] != first[0][0]:
                anc.add(it['block'])
        ok = not anc
    rep.check(r1, ok, 'xid-first', 'first word <- %s, no append before it' % (short(br.argv(first[0][0], 1)) if first else None), br.loc(first[0][0]) if first else '')
    hdr = [it for it in items if it['must']]
    okh = len(hdr) >= 1 and arr_consts(hdr[0]['value']) == [0, 0, 0, 1, 0, 0, 0, 0, 0, 0, 0, 0, 0, 0, 0, 0] and first and hdr[0]['block'] in br.reachable(first[0][0])
    rep.check(r1, bool(okh), 'fixed-words', 'after the XID: %s' % (arr_consts(hdr[0]['value']) if hdr else None), hdr[0]['loc'] if hdr else '')
    # xid is what the parser accumulated in state Xid
    rp = F.fn(R + 'rpc_parse')
    okx = False
    for bi, t in rp.calls(r'rpc::read_u32$'):
        if pfield(rp.argv(bi, 2), 'xid') or 'xid' in short(rp.argv(bi, 2)):
            ns = peel(rp.argv(bi, 3), unwraps=False)
            okx = isinstance(ns, tuple) and ns[0] == 'agg' and ns[1].endswith('RpcState::MessageType')
    rep.check(r1, okx, 'xid-parsed', 'the Xid state accumulates into pstate.xid and continues with MessageType: %s' % okx)
    # big-endian byte extraction, exhaustively on nth and on bit patterns
    if gnb is None:
        rep.ok(r1, 'get_nth_byte:big-endian', 'no hand-written byte extraction helper in this tree (words are emitted with to_be_bytes, see push_u32 / tcp-record-mark)')
    else:
        okb = True
        for v in [0x01020304, 0xfffefdfc, 0x80000001, 0x00000000, 0x12345678]:
            got = [eval_fn(gnb, [v, n]) for n in range(4)]
            if all(x is None for x in got):
                continue            # not a region the concrete evaluator models (library byte conversions): the bit provenance below decides alone
            if got != list(v.to_bytes(4, 'big')):
                okb = False
        # ... and for every value: bit provenance of the returned byte for nth = 0..3
        from vlib.bits import BitEval, describe
        rets_ = gnb.return_blocks()
        okbits, shown = len(rets_) == 1, []
        if okbits:
            rv_ = gnb.ret_value(rets_[0])
            for n_ in range(4):
                e_ = rewrite(rv_, lambda x: ('const', n_, None, 'u8') if x == ('param', 2) else None)
                b_ = BitEval(lambda x: ('value', 32) if x == ('param', 1) else None).bits(e_)
                want_ = [('in', 'value', 8 * (3 - n_) + k) for k in range(8)]
                got_ = (b_ + [0] * 32)[:32] if b_ is not None else None
                if got_ is None or got_[:8] != want_ or any(x != 0 for x in got_[8:]):
                    okbits = False
                shown.append(describe(b_[:8]) if b_ else '?')
        rep.check(r1, okb and okbits, 'get_nth_byte:big-endian', 'get_nth_byte(v, n) = bits 8(3-n)..8(3-n)+7 of v for n = 0..3, bit-exact for every v (%s); concrete evaluation on 5 patterns agrees: %s' % (' | '.join(shown), okb), '%s:%d' % (gnb.file, gnb.line))
    it4 = pu32.calls(r'IntoIterator>::into_iter$|IntoIterator::into_iter$')
    rg = peel(pu32.argv(it4[0][0], 0), unwraps=False) if it4 else None
    okr = rg is not None and rg[0] == 'agg' and [const_val(x) for x in rg[2]] == [0, 4]
    pb = pu32.calls(r'Vec::<[^>]*>::push$')
    okr = okr and len(pb) == 1 and is_call(peel(pu32.argv(pb[0][0], 1)), r'get_nth_byte$') and peel(peel(pu32.argv(pb[0][0], 1))[2][0]) == ('param', 2)
    if not okr:
        # the same four bytes spelled with the standard library
        pit = vec_layout(pu32)
        v_ = peel(pit[0]['value'], unwraps=False) if len(pit) == 1 else None
        while is_call(v_, r'to_vec$'):
            v_ = peel(v_[2][0], unwraps=False)
        okr = len(pit) == 1 and pit[0]['must'] and not pit[0]['in_loop'] and pit[0]['width'] == 4 and is_call(v_, r'<impl u32>::to_be_bytes$') and peel(v_[2][0]) == ('param', 2)
    rep.check(r1, okr, 'push_u32', 'push_u32 appends the four big-endian bytes of its argument (get_nth_byte(data, i) for i in 0..4, or data.to_be_bytes()): %s' % okr)

    r2 = rep.rule('C16-R2', 'precedence of outcomes, as path facts at each emission site: version outside 2..=4 -> PROG_MISMATCH(2,4); else procedure 0 -> SUCCESS (empty); else program 100000 -> portmapper {3: GETPORT/GETADDR, 4: DUMP, other: PROC_UNAVAIL}; else PROG_UNAVAIL', floor=7)
    states, _ = fact_sim(br, track)

    def in_range(facts):
        return cmp_fact(facts, 'prog_version', 'Lt', 2, False) and cmp_fact(facts, 'prog_version', 'Gt', 4, False)

    def out_of_range(facts):
        return cmp_fact(facts, 'prog_version', 'Lt', 2, True) or cmp_fact(facts, 'prog_version', 'Gt', 4, True)
    for it in items:
        c = arr_consts(it['value'])
        fs = facts_at(states, it['block'])
        if c == [0, 0, 0, 2, 0, 0, 0, 2, 0, 0, 0, 4]:
            rep.check(r2, bool(fs) and all(out_of_range(f_) for f_ in fs), 'PROG_MISMATCH(2,4)', 'emitted only on paths with version < 2 or version > 4 (%d path states)' % len(fs), it['loc'])
        elif c == [0, 0, 0, 0]:
            rep.check(r2, bool(fs) and all(in_range(f_) and holds(f_, 'procedure', '==', 0) for f_ in fs), 'SUCCESS-for-NULL', 'emitted only with version in 2..=4 and procedure == 0 (%d path states)' % len(fs), it['loc'])
        elif c is not None and len(c) == 4 and fs and all(in_range(f_) and holds(f_, 'procedure', '==', 0) for f_ in fs):
            rep.bad(r2, 'SUCCESS-for-NULL:word', 'the NULL procedure is answered with the word %s (required: 0 0 0 0, SUCCESS)' % c, it['loc'])
    for callee, want_prog in [(R + 'build_repl_portmap', True), (R + 'build_repl_unknownprog', False)]:
        cs = br.calls('^' + re.escape(callee) + '$')
        ok = len(cs) == 1
        if ok:
            fs = facts_at(states, cs[0][0])
            ok = bool(fs) and all(in_range(f_) and holds(f_, 'procedure', '!=', 0) and (holds(f_, 'program', '==', 100000) if want_prog else holds(f_, 'program', '!=', 100000)) for f_ in fs)
        rep.check(r2, ok, callee.split('::')[-1], 'called only with version in range, procedure != 0 and program %s 100000' % ('==' if want_prog else '!='), br.loc(cs[0][0]) if cs else '')
    # ... and what the program-specific builder returns is appended to the reply (on that path the reply is header ++ body)
    rets_ = br.return_blocks()
    for callee in (R + 'build_repl_portmap', R + 'build_repl_unknownprog'):
        for cb_, _t in br.calls('^' + re.escape(callee) + '$'):
            apps = [b_ for b_, t_ in br.calls(r'Vec::<[^>]*>::(append|extend_from_slice)$|Extend<[^>]*>>::extend$|Extend::extend$') if calls_in(br.argv(b_, 1), '^' + re.escape(callee) + '$')
                    and b_ in br.reachable(cb_)]
            okb = bool(apps) and not any(x in br.reachable(cb_, removed_blocks=apps) for x in rets_)
            rep.check(r2, okb, callee.split('::')[-1] + ':appended', 'the body built by %s is appended to the reply on every path from the call to the return: %s' % (callee.split('::')[-1], okb), br.loc(cb_))
    uk = F.fn(R + 'build_repl_unknownprog')
    rv = [arr_consts(a) or [const_val(x) for x in peel(a, unwraps=False)[2]] if False else None for a in []]
    val = uk.ret_value(uk.return_blocks()[0])
    consts = [const_val(x) for x in walk(val) if isinstance(x, tuple) and x[0] == 'const']
    lit = []
    for b_ in uk.blocks:
        for st_ in b_['stmts']:
            if st_['rv']['k'] == 'agg' and st_['rv'].get('agg') == 'array' and not b_['cleanup']:
                lit.append([o.get('val') for o in st_['rv']['ops']])
    lit = [l for l in lit if all(isinstance(x, int) for x in l)]
    rep.check(r2, lit == [[0, 0, 0, 1]] and calls_in(val, r'into_vec|from_elem|to_vec') != [], 'PROG_UNAVAIL', 'unknown program body = %s' % lit)
    # portmap procedure dispatch
    pstates, _ = fact_sim(pm, track)
    pitems = vec_layout(pm)
    for it in pitems:
        c = arr_consts(it['value'])
        fs = facts_at(pstates, it['block'])
        if c is not None and not it['in_loop'] and fs and all(holds(f_, 'procedure', '!=', 3) and holds(f_, 'procedure', '!=', 4) for f_ in fs):
            # the accept state of the arm for every other procedure: PROC_UNAVAIL is 3 (RFC 5531; 5 would be SYSTEM_ERR)
            rep.check(r2, c == [0, 0, 0, 3], 'PROC_UNAVAIL', 'other procedures are answered with the word %s (required: 0 0 0 3, PROC_UNAVAIL)' % c, it['loc'])
        elif c == [0, 0, 0, 0]:
            ok = bool(fs) and all(holds(f_, 'procedure', '==', 3) or holds(f_, 'procedure', '==', 4) for f_ in fs)
            rep.check(r2, ok, 'portmap-success@proc%s' % ('3' if fs and holds(fs[0], 'procedure', '==', 3) else '4'), 'accept state 0 only for procedure 3 / 4', it['loc'])

    # the accept-state word comes first on each procedure arm: SUCCESS (0) for GETPORT/GETADDR and DUMP
    for proc in (3, 4):
        arm_items = [it for it in pitems if facts_at(pstates, it['block']) and all(holds(f_, 'procedure', '==', proc) for f_ in facts_at(pstates, it['block']))]
        first = arm_items[0] if arm_items else None
        rep.check(r2, first is not None and arr_consts(first['value']) == [0, 0, 0, 0], 'portmap-accept-word@proc%d' % proc,
                  'the first word appended for procedure %d is %s (required: accept state 0, SUCCESS)' % (proc, arr_consts(first['value']) if first else None), first['loc'] if first else '')
    r5 = rep.rule('C16-R5', 'advertised endpoint = the endpoint the client contacted: port <- client_info.port.dst, address <- client_info.ip.dst, netid tcp/tcp6 by the address variant; version 2 answers with a port number, versions 3/4 with a universal address "addr.hi.lo"', floor=5)
    for bi, t in pm.calls(r'rpc::push_u32$'):
        v = pm.argv(bi, 1)
        fs = facts_at(pstates, bi)
        v0 = peel(v, casts=True)
        if isinstance(v0, tuple) and v0[0] == 'entry' and Fn.root_of(v0[1]) == ('deref', ('param', 2)):
            n_ = len([1 for i_ in rep.rules[r5]['instances'] if i_['key'].startswith('port-word')]) + 1
            rep.check(r5, ci_field(v, ['port', 'dst']) and bool(fs) and all(holds(f_, 'prog_version', '==', 2) for f_ in fs), 'port-word#%d' % n_,
                      'push_u32(%s): must be client_info.port.dst, only for version 2' % short(v)[:60], pm.loc(bi))
    for bi, t in pm.calls(r'rpc::push_string_pad$'):
        v = pm.argv(bi, 1)
        fm = fmt_of(v)
        if fm and [p for p in fm[0] if p[0] == 'lit'] and all(p[1] == '.' for p in fm[0] if p[0] == 'lit') and len(fm[1]) == 3:
            a0, a1, a2 = [peel(x, casts=True) for x in fm[1]]
            fs = facts_at(pstates, bi)
            okv = bool(fs) and all(holds(f_, 'prog_version', '==', 3) or holds(f_, 'prog_version', '==', 4) for f_ in fs)
            # address: client_info.ip.dst (directly or through the Rpcb record built from it); port halves: >> 8 and % 256 / & 0xff of port.dst
            def from_dst(e, path, bi=bi):
                e = peel(e, casts=True)
                for _ in range(3):
                    # format!("{}", x) of a single value is that value's text
                    inner = fmt_of(e) if calls_in(e, r'fmt::format$') else None
                    if inner and not [p_ for p_ in inner[0] if p_[0] == 'lit'] and len(inner[1]) == 1:
                        e = peel(pm.through_refs(inner[1][0], bi), casts=True)
                    else:
                        break
                if isinstance(e, tuple) and e[0] == 'bin' and e[1] in ('Shr', 'Rem', 'BitAnd', 'Div'):
                    e = peel(e[2], casts=True)
                if ci_field(e, path):
                    return True
                # a field of the Rpcb record being listed (records are checked to hold ip.dst / port.dst below)
                return isinstance(e, tuple) and e[0] == 'field' and e[2] == {'ip': 'addr', 'port': 'port'}[path[0]] and calls_in(e[1], r'::next$') != [] and \
                    not any(isinstance(x, tuple) and x[0] == 'entry' for x in walk(e))
            # the two halves of the 16-bit port, in any spelling (>> 8, / 256; % 256, & 0xff): decided on the bits
            from vlib.bits import BitEval

            def half(e, which):
                inner = e[2] if isinstance(e, tuple) and e[0] == 'bin' else None
                if inner is None:
                    return False
                src = peel(inner, casts=True)
                bits = BitEval(lambda x: ('p', 16) if x == src or peel(x, casts=True) == src else None).bits(e)
                if bits is None:
                    return False
                bits = (bits + [0] * 16)[:16]
                want = [('in', 'p', k + (8 if which == 'hi' else 0)) for k in range(8)] + [0] * 8
                return bits == want
            hi = half(a1, 'hi')
            lo = half(a2, 'lo')
            rep.check(r5, okv and hi and lo and from_dst(a0, ['ip', 'dst']) and from_dst(a1, ['port', 'dst']) and from_dst(a2, ['port', 'dst']),
                      'universal-address@%s' % pm.loc(bi).split(':')[-1] if False else 'universal-address#%d' % (len([1 for i_ in rep.rules[r5]['instances'] if i_['key'].startswith('universal-address')]) + 1),
                      'uaddr = %s.%s.%s for versions 3/4' % (short(a0)[:40], short(a1)[:40], short(a2)[:40]), pm.loc(bi))
    # Rpcb records: addr/port from client_info, netid by variant
    recs = []
    for bi, b in enumerate(pm.blocks):
        for i, st in enumerate(b['stmts']):
            if st['rv']['k'] == 'agg' and st['rv'].get('adt', '').endswith('rpc::Rpcb') and not b['cleanup']:
                recs.append((bi, pm._through(pm.rvalue(st['rv'], (bi, i)), (bi, i), 0)))
    names = [fl['name'] for fl in F.adts[R + 'Rpcb']['variants'][0]['fields']]
    okrec = len(recs) in (1, 3)
    vers = []
    for bi, r_ in recs:
        d = dict(zip(names, r_[2]))
        if const_val(d['version']) is not None:
            vers.append(const_val(d['version']))
        else:
            # one record literal inside `for version in [2, 3, 4]`
            arrs_ = [x for x in walk(d['version']) if isinstance(x, tuple) and x[0] == 'agg' and x[1] == 'array']
            its_ = calls_in(d['version'], r'::next$')
            if len(arrs_) == 1 and its_ and all(const_val(y) is not None for y in arrs_[0][2]):
                vers += [const_val(y) for y in arrs_[0][2]]
            else:
                vers.append(None)
        okrec = okrec and const_val(d['program']) == 100000 and ci_field(d['port'], ['port', 'dst']) and any(ci_field(x, ['ip', 'dst']) for x in walk(d['addr']) if isinstance(x, tuple) and x[0] == 'entry')
        nid = sorted(bytes.fromhex(x[1]) for x in walk(d['netid']) if isinstance(x, tuple) and x[0] == 'bytes')
        okrec = okrec and nid == [b'tcp', b'tcp6']
    rep.check(r5, okrec and None not in vers and sorted(vers) == [2, 3, 4], 'dump-records', 'DUMP lists program 100000 versions %s at (client_info.ip.dst, client_info.port.dst), netid in {tcp, tcp6}' % vers)
    # netid selection by variant: "tcp" on V4 edge
    sel = None
    for bi in range(pm.n):
        se = pm.switch_edges(bi)
        if se and isinstance(se[0], tuple) and se[0][0] == 'discr' and isinstance(peel(se[0][1]), tuple) and peel(se[0][1])[0] == 'entry' and ci_field(peel(se[0][1]), ['ip', 'dst']):
            sel = (bi, se)
    okn = False
    if sel:
        dom = pm.dominators()
        got = {}
        for bi, b in enumerate(pm.blocks):
            for st in b['stmts']:
                if st['rv']['k'] == 'use' and st['rv']['a']['k'] == 'const' and 'bytes' in st['rv']['a']:
                    bs = bytes.fromhex(st['rv']['a']['bytes'])
                    if bs in (b'tcp', b'tcp6'):
                        for (s_, v) in sel[1][1]:
                            if v is not None and s_ in dom.get(bi, ()):
                                got[bs] = v
        okn = got.get(b'tcp') == 0 and got.get(b'tcp6') == 1
    rep.check(r5, okn, 'netid-by-variant', 'netid "tcp" on the IPv4 arm and "tcp6" on the IPv6 arm: %s' % okn)
    # DUMP list framing: value-follows 1 before each record, 0 at the end
    one = [it for it in pitems if arr_consts(it['value']) == [0, 0, 0, 1]]
    after_loop = pm.reachable(one[0]['block']) if len(one) == 1 else set()
    zero = [it for it in pitems if arr_consts(it['value']) == [0, 0, 0, 0] and not it['in_loop'] and it['block'] in after_loop]
    rep.check(r5, len(one) == 1 and one[0]['in_loop'] and len(zero) == 1 and not zero[0]['in_loop'], 'dump-list-framing', 'each record is preceded by value-follows=1 (in the loop) and the list ends with 0')

    r3 = rep.rule('C16-R3', 'TCP replies are framed by a record mark: 4 bytes big-endian of len(reply) with the last-fragment bit set on the first byte, then the reply; UDP replies are the bare reply; both only in parser state End', floor=4)
    titems = vec_layout(rt, must_targets=some_points(rt))
    pushes = [it for it in titems if it['op'] == 'push']
    app = [it for it in titems if it['op'] == 'append']
    ok = len(pushes) == 2 and len(app) == 1
    det = '%d pushes, %d append' % (len(pushes), len(app))
    if ok:
        body = peel(app[0]['value'], unwraps=False)
        with80 = [p for p in pushes if any(isinstance(x, tuple) and x[0] == 'bin' and x[1] == 'BitOr' and const_val(x[3]) == 0x80 for x in walk(p['value']))]
        plain = [p for p in pushes if p not in with80]
        ok = len(with80) == 1 and len(plain) == 1

        def len_of_body(e):
            ls = [c for c in walk(e) if isinstance(c, tuple) and c[0] == 'call' and re.search(r'len$', c[1])]
            return len(ls) == 1 and calls_in(ls[0][2][0], r'rpc::build_repl$') != []
        ok = ok and all(len_of_body(p['value']) and calls_in(p['value'], r'get_nth_byte$') for p in pushes)
        # index 0 gets the bit: the push with |0x80 is on the edge value 0 of the loop index
        dom = rt.dominators()
        eq0 = fact_edges(rt, lambda k, r_, c_: bool(calls_in(k, r'::next$')) and is_eq(r_, c_, 0))
        ne0 = fact_edges(rt, lambda k, r_, c_: bool(calls_in(k, r'::next$')) and is_ne(r_, c_, 0))
        ok0 = bool(with80) and bool(plain) and any(s_ in dom[with80[0]['block']] for (_, s_) in eq0) and any(s_ in dom[plain[0]['block']] for (_, s_) in ne0) and \
            not any(s_ in dom[plain[0]['block']] for (_, s_) in eq0)
        ok = ok and ok0 and calls_in(body, r'rpc::build_repl$') != []
        # order: pushes before append
        later = set()
        for s_ in rt.succ[app[0]['block']]:
            later |= rt.reachable(s_)
        ok = ok and not any(p['block'] in later for p in pushes)
        det = 'mark = get_nth_byte(len(reply) as u32, i) for i in 0..4 with |0x80 exactly at i == 0, then the reply: %s' % ok
    if not ok:
        # the same four bytes written without a loop: byte-level layout of everything before the reply body
        body_i = [k for k, it in enumerate(titems) if calls_in(it['value'], r'rpc::build_repl$') != [] and not calls_in(it['value'], r'len$')]
        if len(body_i) == 1 and body_i[0] == len(titems) - 1 and all(not it['in_loop'] for it in titems):
            braw = titems[-1].get('raw')
            while isinstance(braw, tuple) and braw[0] == 'ref':
                braw = braw[1]

            def src(e):
                if is_call(e, r'len$') and e[2]:
                    a_ = e[2][0]
                    while isinstance(a_, tuple) and a_[0] == 'ref':
                        a_ = a_[1]
                    if calls_in(e[2][0], r'rpc::build_repl$') != [] or (braw is not None and a_ == braw):
                        return ('len', 64)
                return None
            bl = byte_layout(rt, titems[:-1], source=src)
            bits = [x[2] for x in bl]
            L = lambda k: ('in', 'len', k)
            want = [[L(k) for k in range(24, 31)] + [1], [L(k) for k in range(16, 24)], [L(k) for k in range(8, 16)], [L(k) for k in range(0, 8)]]
            ok = bits == want
            det = 'record mark = big-endian u32 of len(reply) with bit 31 set, bit-exact: %s' % ok
    rep.check(r3, ok, 'tcp-record-mark', det, app[0]['loc'] if app else '')
    for f, nm in [(rt, 'tcp'), (ru, 'udp')]:
        bc = f.calls(r'rpc::build_repl$')
        END = [i for i, v in enumerate(F.adts[R + 'RpcState']['variants']) if v['name'] == 'End'][0]
        ok = len(bc) == 1 and state_is_at(f, [bc[0][0]], END, 'rpc_parse')
        rep.check(r3, ok, nm + ':only-when-complete', 'build_repl is called only behind parser state == End: %s' % ok, f.loc(bc[0][0]) if bc else '')
        # ... and always then: once the parser state is established to be End on the way to build_repl, no further test
        # (on the record length, a counter, the payload) can still lead to silence - a complete call is answered
        def is_state_end(k, r_, c_):
            return isinstance(k, tuple) and k[0] == 'discr' and ('state' in short(k) or any(isinstance(x, tuple) and x[0] == 'modby' and x[1].endswith('rpc_parse') for x in walk(k))) and r_ == '==' and c_ == END
        silent = []
        n_end = 0
        if bc:
            for (b_, s_) in fact_edges(f, is_state_end):
                if bc[0][0] not in f.reachable(s_) and bc[0][0] != s_:
                    continue
                n_end += 1
                esc = f.reachable(s_, removed_blocks=[bc[0][0]])
                if any(rb in esc for rb in f.return_blocks()):
                    silent.append(f.loc(b_))
        rep.check(r3, bool(bc) and n_end >= 1 and not silent, nm + ':always-when-complete',
                  'from every edge establishing parser state == End (%d) each path to the return passes build_repl; edges with a silent way out: %s' % (n_end, silent), f.loc(bc[0][0]) if bc else '')
    uv = [a for rb in ru.return_blocks() for a in alts(ru.ret_value(rb)) if isinstance(a, tuple) and a[0] == 'agg' and a[1].endswith('Option::Some')]
    rep.check(r3, len(uv) == 1 and is_call(peel(uv[0][2][0], unwraps=False), r'rpc::build_repl$'), 'udp-bare-reply', 'UDP reply = %s' % [short(a)[:60] for a in uv])

    r4 = rep.rule('C16-R4', 'XDR strings: length word = len(data), the bytes, then 4 - len % 4 zero bytes exactly when len % 4 != 0', floor=3)
    its = vec_layout(psp)
    lw = psp.calls(r'rpc::push_u32$')
    lv_ = peel(psp.argv(lw[0][0], 1)) if lw else None
    while is_call(lv_, r'try_into$'):
        lv_ = peel(lv_[2][0])
    ok = len(lw) == 1 and is_call(lv_, r'len$') and peel(lv_[2][0]) == ('param', 2)
    rep.check(r4, ok, 'length-word', 'length word <- %s' % (short(psp.argv(lw[0][0], 1)) if lw else None))
    data_it = [it for it in its if calls_in(it['value'], r'as_bytes$') != []]
    pad_it = [it for it in its if arr_consts(it['value']) == [0] or (it['op'] == 'push' and const_val(it['value']) == 0)]
    ok = len(data_it) == 1 and data_it[0]['must'] and len(pad_it) == 1 and pad_it[0]['in_loop']
    # the same padding written as buffer.resize(buffer.len() + (4 - len % 4) % 4, 0)
    rz = psp.calls(r'Vec::<[^>]*>::resize$')
    resize_form = False
    if not ok and len(data_it) == 1 and data_it[0]['must'] and len(rz) == 1 and not pad_it:
        def unw(e):
            e = peel(e, casts=True)
            if isinstance(e, tuple) and e[0] == 'field' and e[2] == '0':
                e = peel(e[1], casts=True)
            return e
        nl = unw(psp.argv(rz[0][0], 1))
        okz = const_val(psp.argv(rz[0][0], 2)) == 0 and isinstance(nl, tuple) and nl[0] == 'bin' and nl[1] in ('Add', 'AddWithOverflow')
        if okz:
            cur, padx = unw(nl[2]), unw(nl[3])
            okz = is_call(cur, r'len$') and isinstance(padx, tuple) and padx[0] == 'bin' and padx[1] == 'Rem' and const_val(padx[3]) == 4
            if okz:
                inner = unw(padx[2])
                okz = isinstance(inner, tuple) and inner[0] == 'bin' and inner[1] in ('Sub', 'SubWithOverflow') and const_val(inner[2]) == 4
                if okz:
                    m4 = unw(inner[3])
                    okz = isinstance(m4, tuple) and m4[0] == 'bin' and m4[1] == 'Rem' and const_val(m4[3]) == 4 and calls_in(m4[2], r'len$') != [] and \
                        all(peel(c[2][0]) == ('param', 2) for c in calls_in(m4[2], r'len$'))
        # after the data, on every path
        okz = okz and rz[0][0] in psp.reachable(data_it[0]['block']) and not any(x in psp.reachable(0, removed_blocks=[rz[0][0]]) for x in psp.return_blocks())
        resize_form = ok = okz
    rep.check(r4, ok, 'bytes-then-pad', 'data appended once, then zero padding (byte loop, or resize to len + (4 - len %% 4) %% 4): %s' % ok)
    # pad loop bound and guard
    it_ = psp.calls(r'IntoIterator>::into_iter$|IntoIterator::into_iter$')
    okp = False
    if it_:
        rg = peel(psp.argv(it_[0][0], 0), unwraps=False)
        if isinstance(rg, tuple) and rg[0] == 'agg' and len(rg[2]) == 2 and const_val(rg[2][0]) == 0:
            hi = peel(rg[2][1], casts=True)
            if isinstance(hi, tuple) and hi[0] == 'field':
                hi = hi[1]
            okp = isinstance(hi, tuple) and hi[0] == 'bin' and hi[1] in ('Sub', 'SubWithOverflow') and const_val(hi[2]) == 4 and \
                isinstance(peel(hi[3], casts=True), tuple) and peel(hi[3], casts=True)[0] == 'bin' and peel(hi[3], casts=True)[1] == 'Rem' and const_val(peel(hi[3], casts=True)[3]) == 4
        g = ne_edges(psp, lambda a, b: isinstance(peel(a, casts=True), tuple) and peel(a, casts=True)[0] == 'bin' and peel(a, casts=True)[1] == 'Rem' and const_val(peel(a, casts=True)[3]) == 4 and const_val(b) == 0)
        okp = okp and bool(g) and not psp.must_pass(g, [it_[0][0]])
        if not okp and isinstance(rg, tuple) and rg[0] == 'agg' and len(rg[2]) == 2 and const_val(rg[2][0]) == 0:
            # any other spelling of the bound, unguarded: the expression mentions the length only under `% 4` / `& 3`, so it is a
            # function of len mod 4 - evaluated for the four residues it must be (4 - r) % 4
            hi0 = rg[2][1]
            lens = [x for x in walk(hi0) if is_call(x, r'len$')]
            def under_mod(e, inside=False):
                e_ = peel(e, casts=True)
                while is_call(e_, r'try_into$|unwrap$|Into::into$|From::from$|expect$') and e_[2]:
                    e_ = peel(e_[2][0], casts=True)
                if is_call(e_, r'len$'):
                    return inside
                if isinstance(e_, tuple) and e_[0] == 'bin':
                    mod = (e_[1] == 'Rem' and const_val(e_[3]) == 4) or (e_[1] == 'BitAnd' and const_val(e_[3]) == 3)
                    return under_mod(e_[2], inside or mod) and under_mod(e_[3], inside)
                if isinstance(e_, tuple) and e_[0] == 'field' and e_[2] == '0':
                    return under_mod(e_[1], inside)
                if isinstance(e_, tuple) and e_[0] == 'const':
                    return True
                return False
            if lens and under_mod(hi0):
                try:
                    vals_ = [eval_expr(hi0, lambda x, r_=r_: r_ if (is_call(x, r'len$') or (is_call(x, r'try_into$|unwrap$|expect$') and calls_in(x, r'len$') and not any(isinstance(y, tuple) and y[0] == 'bin' for y in walk(x)))) else None) for r_ in range(4)]
                except Exception:
                    vals_ = None
                # the loop must not sit behind a guard that skips it for some residue with a non-zero pad
                dom_ = psp.dominators().get(it_[0][0], set())
                guarded = any(psp.blocks[b_]['term']['k'] == 'switch' for b_ in dom_ if b_ != it_[0][0] and it_[0][0] not in [s_ for s_ in psp.succ[b_]] and len(set(psp.succ[b_])) > 1 and
                              not all(it_[0][0] in psp.reachable(s_) for s_ in set(psp.succ[b_]) if not psp.blocks[s_]['cleanup'] and psp.blocks[s_]['term']['k'] != 'unreachable'))
                okp = vals_ == [0, 3, 2, 1] and not guarded
    rep.check(r4, okp or resize_form, 'pad-count', 'pad loop runs 0..(4 - len %% 4) and only when len %% 4 != 0 (or the resize form, which is 0 when aligned): %s' % (okp or resize_form))

    r6 = rep.rule('C16-R6', 'call parser: every 32-bit header field, including the credential/verifier lengths, is exactly the big-endian accumulation read_u32(self, byte, <same field>, next state) - no rounding or adjustment; the opaque-body counter only counts down by one per byte', floor=9)
    from rules.c12 import field_writes
    rp_ = F.fn(R + 'rpc_parse')
    def fld_of_place(pl):
        fl = [p['f'] for p in pl['p'] if isinstance(p, dict) and 'f' in p]
        return fl[-1] if fl else None

    def src_field(bi, op):
        if op['k'] not in ('copy', 'move'):
            return None
        if op['place']['p']:
            return fld_of_place(op['place'])
        l = op['place']['l']
        for st in reversed(rp_.blocks[bi]['stmts']):
            if not st['lhs']['p'] and st['lhs']['l'] == l and st['rv']['k'] == 'use' and st['rv']['a']['k'] in ('copy', 'move'):
                return fld_of_place(st['rv']['a']['place'])
        return None
    pairs = collections.defaultdict(list)
    for bi, t in rp_.calls(r'rpc::read_u32$'):
        src = src_field(bi, t['args'][2])
        dst = fld_of_place(t['dest']) if t['dest']['p'] else None
        if dst is None and t['target'] >= 0:
            for st in rp_.blocks[t['target']]['stmts']:
                if st['rv']['k'] == 'use' and st['rv']['a'].get('k') == 'move' and st['rv']['a']['place'] == t['dest']:
                    dst = fld_of_place(st['lhs'])
        pairs[dst].append((bi, src))
    other_writes = collections.defaultdict(list)
    for bi, blk in enumerate(rp_.blocks):
        if blk['cleanup']:
            continue
        for st in blk['stmts']:
            fld = fld_of_place(st['lhs']) if st['lhs']['p'] else None
            if fld and not (st['rv']['k'] == 'use' and st['rv']['a'].get('k') == 'move' and any(rp_.blocks[p_]['term']['k'] == 'call' and rp_.blocks[p_]['term']['dest'] == st['rv']['a']['place'] and re.search(r'read_u32$', rp_.blocks[p_]['term']['callee']) for p_ in rp_.pred[bi])):
                other_writes[fld].append(bi)
    for fld in ['xid', 'message_type', 'rpc_version', 'program', 'prog_version', 'procedure', 'creds_flavor', 'verif_flavor', 'data_len']:
        sites = pairs.get(fld, [])
        want = 2 if fld == 'data_len' else 1
        ok = len(sites) == want and all(src == fld for _, src in sites) and not other_writes.get(fld)
        rep.check(r6, ok, 'field:' + fld, '%s is assigned by %d read_u32 site(s) accumulating %s; other writes in rpc_parse: %d' % (fld, len(sites), [s_ for _, s_ in sites], len(other_writes.get(fld, []))), rp_.loc(sites[0][0]) if sites else '')
    rs = F.fn(R + 'read_string')
    dl = [rs._through(v, (bi, i), 0) for bi, i, v in field_writes(rs, 'data_len')]
    ok = len(dl) == 1
    if ok:
        v = peel(dl[0], casts=True)
        if isinstance(v, tuple) and v[0] == 'field':
            v = v[1]
        ok = isinstance(v, tuple) and v[0] == 'bin' and v[1] in ('Sub', 'SubWithOverflow') and const_val(v[3]) == 1 and 'data_len' in short(v[2])
    rep.check(r6, ok, 'read_string:countdown', 'data_len <- %s' % [short(x) for x in dl])
    # the opaque body is left exactly when the counter reaches 0: the state store lies behind data_len == 0 (tested after the
    # decrement) and is always reached from there
    sw_ = [b_ for b_, _, _ in field_writes(rs, 'state')]
    z_ = value_edges(rs, lambda k: 'data_len' in short(k) and isinstance(peel(k, casts=True), tuple) and peel(k, casts=True)[0] in ('entry', 'field', 'bin', 'phi'), 0)
    dec_ = [b_ for b_, _, _ in field_writes(rs, 'data_len')]
    okz = bool(sw_) and bool(z_) and not rs.must_pass(z_, sw_) and all(not any(x in rs.reachable(s__, removed_blocks=sw_) for x in rs.return_blocks()) for (_, s__) in z_) and \
        bool(dec_) and all(not any(zb in rs.reachable(0, removed_blocks=dec_) for (zb, _) in z_) for _ in [0])
    rep.check(r6, okz, 'read_string:leaves-at-zero', 'the state advances exactly when data_len, after the decrement, is 0: %s' % okz, rs.loc(sw_[0]) if sw_ else '')
    # an empty credential body is skipped - and nothing else: the direct `state = VerifFlavor` in the CredsLen arm lies behind
    # both "the length word is complete (state moved on to Creds)" and "data_len == 0"
    CREDS = [i_ for i_, v_ in enumerate(F.adts[R + 'RpcState']['variants']) if v_['name'] == 'Creds'][0]
    vf = [b_ for b_, i_, v_ in field_writes(rp_, 'state') if short(v_).endswith('RpcState::VerifFlavor{}')]
    g_state = [e_ for e_ in value_edges(rp_, lambda k: 'state' in short(k) and isinstance(peel(k), tuple) and peel(k)[0] in ('discr', 'entry'), CREDS) if len(set(rp_.succ[e_[0]])) <= 3]
    g_zero = value_edges(rp_, lambda k: 'data_len' in short(k), 0)
    oksk = len(vf) == 1 and bool(g_state) and bool(g_zero) and not rp_.must_pass(g_state, vf) and not rp_.must_pass(g_zero, vf)
    rep.check(r6, oksk, 'empty-credentials-skip', 'state <- VerifFlavor (skipping an empty credential body) only when the length word is complete and data_len == 0: %s' % oksk, rp_.loc(vf[0]) if vf else '')
    # read_u32 itself: value * 256 + byte, state advance at the 4th byte
    ru = F.fn(R + 'read_u32')
    rv = ru._through(ru.ret_value(ru.return_blocks()[0]), (ru.return_blocks()[0], 0), 0)
    # bit-exact for every value and byte, whatever the spelling (value * 256 + byte, (value << 8) | byte, ...)
    from vlib.bits import BitEval, describe
    bits_ = BitEval(lambda x: ('value', 32) if x == ('param', 3) else ('byte', 8) if x == ('param', 2) else None).bits(rv)
    want_ = [('in', 'byte', k) for k in range(8)] + [('in', 'value', k) for k in range(24)]
    ok = bits_ is not None and (bits_ + [0] * 32)[:32] == want_
    rep.check(r6, ok, 'read_u32:accumulate', 'read_u32 returns (value << 8) | byte, bit-exact for every value and byte: %s (expression %s)' % (ok, short(rv)[:60]))
    okv, detv, locv = rpc_verifier_never_awaited(F)
    rep.check(r6, okv, 'verifier-length-never-awaited', 'a call is complete when its verifier-length word is (calls with any verifier are answered): ' + detv, locv)
    dispatch_sound(ctx, 'C16', 'a call reaches the RPC responders')
    table_never_shrinks(ctx, 'C16')
    no_abort_in(ctx, 'C16', r'proto::rpc::', 'answering ONC-RPC')


