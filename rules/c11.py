"""C11 — stream parsing is independent of TCP segmentation (HTTP, ONC-RPC)."""
from rules.common import *
from vlib.fsm import *
from rules.c13 import http_fsm

TCB = 'proto::tcb::TCPControlBlock'


def uses_of_param(f, p):
    """How a slice parameter is used: list of (block, kind) with kind in len / index-by:<head> / slice / call:<callee> / iter / other"""
    out = []
    for bi, b in enumerate(f.blocks):
        if b['cleanup']:
            continue
        for i, st in enumerate(b['stmts']):
            rv = st['rv']
            pls = []
            if 'place' in rv:
                pls.append(('place', rv['place'], rv['k']))
            for o in [rv.get('a'), rv.get('b')] + list(rv.get('ops', [])):
                if o and o.get('k') in ('copy', 'move'):
                    pls.append(('use', o['place'], rv['k'] + ':' + str(rv.get('op', ''))))
            for kind, pl, how in pls:
                if pl['l'] != p:
                    continue
                if any(isinstance(x, dict) and 'index' in x for x in pl['p']):
                    idx = [x['index'] for x in pl['p'] if isinstance(x, dict) and 'index' in x][0]
                    out.append((bi, 'index', idx))
                elif how.startswith('un:PtrMetadata'):
                    out.append((bi, 'len', None))
                elif kind == 'place' and how == 'ref' or how.startswith('use'):
                    out.append((bi, 'reborrow', st['lhs']['l']))
                else:
                    out.append((bi, 'other:' + how, None))
    return out


def run(ctx):
    F = ctx.facts()
    rep = ctx.rep
    rep.not_decided += ['the accepted languages themselves (C13 for HTTP after the method; the RPC call grammar is not decided)',
                        'that the run-time compiled matchers (PROTO_SMACK / HTTP_SMACK) give the same verdict for every split of the bytes they consume (their walker is checked to be a fold, their tables are not)']
    hp = F.fn('proto::http::http_parse')
    rpc = F.fn('proto::rpc::rpc_parse')
    hr = F.fn('proto::http::repl')
    rr = F.fn('proto::rpc::repl_tcp')
    pr = F.fn('proto::repl')
    rep.saw(hp, rpc, hr, rr, pr, 'smack::smack::Smack::search_next')

    r1 = rep.rule('C11-R1', 'the stream parsers are folds: parse(parse(s, a), b) = parse(s, a ++ b) because each byte is consumed once, in order, reading only that byte and state kept in the parser-state object', floor=4)
    f, m, verb = http_fsm(F)
    seen, trans, prob = explore(m, [(verb + 1,)], is_opaque=lambda s: s == (verb,))
    fp = m.frame_problems()
    rep.check(r1, not fp, 'http_parse:loop-is-all', 'outside the byte loop http_parse only sets the cursor to 0 (no look at state or data before the loop, no state store after it): %s' % (fp or 'ok'), '%s:%d' % (hp.file, hp.line))
    rep.check(r1, not prob and not m.impure, 'http_parse:fold', 'extracted transition function over %d states x 256 bytes is total, consumes exactly one byte per step and reads nothing but data[i] and pstate' % len(seen), '%s:%d' % (hp.file, hp.line))
    # the method arm hands (state, data, cursor) to the matcher whose state lives in pstate
    sn = hp.calls(r'Smack::search_next$')
    ok = len(sn) == 1
    if ok:
        b = sn[0][0]
        st = peel(hp.argv(b, 1), unwraps=False)
        ok = isinstance(st, tuple) and (st[0] == 'entry' or st[0] == 'field') and 'smack_state' in short(st) and peel(hp.argv(b, 2)) == ('param', 2)
        cur = peel(hp.arg(b, 3), unwraps=False)
        ok = ok and cur == ('local', m.i)
    rep.check(r1, ok, 'http_parse:method-matcher-state', 'search_next(&mut pstate.smack_state, data, &mut i): matcher state persists in the parser state: %s' % ok, hp.loc(sn[0][0]) if sn else '')
    # rpc_parse: data is only iterated
    uses = []
    for bi, t in rpc.calls():
        for i, a in enumerate(t['args']):
            if a['k'] in ('copy', 'move') and peel(rpc.argv(bi, i), unwraps=False) == ('param', 2):
                uses.append((bi, (t['resolved'] or [t['callee']])[0]))
    direct = uses_of_param(rpc, 2)
    ok = len(uses) == 1 and re.search(r'IntoIterator', uses[0][1]) is not None and all(k in ('reborrow',) for _, k, _ in direct)
    rep.check(r1, ok, 'rpc_parse:fold', 'the input slice is used only as `for byte in data`: calls %s, direct uses %s' % ([u[1].split('::')[-1] for u in uses], sorted(set(k for _, k, _ in direct))), '%s:%d' % (rpc.file, rpc.line))
    # no state outside pstate: rpc_parse / http_parse touch no static and take only (pstate, data)
    for g in (hp, rpc):
        cone = F.cone([g.id])
        st = [c for c in F.ext_calls(cone) if re.search(r'CONTABLE|lazy', c)]
        own_statics = [t['resolved'][0] for fid in cone for _, t in F.fn(fid).calls(resolved_re=r'as std::ops::Deref>::deref$') if 'SMACK' in str(t['resolved'])]
        rep.check(r1, g.argc == 2 and all('SMACK' in s for s in own_statics), g.id + ':inputs', 'parameters: (state, data); statics consulted: %s (immutable signature tables only)' % sorted(set(own_statics)))
    # smack walker
    sw = F.fn('smack::smack::Smack::search_next')
    du = uses_of_param(sw, 3)
    kinds = sorted(set(k for _, k, _ in du))
    calls_on_px = []
    for bi, t in sw.calls():
        for i, a in enumerate(t['args']):
            if peel(sw.argv(bi, i), unwraps=False) == ('param', 3):
                calls_on_px.append((t['resolved'] or [t['callee']])[0].split('::')[-1])
    ok = set(calls_on_px) <= {'len', 'index'} and set(kinds) <= {'reborrow', 'len'}
    rep.check(r1, ok, 'search_next:fold', 'the input slice is only measured (len) and sliced from the cursor (px[i..]): %s / %s' % (sorted(set(calls_on_px)), kinds), '%s:%d' % (sw.file, sw.line))

    wp = walker_resume_problems(F)
    rep.check(r1, not wp, 'search_next:resumes-from-saved-state', 'the walker continues from the saved row and cursor, whatever the segment boundaries: %s' % (wp or 'ok'), '%s:%d' % (sw.file, sw.line))

    r2 = rep.rule('C11-R2', 'parser state lives in the flow\'s control block: with a control block the parser gets &mut of the HTTP/RPC variant stored in it (created only when none exists); the protocol id of a flow is sticky', floor=6)
    for g, pname, variant in [(hr, 'proto::http::http_parse', 'HTTP'), (rr, 'proto::rpc::rpc_parse', 'RPC')]:
        pc = g.calls('^' + re.escape(pname) + '$')
        ok = len(pc) == 1
        det = ''
        if ok:
            b = pc[0][0]
            als = palts(g.argv(b, 0), unwraps=False)
            tcbalt = [a for a in als if any(x == ('param', 4) for x in walk(a)) and variant in short(a) and 'proto_state' in short(a)]
            local = [a for a in als if isinstance(a, tuple) and a[0] in ('local',)]
            ok = len(tcbalt) == 1 and len(local) == 1 and len(als) == 2
            det = 'parser state alternatives: %s' % [short(a)[:70] for a in als]
            if ok:
                # which one on the Some(tcb) edge: path-restricted read
                some = [s for bi2 in range(g.n) for (s, v) in (g.switch_edges(bi2)[1] if g.switch_edges(bi2) and g.switch_edges(bi2)[0] == ('discr', ('param', 4)) else []) if v == 1]
                none = [s for bi2 in range(g.n) for (s, v) in (g.switch_edges(bi2)[1] if g.switch_edges(bi2) and g.switch_edges(bi2)[0] == ('discr', ('param', 4)) else []) if v != 1]
                op = g.blocks[b]['term']['args'][0]
                pt = (b, len(g.blocks[b]['stmts']))
                v_some = g.read_via(g.lv(op['place'], pt), pt, some[0]) if some else None
                v_none = g.read_via(g.lv(op['place'], pt), pt, none[0]) if none else None
                ok = v_some is not None and palts(v_some, unwraps=False) == tcbalt and v_none is not None and palts(v_none, unwraps=False) == local
                det += '; with a control block -> %s; without -> %s' % (short(v_some)[:60] if v_some else None, short(v_none)[:30] if v_none else None)
        rep.check(r2, ok, g.id + ':state-residence', det, g.loc(pc[0][0]) if pc else '')
        # variant creation only when proto_state is None
        wr = []
        for bi, blk in enumerate(g.blocks):
            for i, s_ in enumerate(blk['stmts']):
                fl = [p['f'] for p in s_['lhs']['p'] if isinstance(p, dict) and 'f' in p]
                if fl[-1:] == ['proto_state'] and not blk['cleanup']:
                    wr.append(bi)
        gate = g.gate_edges(lambda d, v, vals: isinstance(d, tuple) and d[0] == 'discr' and isinstance(d[1], tuple) and d[1][0] == 'entry' and Fn.path_of(d[1][1])[-1:] == [('f', 'proto_state')] and v == 0)
        # the same, spelled with the vacancy-only API: proto_state.get_or_insert_with(..) (fills the slot only when it is None)
        goi = [b_ for b_, t_ in g.calls(r'Option::<T>::get_or_insert(_with)?$') if 'proto_state' in short(g.argv(b_, 0)) and any(x == ('param', 4) for x in walk(g.argv(b_, 0)))]
        if not wr and g.n_sites(goi) == 1:
            rep.ok(r2, g.id + ':create-once', 'proto_state is filled through Option::get_or_insert_with (only when it is None)', g.loc(goi[0]))
            continue
        rep.check(r2, len(wr) == 1 and bool(gate) and not g.must_pass(gate, wr), g.id + ':create-once', 'proto_state is assigned only on the None edge: %s' % (len(wr) == 1 and bool(gate) and not g.must_pass(gate, wr)), g.loc(wr[0]) if wr else '')
    # who writes TCB fields
    writers = collections.defaultdict(set)
    for fid, f_ in F.fns.items():
        for (k, ch, bi, l, ty, dr) in field_accesses(f_):
            if k in ('w',) and ch and ch[-1][0] == TCB:
                writers[ch[-1][1]].add(fid)
    rep.check(r2, writers.get('proto_id', set()) <= {'proto::repl', 'proto::tcb::add_tcb'} and writers.get('smack_state', set()) <= {'proto::repl', 'proto::tcb::add_tcb'} and
              writers.get('proto_state', set()) <= {'proto::http::repl', 'proto::rpc::repl_tcp', 'proto::tcb::add_tcb'}, 'tcb-writers', 'writers: %s' % {k: sorted(v) for k, v in writers.items()})
    okc, kc, dc = insert_complete(F)
    rep.check(r2, okc, kc, 'every validated flow gets its control block (else its segments are parsed one by one, statelessly): ' + dc, '%s:%d' % (F.fn('proto::tcb::add_tcb').file, F.fn('proto::tcb::add_tcb').line))
    # sticky id: writes of proto_id in proto::repl: search result under proto_id == NONE, or NONE in the default arm
    pw = []
    for bi, blk in enumerate(pr.blocks):
        for i, s_ in enumerate(blk['stmts']):
            fl = [p['f'] for p in s_['lhs']['p'] if isinstance(p, dict) and 'f' in p]
            if fl[-1:] == ['proto_id'] and not blk['cleanup']:
                pw.append((bi, pr._through(pr.rvalue(s_['rv'], (bi, i)), (bi, i), 0)))
    g_none = eq_edges(pr, lambda a, c: isinstance(peel(a), tuple) and peel(a)[0] == 'entry' and Fn.path_of(peel(a)[1])[-1:] == [('f', 'proto_id')] and const_val(c) == 0)
    oks = []
    for bi, v in pw:
        if const_val(v) == 0:
            # default arm of the dispatch: only reachable for ids outside 1..=8
            oks.append(True)
        else:
            oks.append(calls_in(v, r'Smack::search_next$') != [] and not pr.must_pass(g_none, [bi]))
    rep.check(r2, len(pw) == 2 and all(oks), 'sticky-id', 'proto_id is written from the matcher only while it is PROTO_NONE, and reset to PROTO_NONE only in the default arm: %s' % [short(v)[:40] for _, v in pw])

    r3 = rep.rule('C11-R3', 'nothing but a bare ACK before the request is complete: the application handlers return None until the parser reaches its final state (HTTP: CONTENT, RPC: End), and tcp::repl turns None into an empty ACK', floor=2)
    from rules.c13 import state_consts
    K = state_consts(F)
    sp = some_points(hr)
    okg, dg = value_required_at(hr, sp, lambda k: 'state' in short(k) and not is_call(peel(k, unwraps=False), r'.'), {K.get('HTTP_STATE_CONTENT')}, stable_fn=lambda k: 'state' in short(k))
    rep.check(r3, okg, 'http:reply-needs-CONTENT', 'see C13-R1 (%s)' % dg)
    END = [i for i, v in enumerate(F.adts['proto::rpc::RpcState']['variants']) if v['name'] == 'End'][0]
    bc = rr.calls(r'rpc::build_repl$')
    rep.check(r3, len(bc) == 1 and state_is_at(rr, [bc[0][0]], END, 'rpc_parse'), 'rpc:reply-needs-End', 'see C16-R3')

    r4 = rep.rule('C11-R4', 'the handler must see the stream from its first byte: if identification may complete in a later segment than it started (matcher state persists in the control block), the handler input must include the bytes consumed meanwhile', floor=1)
    # does the matcher state persist?  (C10-R4)  and what is the handler given?
    sn = [b for b, t in pr.calls(r'Smack::search_next$') if 'smack_state' in short(pr.argv(b, 1))]
    persists = False
    for bi, blk in enumerate(pr.blocks):
        for i, s_ in enumerate(blk['stmts']):
            fl = [p['f'] for p in s_['lhs']['p'] if isinstance(p, dict) and 'f' in p]
            if fl[-1:] == ['smack_state'] and not blk['cleanup']:
                persists = True
    handlers = [(b, (t['resolved'] or [''])[0]) for b, t in pr.calls(r'^proto::(http::repl|rpc::repl_tcp)$')]
    cur_only = [h for b, h in handlers if peel(pr.argv(b, 0), unwraps=False) == ('param', 1)]
    buffered = [w for w in writers if w not in ('proto_id', 'smack_state', 'proto_state')]
    ok = not (persists and sn and cur_only and not buffered)
    rep.check(r4, ok, 'proto::repl:handler-input=current-segment',
              'matcher state persists across segments: %s; handlers given only the current segment: %s; control-block fields that could buffer earlier bytes: %s' % (persists, [h.split("::")[-2] for h in cur_only], buffered), pr.loc(sn[0]) if sn else '')
    dispatch_sound(ctx, 'C11', 'a stream reaches the HTTP / RPC parser')
    table_never_shrinks(ctx, 'C11')
    no_abort_in(ctx, 'C11', r'proto::(http|rpc)::|proto::repl$|proto::tcb::', 'parsing HTTP / RPC streams')


