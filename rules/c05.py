"""C05 — ARP, neighbour discovery and echo are answered correctly, and only those."""
from rules.common import *


def rq(name):
    def p(e):
        e = peel(e)
        return is_call(e, r"Packet::<'a>::%s$" % name) and peel(e[2][0]) == ('param', 1)
    return p


def int_edges(f, getname, value):
    """edges of switches on <getter>(arg1).0 with the given value"""
    return value_edges(f, rq(getname), value)


def code_zero_edges(f, getname):
    out = eq_edges(f, lambda a, b: rq(getname)(a) and const_val(b) == 0)
    # derived PartialEq on newtypes: eq/ne(&get_code(arg1), &Code(0))

    def pred(d):
        d = peel(d, unwraps=False)
        return isinstance(d, tuple) and d[0] == 'call' and d[1] in ('std::cmp::PartialEq::ne', 'std::cmp::PartialEq::eq') and \
            ((rq(getname)(d[2][0]) and const_val(d[2][1]) == 0) or (rq(getname)(d[2][1]) and const_val(d[2][0]) == 0))
    for bi in range(f.n):
        se = f.switch_edges(bi)
        if not se or f.blocks[bi]['cleanup']:
            continue
        d, edges, vals = se
        if pred(d):
            is_ne = peel(d, unwraps=False)[1].endswith('::ne')
            for (s, v) in edges:
                t = truthy(v, vals)
                if (is_ne and v == 0) or (not is_ne and t):
                    out.append((bi, s))
    return out


def setter(f, name):
    return f.calls(r"::Mutable\w+Packet::<'a>::%s$" % name)


def run(ctx):
    F = ctx.facts()
    rep = ctx.rep
    rep.not_decided += ['behaviour for every payload length is covered only as provenance (payload copied whole) and allocation/fill agreement, not by computing bytes']
    arp, i4, i6, nd = F.fn('layer_2::arp::repl'), F.fn('layer_4::icmpv4::repl'), F.fn('layer_4::icmpv6::repl'), F.fn('layer_4::icmpv6::nd_ns_repl')
    rep.saw(arp, i4, i6, nd)

    r1 = rep.rule('C05-R1', 'type/op/code gates: ARP replies only to operation 1; ICMPv4 only to (type 8, code 0); ICMPv6 only to code 0 and types {135 NS, 128 echo request}; every other value reaches no reply', floor=7)
    g = int_edges(arp, 'get_operation', 1)
    sp = some_points(arp)
    okg, dg = value_required_at(arp, sp, rq('get_operation'), {1})
    rep.check(r1, okg, 'arp:operation==1', 'reply only on path states with operation == Request: %s' % dg, arp.loc(sp[0]) if sp else '')
    for bi in range(arp.n):
        se = arp.switch_edges(bi)
        if se and isinstance(se[0], tuple) and se[0][0] == 'field' and rq('get_operation')(se[0][1]):
            rep.check(r1, se[2] == [1], 'arp:handled-ops', 'operations with an arm: %s' % se[2], arp.loc(bi))
    g1, g2 = int_edges(i4, 'get_icmp_type', 8), code_zero_edges(i4, 'get_icmp_code')
    sp = some_points(i4)
    okg, dg = value_required_at(i4, sp, rq('get_icmp_type'), {8})
    rep.check(r1, okg, 'icmpv4:type==8', 'reply only on path states with type == EchoRequest: %s' % dg, i4.loc(sp[0]) if sp else '')
    okg, dg = value_required_at(i4, sp, rq('get_icmp_code'), {0})
    rep.check(r1, okg, 'icmpv4:code==0', 'reply only on path states with code == 0: %s' % dg, i4.loc(sp[0]) if sp else '')
    for bi in range(i4.n):
        se = i4.switch_edges(bi)
        if se and isinstance(se[0], tuple) and se[0][0] == 'field' and rq('get_icmp_type')(se[0][1]):
            rep.check(r1, se[2] == [8], 'icmpv4:handled-types', 'types with an arm: %s' % se[2], i4.loc(bi))
    gc = code_zero_edges(i6, 'get_icmpv6_code')
    sp = some_points(i6)
    okg, dg = value_required_at(i6, sp, rq('get_icmpv6_code'), {0})
    rep.check(r1, okg, 'icmpv6:code==0', 'reply only on path states with code == 0: %s' % dg, i6.loc(sp[0]) if sp else '')
    # also no lower call (nd_ns_repl) before the code gate
    ndc = [b for b, t in i6.calls(r'nd_ns_repl$')]
    okg, dg = value_required_at(i6, ndc, rq('get_icmpv6_code'), {0})
    rep.check(r1, okg, 'icmpv6:nd-after-code-gate', 'neighbour solicitation handling only on path states with code == 0: %s' % dg, i6.loc(ndc[0]) if ndc else '')
    gt = int_edges(i6, 'get_icmpv6_type', 135) + int_edges(i6, 'get_icmpv6_type', 128)
    okg, dg = value_required_at(i6, sp, rq('get_icmpv6_type'), {135, 128})
    rep.check(r1, okg, 'icmpv6:type in {135,128}', 'reply only on path states with type NS / echo request: %s' % dg, i6.loc(sp[0]) if sp else '')
    for bi in range(i6.n):
        se = i6.switch_edges(bi)
        if se and isinstance(se[0], tuple) and se[0][0] == 'field' and rq('get_icmpv6_type')(se[0][1]):
            rep.check(r1, sorted(se[2]) == [128, 135], 'icmpv6:handled-types', 'types with an arm: %s' % sorted(se[2]), i6.loc(bi))
            # which arm does what
            dom = i6.dominators()
            for (s, v) in se[1]:
                if v == 135:
                    rep.check(r1, all(s in dom[b] for b in ndc), 'icmpv6:ns-arm', 'nd_ns_repl is called on the type-135 arm only', i6.loc(s))
                if v == 128:
                    pops = [b for b, t in setter(i6, 'populate')]
                    rep.check(r1, bool(pops) and all(s in dom[b] for b in pops), 'icmpv6:echo-arm', 'echo reply is built on the type-128 arm only', i6.loc(s))

    r2 = rep.rule('C05-R2', 'reply field provenance: ARP op 2 / hardware type 1 / sender=(our MAC, requested address) / target=(requester MAC, requester address); echo replies type 0 resp. 129, code 0, payload = request payload (identifier, sequence number and data are one slice); NA: flags Solicited|Override, target = solicited target, option TargetLLAddr(2) length 1 holding our MAC', floor=14)

    def one(f, name, pred, what):
        s = setter(f, name)
        key = '%s:%s' % (f.id.split('::')[-2] + '::' + f.id.split('::')[-1], name)
        if len(s) != 1:
            rep.bad(r2, key, 'expected exactly one %s call, found %d' % (name, len(s)), '%s:%d' % (f.file, f.line))
            return
        v = f.objview(f.arg(s[0][0], 1), s[0][0])
        rep.check(r2, pred(v), key, '%s <- %s (required: %s)' % (name, short(v)[:120], what), f.loc(s[0][0]))
    one(arp, 'set_operation', lambda v: const_val(v) == 2, '2 (reply)')
    one(arp, 'set_hardware_type', lambda v: const_val(v) == 1, '1 (Ethernet)')
    one(arp, 'set_sender_hw_addr', lambda v: peel(v) == ('entry', ('field', ('deref', ('param', 2)), 'mac')), 'configured MAC')
    one(arp, 'set_sender_proto_addr', lambda v: rq('get_target_proto_addr')(v), 'requested address')
    one(arp, 'set_target_hw_addr', lambda v: rq('get_sender_hw_addr')(v), "requester's MAC")
    one(arp, 'set_target_proto_addr', lambda v: rq('get_sender_proto_addr')(v), "requester's address")
    ow = arp.calls(r"MutableArpPacket::<'a>::owned$")
    v = peel(arp.objview(arp.arg(ow[0][0], 0), ow[0][0]), unwraps=False) if len(ow) == 1 else None
    ok = v is not None and is_call(v, r'to_vec$') and is_call(peel(v[2][0]), r"ArpPacket<'a> as pnet::packet::Packet>::packet$") and peel(peel(v[2][0])[2][0]) == ('param', 1)
    rep.check(r2, ok, 'arp::repl:buffer', 'reply buffer = copy of the request (protocol type and address lengths preserved): %s' % (short(v) if v else None), arp.loc(ow[0][0]) if ow else '')
    # every ARP setter runs on every path to the reply
    for n in ['set_operation', 'set_hardware_type', 'set_sender_hw_addr', 'set_sender_proto_addr', 'set_target_hw_addr', 'set_target_proto_addr']:
        bl = [b for b, _ in setter(arp, n)]
        r = arp.reachable(0, removed_blocks=bl)
        rep.check(r2, not [x for x in some_points(arp) if x in r], 'arp::repl:%s:always' % n, 'on every path to the reply', arp.loc(bl[0]) if bl else '')
    # ICMPv4
    one(i4, 'set_icmp_type', lambda v: const_val(v) == 0, '0 (echo reply)')
    one(i4, 'set_icmp_code', lambda v: const_val(v) == 0, '0')

    def is_req_payload(v, cls):
        v = peel(v)
        if is_call(v, r'to_vec$'):
            v = peel(v[2][0])
        return is_call(v, r"%sPacket<'a> as pnet::packet::Packet>::payload$" % cls) and peel(v[2][0]) == ('param', 1)
    one(i4, 'set_payload', lambda v: is_req_payload(v, 'Icmp'), 'request payload')
    ow = i4.calls(r"MutableIcmpPacket::<'a>::owned$")
    v = peel(i4.objview(i4.arg(ow[0][0], 0), ow[0][0]), unwraps=False) if len(ow) == 1 else None
    ok = False
    if v is not None and is_call(v, r'from_elem$') and const_val(v[2][0]) == 0:
        n = peel(v[2][1], casts=True)
        if isinstance(n, tuple) and n[0] == 'field':
            n = n[1]
        ok = isinstance(n, tuple) and n[0] == 'bin' and n[1] in ('Add', 'AddWithOverflow') and is_call(peel(n[2]), r'IcmpPacket::<.a>::minimum_packet_size$') and \
            is_call(peel(n[3]), r'len$') and is_req_payload(peel(n[3])[2][0], 'Icmp')
    rep.check(r2, ok, 'icmpv4::repl:buffer', 'buffer = header + len(request payload): %s' % (short(v)[:100] if v else None), i4.loc(ow[0][0]) if ow else '')
    for n in ['set_icmp_type', 'set_icmp_code', 'set_payload']:
        bl = [b for b, _ in setter(i4, n)]
        r = i4.reachable(0, removed_blocks=bl)
        rep.check(r2, not [x for x in some_points(i4) if x in r], 'icmpv4::repl:%s:always' % n, 'on every path to the reply', i4.loc(bl[0]) if bl else '')
    # ICMPv6 echo
    pops = setter(i6, 'populate')
    ok = len(pops) == 1
    v = peel(i6.objview(i6.arg(pops[0][0], 1), pops[0][0]), unwraps=False) if ok else None
    ok = ok and isinstance(v, tuple) and v[0] == 'agg' and v[1].endswith('icmpv6::Icmpv6::Icmpv6') and len(v[2]) == 4 and \
        const_val(v[2][0]) == 129 and const_val(v[2][1]) == 0 and const_val(v[2][2]) == 0 and is_req_payload(v[2][3], 'Icmpv6')
    rep.check(r2, ok, 'icmpv6::repl:echo-reply', 'echo reply = %s' % (short(v)[:140] if v else None), i6.loc(pops[0][0]) if pops else '')
    if pops:
        pb = pops[0][0]
        ow = [b for b, t in i6.calls(r"MutableIcmpv6Packet::<'a>::owned$") if b in i6.dominators()[pb]]
        bv = peel(i6.objview(i6.arg(ow[-1], 0), ow[-1]), unwraps=False) if ow else None
        okb = bv is not None and is_call(bv, r'from_elem$') and is_call(peel(bv[2][1]), r'Icmpv6Packet::<.a>::packet_size$') and peel(peel(bv[2][1])[2][0], unwraps=False) == v
        rep.check(r2, okb, 'icmpv6::repl:echo-buffer', 'buffer sized by packet_size(the same message)', i6.loc(ow[-1]) if ow else '')
    # NS -> NA relay
    ow = [b for b, t in i6.calls(r"MutableIcmpv6Packet::<'a>::owned$")]
    rel = [b for b in ow if is_call(peel(i6.through_refs(i6.arg(b, 0), b), unwraps=False), r'to_vec$') and
           calls_in(i6.through_refs(i6.arg(b, 0), b), r'nd_ns_repl$')]
    rep.check(r2, len(rel) == 1, 'icmpv6::repl:na-relay', 'the advertisement built by nd_ns_repl is sent unchanged: %s' % (len(rel) == 1), i6.loc(rel[0]) if rel else '')
    # NA content
    pops = setter(nd, 'populate')
    ok = len(pops) == 1
    v = peel(nd.objview(nd.arg(pops[0][0], 1), pops[0][0]), unwraps=False) if ok else None
    ok = ok and isinstance(v, tuple) and v[0] == 'agg' and v[1].endswith('ndp::NeighborAdvert::NeighborAdvert') and len(v[2]) == 8 and \
        const_val(v[2][0]) == 136 and const_val(v[2][1]) == 0 and const_val(v[2][2]) == 0 and const_val(v[2][3]) == 0x60 and const_val(v[2][4]) == 0 and \
        rq('get_target_addr')(v[2][5])
    rep.check(r2, ok, 'nd_ns_repl:advert', 'NeighborAdvert = %s' % (short(v)[:200] if v else None), nd.loc(pops[0][0]) if pops else '')
    so = setter(nd, 'set_options')
    ok = len(so) == 1
    ov = peel(nd.objview(nd.arg(so[0][0], 1), so[0][0]), unwraps=False) if ok else None
    opt = None
    if ok and isinstance(ov, tuple) and ov[0] == 'agg' and len(ov[2]) == 1:
        opt = peel(ov[2][0], unwraps=False)
    ok = opt is not None and opt[0] == 'agg' and opt[1].endswith('ndp::NdpOption::NdpOption') and const_val(opt[2][0]) == 2 and const_val(opt[2][1]) == 1 and \
        peel(opt[2][2]) == ('entry', ('field', ('deref', ('param', 2)), 'mac'))
    rep.check(r2, ok, 'nd_ns_repl:tlla-option', 'option = %s' % (short(opt)[:160] if opt else short(ov)[:100] if ov else None), nd.loc(so[0][0]) if so else '')
    # buffer = packet_size(&advert) + packet_size(&option); populate and set_options both on every path
    ow = nd.calls(r"MutableNeighborAdvertPacket::<'a>::owned$")
    bv = peel(nd.objview(nd.arg(ow[0][0], 0), ow[0][0]), unwraps=False) if len(ow) == 1 else None
    okb = False
    if bv is not None and is_call(bv, r'from_elem$'):
        n = peel(bv[2][1], casts=True)
        if isinstance(n, tuple) and n[0] == 'field':
            n = n[1]
        if isinstance(n, tuple) and n[0] == 'bin' and n[1] in ('Add', 'AddWithOverflow'):
            a, b = peel(n[2]), peel(n[3])
            okb = is_call(a, r'NeighborAdvertPacket::<.a>::packet_size$') and peel(a[2][0], unwraps=False) == v and \
                is_call(b, r'NdpOptionPacket::<.a>::packet_size$') and peel(b[2][0], unwraps=False) == opt
    rep.check(r2, okb, 'nd_ns_repl:buffer', 'buffer = packet_size(advert) + packet_size(option): %s' % okb, nd.loc(ow[0][0]) if ow else '')
    for n in ['populate', 'set_options']:
        bl = [b for b, _ in setter(nd, n)]
        r = nd.reachable(0, removed_blocks=bl)
        rep.check(r2, not [x for x in some_points(nd) if x in r], 'nd_ns_repl:%s:always' % n, 'on every path to the reply', nd.loc(bl[0]) if bl else '')
    # order: populate before set_options (populate rewrites the fixed part incl. an empty option list)
    if pops and so:
        later = set()
        for s in nd.succ[so[0][0]]:
            later |= nd.reachable(s)
        rep.check(r2, pops[0][0] not in later, 'nd_ns_repl:populate-then-options', 'set_options is not followed by populate', nd.loc(so[0][0]))

    # the echo reply / neighbour advertisement built above is carried by the IP layer whole and unpadded: the IP
    # payload is the ICMP object itself and the IP buffer is exactly header + its length (same facts as C04-R2)
    from rules.c04 import obj_of, len_of_obj, alloc_is_min_plus_len
    for fid, cls, lenset, l4cls in [('layer_3::ipv4::repl', 'Ipv4', 'set_total_length', 'Icmp'), ('layer_3::ipv6::repl', 'Ipv6', 'set_payload_length', 'Icmpv6')]:
        f3 = F.fn(fid)
        rep.saw(f3)
        objs = [l for l, loc_ in enumerate(f3.locals) if re.search(r'Mutable%sPacket<' % l4cls, loc_['ty'])]
        cps = [(b, obj_of(f3.objview(f3.arg(b, 1), b))) for b, t in f3.calls(r"::MutableIp\w+Packet::<'a>::set_payload$")]
        cps = [(b, o) for b, o in cps if o in objs]
        ok = len(cps) == 1
        det = '%d copies of the %s reply into the IP packet' % (len(cps), l4cls)
        if ok:
            b, o = cps[0]
            v = f3.objview(f3.arg(b, 1), b)
            # the payload is the object's bytes: packet(&obj), possibly copied (to_vec) and re-borrowed - obj_of passes through exactly those
            whole = obj_of(v) == o and any(is_call(x, r'Packet>?::packet$') for x in walk(v)) and not any(is_call(x, r'Index|get$|split|payload$') for x in walk(v))
            ow = [b2 for b2, tt in f3.calls(r"::MutableIp\w+Packet::<'a>::owned$") if b2 in f3.dominators().get(b, ())]
            alloc = bool(ow) and alloc_is_min_plus_len(f3.objview(f3.arg(ow[-1], 0), ow[-1]), o, cls)
            ls = [b2 for b2, tt in f3.calls(r"::MutableIp\w+Packet::<'a>::%s$" % lenset) if b2 in f3.dominators().get(b, ()) or b in f3.dominators().get(b2, ())]
            lens = []
            for b2 in ls:
                val = f3.objview(f3.arg(b2, 1), b2)
                if any(isinstance(c, tuple) and c[0] == 'call' and re.search(r'Packet>?::packet$', c[1]) and obj_of(c[2][0]) == o for c in walk(val)):
                    vv = peel(val, casts=True)
                    if isinstance(vv, tuple) and vv[0] == 'field' and vv[2] == '0':
                        vv = vv[1]
                    if cls == 'Ipv4':
                        lens.append(isinstance(vv, tuple) and vv[0] == 'bin' and vv[1] in ('Add', 'AddWithOverflow') and is_call(peel(vv[2]), r'minimum_packet_size$') and len_of_obj(vv[3], o))
                    else:
                        lens.append(len_of_obj(val, o))
            ok = whole and alloc and lens == [True]
            det = 'payload = the whole %s reply: %s; buffer = header + its length: %s; length field from its length: %s' % (l4cls, whole, alloc, lens)
        rep.check(r2, ok, '%s:%s-carried-whole' % (fid.split('::')[-2], l4cls.lower()), det, '%s:%d' % (f3.file, f3.line))

    # "handled address" means: a member of the configured self-IP list - which is the set main() parsed from its options and
    # handed over as given (C02-R6, same facts)
    from vlib.runner import borrow
    r2b = rep.rule('C05-R2b', 'the handled addresses are the configured ones: the self-IP list reaches the stack as parsed from --self-ip-file / --self-ip-list (C02-R6)', floor=3)
    for rid_, inst in borrow(ctx, 'C02', lambda r_, k_: r_ == 'C02-R6' and (k_.startswith('parser:') or k_ in ('main:self_ip_list', 'main:one-context', 'main:context-used'))):
        rep.check(r2b, inst['ok'], '%s:%s' % (rid_, inst['key']), inst['detail'], inst['loc'])
    # a request of the statement reaches ARP / ICMP only if layer 2 admits its destination MAC: the admission test and the set
    # it consults (configured MAC, broadcast, all-nodes, derived multicasts) are C02-R1 / R1b, on the same facts
    borrowed_rule(ctx, 'C05', 'RG', 'layer-2 admission: the frame is let through exactly for the configured MAC, broadcast, all-nodes and the multicast MACs derived from the handled addresses, computed from this frame\'s configuration (C02-R1, R1b)',
                  'C02', lambda r_, k_: r_ in ('C02-R1', 'C02-R1b'), floor=8)
    r3 = rep.rule('C05-R3', 'the converse: an ARP request / echo request / neighbour solicitation is left unanswered only for the reasons of the statement (other operation/type/code, target not handled, truncated message) - decided by enumerating the path facts of every None return', floor=4)
    from rules import silence
    silence.run_for(ctx, r3, ['layer_2::arp::repl', 'layer_4::icmpv4::repl', 'layer_4::icmpv6::repl', 'layer_4::icmpv6::nd_ns_repl'])
    hand_over_sound(ctx, 'C05')


