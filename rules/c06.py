"""C06 — SYN policy mimics Linux; SYN-ACK acks seq+1 with a deterministic cookie."""
from rules.common import *

CI = 'client::client_info::ClientInfo'


def req(name):
    def p(e):
        e = peel(e)
        return is_call(e, r"TcpPacket::<'a>::%s$" % name) and peel(e[2][0]) == ('param', 1)
    return p


def cookie_inputs(F):
    """C06-R3 as a list of (ok, key, detail, loc): generate() is a pure function of exactly the four endpoint fields
    and the two key words, each fed whole to the hash on every path to Ok - what makes the table key (C08, C09) and
    the SYN-ACK sequence number (C06) identify the flow and nothing else."""
    out = []

    def chk(cond, key, detail, loc=''):
        out.append((bool(cond), key, detail, loc))
        return cond
    g = F.fn(GENERATE)
    pass
    reads = set()
    for (k, ch, bi, l, ty, dr) in field_accesses(g):
        idx = [i for i, (a, _) in enumerate(ch) if a == CI]
        if idx:
            reads.add('.'.join(x[1] for x in ch[idx[0]:][:2] if x[0] not in ('variant', 'discr')))
    chk(reads == {'ip.src', 'ip.dst', 'port.src', 'port.dst'}, 'generate:reads', 'ClientInfo fields read: %s' % sorted(reads), '%s:%d' % (g.file, g.line))
    cone = F.cone([GENERATE])
    ext = set(F.ext_calls(cone))
    badext = sorted(c for c in ext if re.search(CLOCKS, c) or re.search(NONDET, re.sub('^<', '', c)))
    allowed_ext = r'siphasher::|std::hash::Hasher|std::io::Error::new|PartialEq|convert::(Into|TryInto|TryFrom|From)|Option::<T>::unwrap|Result::<T, E>::unwrap|std::net::Ipv[46]Addr|ops::FromResidual<[^>]*>>*::from_residual|ops::Try>::branch'
    unknown = sorted(c for c in ext if not re.search(allowed_ext, c))
    chk(cone == {GENERATE} and not badext and not unknown, 'generate:cone', 'local cone %s; external callees outside the hashing/conversion set: %s' % (sorted(cone), unknown + badext), '%s:%d' % (g.file, g.line))
    statics_touched = [t['callee'] for _, t in g.calls(resolved_re=r'as std::ops::Deref>::deref$') if 'lazy' in str(t['resolved']).lower()]
    chk(not statics_touched, 'generate:no-static', 'statics dereferenced: %s' % statics_touched)
    # key
    nk = g.calls(r'SipHasher24::new_with_keys$')
    ok = len(nk) == 1
    if ok:
        a0, a1 = peel(g.argv(nk[0][0], 0)), peel(g.argv(nk[0][0], 1))

        def keyidx(e, n):
            return isinstance(e, tuple) and e[0] == 'entry' and Fn.root_of(e[1]) == ('deref', ('param', 2)) and \
                [p for p in Fn.path_of(e[1])] and const_val(Fn.path_of(e[1])[-1][1]) == n
        ok = keyidx(a0, 0) and keyidx(a1, 1)
    chk(ok, 'generate:key', 'hasher keyed with (%s, %s)' % ((short(a0), short(a1)) if nk else ('?', '?')), g.loc(nk[0][0]) if nk else '')
    # Ok returns
    ok_rets = []
    for bi, b in enumerate(g.blocks):
        if b['cleanup']:
            continue
        for i, s in enumerate(b['stmts']):
            rv = s['rv']
            if rv['k'] == 'agg' and rv.get('adt') == 'std::result::Result' and rv.get('variant') == 'Ok' and not s['lhs']['p'] and s['lhs']['l'] in returned_locals(g):
                ok_rets.append((bi, g._through(g.rvalue(rv, (bi, i)), (bi, i), 0)))
    chk(len(ok_rets) == 1, 'generate:ok-sites', '%d Ok(..) construction sites' % len(ok_rets))
    writes = [(bi, t['name'], peel(g.argv(bi, 1), casts=True)) for bi, t in g.calls(r'Hasher::write_\w+$')]

    def is_field(e, fld, variant=None):
        # entry:((*arg1.ip.src as Some).0 as V6).0   /  unwrap(entry:*arg1.port.src)
        e = peel(e, casts=True)
        if not (isinstance(e, tuple) and e[0] == 'entry'):
            return False
        path = [p[1] for p in Fn.path_of(e[1]) if p[0] == 'f' and p[1] != '0']
        vars_ = [p[1] for p in Fn.path_of(e[1]) if p[0] == 'v']
        return path == fld.split('.') and Fn.root_of(e[1]) == ('deref', ('param', 1)) and (variant is None or variant in vars_)
    for bi, val in ok_rets:
        fin = calls_in(val, r'Hasher>::finish$|Hasher::finish$')
        v = peel(val)
        inner = peel(v[2][0], casts=True) if isinstance(v, tuple) and v[0] == 'agg' else None
        while is_call(inner, r'try_into$|unwrap$'):
            inner = peel(inner[2][0], casts=True)
        okv = isinstance(inner, tuple) and inner[0] == 'bin' and inner[1] == 'BitAnd' and const_val(inner[3]) == 0xFFFFFFFF and is_call(peel(inner[2]), r'finish$')
        chk(okv and len(fin) == 1, 'generate:result', 'Ok value = %s' % short(val)[:100], g.loc(bi))
        for fld in ['ip.src', 'ip.dst', 'port.src', 'port.dst']:
            wb = [b for b, n, a in writes if is_field(a, fld)]
            reach = g.reachable(0, removed_blocks=wb)
            chk(bool(wb) and bi not in reach, 'generate:feeds:' + fld,
                      '%d hasher writes of %s; Ok reachable without one: %s' % (len(wb), fld, bi in reach), g.loc(wb[0]) if wb else '')
    # every hasher write is one of the four inputs (nothing else is mixed in), same object
    for b, n, a in writes:
        which = [fld for fld in ['ip.src', 'ip.dst', 'port.src', 'port.dst'] if is_field(a, fld)]
        chk(len(which) == 1, 'generate:write:%s:%s' % (n, which[0] if which else short(a)[:30]), '%s(%s)' % (n, short(a)[:80]), g.loc(b))

    # the two address families must not be able to produce the same hashed message: their address writes differ in
    # width (u32 vs u128) - SipHash covers the message length - so a V4 flow and a V6 flow never share a cookie by
    # construction
    fam = {}
    for b, n, a in writes:
        for v_ in ('V4', 'V6'):
            if is_field(a, 'ip.src', v_) or is_field(a, 'ip.dst', v_):
                fam.setdefault(v_, []).append(n)
    chk(sorted(fam) == ['V4', 'V6'] and sorted(fam['V4']) != sorted(fam['V6']), 'generate:families-distinct',
        'address writes per family: %s (the two sequences must differ in width)' % {k_: sorted(v_) for k_, v_ in fam.items()}, '%s:%d' % (g.file, g.line))
    return out


def run(ctx):
    F = ctx.facts()
    rep = ctx.rep
    rep.not_decided += ['avalanche / collision behaviour of SipHash-2-4 (the 2^-32 clause)', 'pnet flag getter/setter bit layout']
    try:
        tcp, table, heads, label = tcp_arms(F)
    except FlagTableFork as e:
        # guards that mix the flags with other request data: the arm is a relation of the flags (rules/common.py tcp_table).
        # A flag value that CAN select an arm other than the reference policy's is a violation of the table rule whatever
        # the other data is; if every possible arm agrees with the policy the relation is beyond this check: no verdict.
        lab = {}
        for hs in e.rows.values():
            for h in hs:
                if h not in lab:
                    c = classify_arm(e.fn, h)
                    if c.startswith('reply'):
                        fl = sorted(set(v for _, v in last_set_flags(e.fn, h)), key=lambda x: -1 if x is None else x)
                        c = 'synack' if fl == [SYN | ACK] else 'finack' if fl == [FIN | ACK] else 'other:flags=%s' % fl
                    lab[h] = c
        off = [(v, sorted(set(lab[h] for h in hs))) for v, hs in sorted(e.rows.items()) if set(lab[h] for h in hs) != {flag_policy(v)}]
        if not off:
            raise
        r1 = rep.rule('C06-R1', 'exhaustive decision table of the 512 TCP flag values: the arm selected by tcp::repl equals the reference policy - here the arm depends on request data other than the flags; every arm a flag value can select must be the policy\'s', floor=1)
        for v, ls in off:
            rep.check(r1, False, 'flags=%#05x' % v, 'arms this value can select: %s, reference policy: %s' % (ls, flag_policy(v)), e.fn.loc(e.rows[v][0]))
        rep.not_decided.append('the remaining C06 rules need the flag table as a function; not evaluated on this tree')
        return
    rep.saw(tcp)

    r1 = rep.rule('C06-R1', 'exhaustive decision table of the 512 TCP flag values: the arm selected by tcp::repl equals the reference policy (SYN-ACK iff SYN set and the other flags are a subset of {PSH,URG,CWR,ECE} without CWR&ECE, after the PSH|ACK / ACK / RST / FIN|ACK arms)', floor=512)
    mism = 0
    for v in range(512):
        got = label[table[v]]
        want = flag_policy(v)
        ok = got == want
        if not ok:
            mism += 1
        rep.check(r1, ok, 'flags=%#05x' % v, 'selected arm: %s, reference policy: %s' % (got, want), tcp.loc(table[v]))
    rep.extra['decision_table'] = {lab: len([v for v in range(512) if label[table[v]] == lab]) for lab in set(label.values())}
    rep.extra['exhaustive'] = True

    r2 = rep.rule('C06-R2', 'SYN-ACK arm: flags = SYN|ACK (last write), ack = wrapping_add(request seq, 1), seq = generate(client_info, synack_key), header-only buffer (no payload)', floor=4)
    syn_heads = [h for h, l in label.items() if l == 'synack']
    if len(syn_heads) != 1:
        rep.bad(r2, 'synack-arm', 'expected one SYN-ACK arm, found %d' % len(syn_heads))
    else:
        h = syn_heads[0]
        bl = dominated(tcp, h)
        calls = {b: tcp.blocks[b]['term'] for b in bl if tcp.blocks[b]['term']['k'] == 'call'}

        def site(name):
            return [b for b, t in calls.items() if t['callee'].endswith("MutableTcpPacket::<'a>::" + name)]
        sa = site('set_acknowledgement')
        ok = tcp.n_sites(sa) == 1
        v = peel(tcp.argv(sa[0], 1)) if ok else None
        ok = ok and is_modsum(tcp.argv(sa[0], 1), [req('get_sequence')], 1)
        rep.check(r2, ok, 'synack:ack', 'acknowledgement <- %s' % (short(v) if v else None), tcp.loc(sa[0]) if sa else tcp.loc(h))
        ss = site('set_sequence')
        ok = tcp.n_sites(ss) == 1
        v = peel(tcp.argv(ss[0], 1)) if ok else None
        ok = ok and is_call(v, r'^synackcookie::generate$') and peel(v[2][0]) == ('param', 3) and \
            Fn.path_of(peel(v[2][1], unwraps=False))[-1:] == [('f', 'synack_key')] and Fn.root_of(peel(v[2][1], unwraps=False)) == ('deref', ('param', 2))
        rep.check(r2, ok, 'synack:seq', 'sequence <- %s' % (short(v) if v else None), tcp.loc(ss[0]) if ss else tcp.loc(h))
        ow = [b for b, t in calls.items() if t['callee'].endswith("MutableTcpPacket::<'a>::owned")]
        ok = tcp.n_sites(ow) == 1
        v = peel(tcp.argv(ow[0], 0), unwraps=False) if ok else None
        segs_ = buf_segments_at(tcp, ow[0], 0) if ok else None
        ok = ok and segs_ is not None and header_only(segs_, r"TcpPacket::<'a>::minimum_packet_size$")
        rep.check(r2, ok, 'synack:buffer', 'buffer <- %s' % (short(v) if v else None), tcp.loc(ow[0]) if ow else tcp.loc(h))
        fl = last_set_flags(tcp, h)
        rep.check(r2, [c for _, c in fl] == [0x12], 'synack:flags', 'last flags written: %s' % [hex(c) if c is not None else None for _, c in fl], tcp.loc(fl[0][0]) if fl else tcp.loc(h))
        # nothing is appended: no set_payload on this arm
        sp = site('set_payload')
        rep.check(r2, not sp, 'synack:no-payload', 'set_payload calls on the arm: %d' % len(sp), tcp.loc(h))
    # common trailer: data offset & window (also C04), ports (C03)

    r3 = rep.rule('C06-R3', 'synackcookie::generate is a pure function of exactly (ip.src, ip.dst, port.src, port.dst, key[0], key[1]): each is fed to the SipHash state on every path to Ok, the result is the low 32 bits of finish(), and nothing else (static, clock, RNG) is reachable', floor=8)
    rep.saw(GENERATE)
    for ok_, key_, det_, loc_ in cookie_inputs(F):
        rep.check(r3, ok_, key_, det_, loc_)

    r4 = rep.rule('C06-R4', 'the SYN arm is stateless and independent of history: no connection-table call, no payload inspection', floor=1)
    for h in syn_heads:
        bl = dominated(tcp, h)
        hit = [(tcp.blocks[b]['term']['resolved'] or [''])[0] for b in bl if tcp.blocks[b]['term']['k'] == 'call']
        bad = [c for c in hit if c in TABLE_FNS or c == 'proto::repl' or c.endswith('Packet>::payload')]
        rep.check(r4, not bad, 'synack:stateless', 'calls on the SYN arm that touch state or payload: %s' % bad, tcp.loc(h))

    # R5: the cookie exists for every port pair / address: generate() fails only for absent fields or mixed families
    r5 = rep.rule('C06-R5', 'on any port: synackcookie::generate returns Err only when an endpoint field is absent or the two addresses are of different families - never depending on the value of a port or address', floor=1)
    from rules import silence
    silence.run_for(ctx, r5, ['synackcookie::generate'], silent='Err', loud='Ok')
    hand_over_sound(ctx, 'C06')


