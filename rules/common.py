"""Helpers shared by the property rule modules."""
import re, collections
from vlib.core import *

TABLE_FNS = ['proto::tcb::is_tcb_set', 'proto::tcb::get_tcb', 'proto::tcb::add_tcb']
GENERATE = 'synackcookie::generate'

SYN, ACK, PSH, URG, ECE, CWR, FIN, RST, NS = 0x02, 0x10, 0x08, 0x20, 0x40, 0x80, 0x01, 0x04, 0x100


def dominated(f, head):
    dom = f.dominators()
    return {b for b, ds in dom.items() if head in ds}


class FlagTableFork(AnalysisError):
    """the arm tcp::repl selects is a relation of the flags (guards mix the flags with other request data): .rows = {value: [arm heads]}"""


def tcp_table(F):
    """P6 on the flag dispatch of tcp::repl: for each of the 512 flag values the arm head block.
    Returns dict(value->head), f, and per-head info."""
    f = F.fn('layer_4::tcp::repl')
    cs = f.calls(r'TcpPacket::<.*>::get_flags$')
    cs = [(bi, t) for bi, t in cs if peel(f.arg(bi, 0)) == ('param', 1)]
    if len(cs) != 1:
        raise AnalysisError('tcp::repl: expected exactly one get_flags() on the request, found %d' % len(cs))
    bi, t = cs[0]
    if t['dest']['p'] or f.locals[t['dest']['l']]['ty'] != 'u16':
        raise AnalysisError('tcp::repl: flags are not a u16 local')
    table = {}
    for v in range(512):
        k, b, _ = eval_region(f, t['target'], {t['dest']['l']: v})
        if k == 'stuck' and f.blocks[b]['term']['k'] == 'switch':
            # a branch on data other than the flags: control flow inside an arm, the arm starts here -
            # unless the flags take part in the condition (a guard mixing flags with other data is not a table row)
            d = f.switch_edges(b)[0]
            if not any(is_call(x, r'TcpPacket::<.*>::get_flags$') for x in walk(d)) and not any(isinstance(x, tuple) and x[0] in ('phi', 'cyc') for x in walk(d)):
                k = 'arm'
        if k != 'arm':
            raise AnalysisError('tcp::repl: flag dispatch is not a pure guard region (value %#x: %s at bb%d)' % (v, k, b))
        table[v] = b
    # the flags are consulted by the guards only: an arm that still reads them (a table lookup, a closure capturing them)
    # continues the dispatch behind a call, which the exhaustive evaluation above cannot see - no verdict rather than a wrong one
    fl = {t['dest']['l']}
    changed = True
    while changed:
        changed = False
        for blk in f.blocks:
            for st in blk['stmts']:
                rv = st['rv']
                src = rv.get('a') if rv['k'] in ('use', 'cast') else (rv if rv['k'] == 'ref' else None)
                pl = src.get('place') if isinstance(src, dict) else None
                if pl and pl['l'] in fl and not st['lhs']['p'] and st['lhs']['l'] not in fl and (rv['k'] == 'ref' or src['k'] in ('copy', 'move')):
                    if f.locals[st['lhs']['l']]['ty'] in ('u16', "&'{erased} u16"):
                        fl.add(st['lhs']['l'])
                        changed = True
    def consults_flags(h):
        for b2 in f.reachable(h):
            blk = f.blocks[b2]
            if blk['cleanup']:
                continue
            t2 = blk['term']
            ops = list(t2.get('args', [])) if t2['k'] == 'call' else ([t2['discr']] if t2['k'] == 'switch' else [])
            for st in blk['stmts']:
                rv = st['rv']
                ops += [rv[k_] for k_ in ('a', 'b') if isinstance(rv.get(k_), dict)] + list(rv.get('ops', []))
            if any(o.get('k') in ('copy', 'move') and o['place']['l'] in fl and f.locals[o['place']['l']]['ty'] != 'u16' for o in ops) or \
                    any(o.get('k') in ('copy', 'move') and o['place']['l'] in fl and t2['k'] == 'call' and o in t2.get('args', []) for o in ops):
                return b2
        return None

    impure = {h: consults_flags(h) for h in sorted(set(table.values()))}
    if any(x is not None for x in impure.values()):
        b2 = [x for x in impure.values() if x is not None][0]
        msg = 'tcp::repl: the flag dispatch continues inside an arm (the flags are passed to a call at %s): the decision table cannot be extracted' % f.loc(b2)
        # A guard that mixes the flags with other data of the request (`.. && !req.payload().is_empty()`): the arm is then
        # not a function of the flags.  Explore both outcomes of every test on such data; if that ends, for every flag
        # value, in arms that no longer consult the flags, the relation value -> {arms} is handed to the caller, which
        # decides whether any row can select an arm its property forbids.  Anything else stays "no verdict".
        PURE = r"TcpPacket::<.*>::(get_\w+)$|Packet>::payload$|Packet::payload$|\[u8\]>::(is_empty|len)$|\[T\]>::(is_empty|len)$"
        rows = {}
        try:
            for v in range(512):
                ends = set()
                work = [(table[v], {t['dest']['l']: v}, 0)]
                while work:
                    h, env, depth = work.pop()
                    if impure.get(h, consults_flags(h)) is None:
                        ends.add(h)
                        continue
                    t2 = f.blocks[h]['term']
                    c2 = (t2.get('resolved') or [t2.get('callee', '')])[0] if t2['k'] == 'call' else ''
                    if depth > 8 or t2['k'] != 'call' or not (re.search(PURE, c2) or re.search(PURE, t2.get('callee', ''))) or t2['target'] < 0:
                        raise AnalysisError(msg)
                    env2 = {k_: v_ for k_, v_ in env.items() if k_ != t2['dest']['l']}
                    k, b, env3 = eval_region(f, t2['target'], env2)
                    if k == 'arm':
                        work.append((b, env3, depth + 1))
                    elif k == 'stuck' and f.blocks[b]['term']['k'] == 'switch':
                        for s_ in sorted(set(f.succ[b])):
                            k4, b4, env4 = eval_region(f, s_, env3)
                            if k4 != 'arm':
                                raise AnalysisError(msg)
                            work.append((b4, env4, depth + 1))
                    else:
                        raise AnalysisError(msg)
                rows[v] = sorted(ends)
        except AnalysisError:
            raise AnalysisError(msg)
        except Exception:
            raise AnalysisError(msg)
        e = FlagTableFork(msg + ' - explored: the arm of %d flag values depends on data other than the flags' % len([v for v in rows if len(rows[v]) > 1]))
        e.rows, e.fn = rows, f
        raise e
    return f, table, bi


def arm_info(f, head):
    """What an arm does: set of callee names in the blocks dominated by the arm head,
    and the constants passed to set_flags (last one on each path matters; we collect all)."""
    blocks = dominated(f, head)
    callees = []
    flags = []
    for b in sorted(blocks):
        t = f.blocks[b]['term']
        if t['k'] == 'call':
            c = t['resolved'][0] if t['resolved'] else t['callee']
            callees.append((b, c))
            if c.endswith('MutableTcpPacket::<\'a>::set_flags'):
                flags.append((b, const_val(f.arg(b, 1))))
    return blocks, callees, flags


def classify_arm(f, head):
    blocks, callees, flags = arm_info(f, head)
    names = [c for _, c in callees]
    if any(c == 'logger::meta::MetaLogger::tcp_drop' for c in names) and not any('set_flags' in c for c in names):
        return 'drop'
    if any(c in ('proto::tcb::get_tcb', 'proto::repl') for c in names):
        return 'data'
    fl = [v for _, v in flags]
    if fl:
        return 'reply:%#04x' % fl[-1] if fl[-1] is not None else 'reply:?'
    return 'other'


def find_edges_bin(f, op, pred):
    """Edges of switches whose discriminant is ('bin', op, a, b) with pred(a, b); returns {(bi, succ): value}"""
    out = {}
    for bi in range(f.n):
        if f.blocks[bi]['cleanup']:
            continue
        se = f.switch_edges(bi)
        if not se:
            continue
        d, edges, vals = se
        if isinstance(d, tuple) and d[0] == 'bin' and d[1] == op and pred(d[2], d[3]):
            for (s, v) in edges:
                out[(bi, s)] = (v, vals)
    return out


def truthy(v, vals):
    """Is the switch edge (v, explicit values) the 'true' edge of a bool discriminant?"""
    if v is None:
        return vals == [0]
    return v != 0


def falsy(v, vals):
    if v is None:
        return 0 not in vals and vals != [] and all(x != 0 for x in vals) and False
    return v == 0


def eq_edges(f, pred):
    """CFG edges on which `a == b` is established for a pair with pred(a, b) (either order):
    false edge of Ne, true edge of Eq, through optional Not."""
    out = []
    for bi in range(f.n):
        if f.blocks[bi]['cleanup']:
            continue
        se = f.switch_edges(bi)
        if not se:
            continue
        d, edges, vals = se
        neg = False
        while isinstance(d, tuple) and d[0] == 'un' and d[1] == 'Not':
            d = d[2]
            neg = not neg
        if not (isinstance(d, tuple) and d[0] == 'bin' and d[1] in ('Eq', 'Ne')):
            # a direct `match x { c => .. }`: the edge with value c establishes x == c
            if not neg and isinstance(d, tuple) and d[0] not in ('discr',):
                for (s, v) in edges:
                    if v is not None and _try(pred, d, ('const', v, None, '?')):
                        out.append((bi, s))
            continue
        if not (pred(d[2], d[3]) or pred(d[3], d[2])):
            continue
        want_true = (d[1] == 'Eq') != neg
        for (s, v) in edges:
            if (truthy(v, vals) if want_true else v == 0):
                out.append((bi, s))
    return out


def _try(pred, a, b):
    try:
        return bool(pred(a, b))
    except Exception:
        return False


def ne_edges(f, pred):
    """CFG edges on which `a != b` is established."""
    out = []
    for bi in range(f.n):
        if f.blocks[bi]['cleanup']:
            continue
        se = f.switch_edges(bi)
        if not se:
            continue
        d, edges, vals = se
        neg = False
        while isinstance(d, tuple) and d[0] == 'un' and d[1] == 'Not':
            d = d[2]
            neg = not neg
        if not (isinstance(d, tuple) and d[0] == 'bin' and d[1] in ('Eq', 'Ne')):
            # a direct `match x { c => .., _ => .. }`: the otherwise edge establishes x != c for every listed c
            if not neg and isinstance(d, tuple) and d[0] not in ('discr',):
                for (s, v) in edges:
                    if v is None and any(_try(pred, d, ('const', c, None, '?')) for c in vals):
                        out.append((bi, s))
                    elif v is not None and any(c != v and _try(pred, d, ('const', c, None, '?')) for c in vals + [x for x in (0, 1) if x != v and False]):
                        pass
            continue
        if not (pred(d[2], d[3]) or pred(d[3], d[2])):
            continue
        want_true = (d[1] == 'Ne') != neg
        for (s, v) in edges:
            if (truthy(v, vals) if want_true else v == 0):
                out.append((bi, s))
    return out


def bool_edges(f, pred, want_true):
    """Edges on which a bool expression e with pred(e) is true (or false)."""
    out = []
    for bi in range(f.n):
        if f.blocks[bi]['cleanup']:
            continue
        se = f.switch_edges(bi)
        if not se:
            continue
        d, edges, vals = se
        neg = False
        while isinstance(d, tuple) and d[0] == 'un' and d[1] == 'Not':
            d = d[2]
            neg = not neg
        if not pred(d):
            continue
        wt = want_true != neg
        for (s, v) in edges:
            if (truthy(v, vals) if wt else v == 0):
                out.append((bi, s))
    return out


def _is_req_ack(x):
    x = peel(x)
    return is_call(x, r"TcpPacket::<'a>::get_acknowledgement$") and peel(x[2][0]) == ('param', 1)


def _max_only_at_zero(f):
    """the guarded form `if ack > 0 { ack - 1 } else { 0xFFFFFFFF }`: the constant is chosen only where ack == 0 was established"""
    mx = []
    for bi, b in enumerate(f.blocks):
        if b['cleanup']:
            continue
        for st in b['stmts']:
            if not st['lhs']['p'] and st['rv']['k'] == 'use' and st['rv']['a']['k'] == 'const' and st['rv']['a'].get('val') == 0xFFFFFFFF and st['rv']['a'].get('ty') == 'u32':
                mx.append(bi)
    z = value_edges(f, lambda k: _is_req_ack(k), 0)
    # ... or on the None edge of ack.checked_sub(1) (the same condition, decided by the library)
    def none_of_checked_sub(d, v, vals):
        if not (isinstance(d, tuple) and d[0] == 'discr') or v != 0:
            return False
        x = peel(d[1], unwraps=False)
        return is_call(x, r'<impl u32>::checked_sub$') and _is_req_ack(x[2][0]) and const_val(x[2][1]) == 1
    z = z + f.gate_edges(none_of_checked_sub)
    return bool(mx) and bool(z) and not f.must_pass(z, mx)


def is_ack_minus_one(f, e):
    guarded = any(const_val(a) == 0xFFFFFFFF for a in alts(e)) and len(alts(e)) == 2
    if guarded and not _max_only_at_zero(f):
        return False
    if is_modsum(e, [_is_req_ack], -1):
        return True
    # ack.checked_sub(1).unwrap_or(0xFFFFFFFF)
    e1 = peel(e, unwraps=False)
    if is_call(e1, r'Option::<[^>]*>::unwrap_or$') and const_val(e1[2][1]) == 0xFFFFFFFF:
        c_ = peel(e1[2][0], unwraps=False)
        if is_call(c_, r'<impl u32>::checked_sub$') and _is_req_ack(c_[2][0]) and const_val(c_[2][1]) == 1:
            return True
    return _is_ack_minus_one(f, e)


def _is_ack_minus_one(f, e):
    """e is the request's acknowledgement number minus one (mod 2^32): either wrapping_sub(ack,1) or the
    guarded form `if ack > 0 { ack - 1 } else { 0xFFFFFFFF }`."""
    def is_ack(x):
        x = peel(x)
        return is_call(x, r"TcpPacket::<'a>::get_acknowledgement$") and peel(x[2][0]) == ('param', 1)
    al = [peel(a) for a in alts(e)]
    if len(al) == 1:
        a = al[0]
        return is_call(a, r'wrapping_sub$') and is_ack(a[2][0]) and const_val(a[2][1]) == 1
    if len(al) == 2:
        subs = [a for a in al if isinstance(a, tuple) and a[0] == 'field' and a[2] == '0' and isinstance(a[1], tuple)
                and a[1][0] == 'bin' and a[1][1] in ('SubWithOverflow', 'Sub') and is_ack(a[1][2]) and const_val(a[1][3]) == 1]
        subs += [a for a in al if isinstance(a, tuple) and a[0] == 'bin' and a[1] in ('Sub', 'SubUnchecked') and is_ack(a[2]) and const_val(a[3]) == 1]
        consts = [a for a in al if const_val(a) == 0xFFFFFFFF]
        return len(subs) == 1 and len(consts) == 1
    return False


def param_origins(F, fid, pidx, _seen=None):
    """Where does parameter `pidx` (1-based) of function fid come from, over all call sites crate-wide?
    Returns list of (caller id, block, expr) for origins that are not themselves plain parameters."""
    if _seen is None:
        _seen = set()
    if (fid, pidx) in _seen:
        return []
    _seen.add((fid, pidx))
    out = []
    for (caller, bi) in F.callers(fid):
        f = F.fn(caller)
        t = f.blocks[bi]['term']
        if t['k'] != 'call' or pidx - 1 >= len(t['args']):
            out.append((caller, bi, ('?',)))
            continue
        a = f.arg(bi, pidx - 1)
        for alt in alts(a):
            p = peel(alt, unwraps=False)
            if isinstance(p, tuple) and p[0] == 'param':
                out += param_origins(F, caller, p[1], _seen)
            else:
                out.append((caller, bi, alt))
    return out


CLOCKS = r'^(std::time::SystemTime::now|std::time::Instant::now|chrono::Utc::now|chrono::Local::now|chrono::offset::\w+::now)$'
NONDET = r'^(rand::|rand_core::|std::env::|std::fs::|std::thread::|std::process::|std::net::(TcpStream|UdpSocket|TcpListener)|std::os::|getrandom::|std::hash::RandomState::new|std::collections::hash_map::RandomState::new|std::ptr::.*addr|core::ptr::.*addr)'


# ---------------------------------------------------------------------------------------
# P4 with value-numbered predicates: path-sensitive simulation that remembers the outcome of
# tests on stable expressions, so correlated tests prune infeasible paths.
def stable_expr(e, local_fns=None):
    """No loop-carried / multiply-defined parts; calls are value-numbered getters, or (if local_fns is given) the
    outermost call may be a crate-local helper evaluated at one site."""
    first = True
    for x in walk(e):
        if not isinstance(x, tuple) or not x:
            continue
        if x[0] in ('phi', 'modby', 'cyc', 'uninit', 'partial', '?', '?rv', '?promoted'):
            return False
        if x[0] == 'call' and x[3] is not None:
            # a crate-local function evaluated at one call site (not value-numbered, but one value per execution
            # of that site; the rules using this never place such sites in loops)
            if not (local_fns is not None and x[1] in local_fns):
                return False
    return True


def _norm_key(k):
    k = peel(k, unwraps=False)
    if isinstance(k, tuple) and k[0] == 'field' and k[2] == '0' and isinstance(k[1], tuple) and k[1][0] == 'call':
        return peel(k[1], unwraps=False)      # newtype scalar
    return k


def edge_fact(d, v, vals):
    """Facts established on a switch edge: list of (key, rel, const) with rel '==' / '!='."""
    neg = False
    while isinstance(d, tuple) and d[0] == 'un' and d[1] == 'Not':
        d = d[2]
        neg = not neg
    # comparison with a constant -> fact about the other side
    cmpop = None
    if isinstance(d, tuple) and d[0] == 'bin' and d[1] in ('Eq', 'Ne'):
        a, b = d[2], d[3]
        cmpop = d[1]
    elif isinstance(d, tuple) and d[0] == 'call' and d[1] in ('std::cmp::PartialEq::eq', 'std::cmp::PartialEq::ne') and len(d[2]) == 2:
        a, b = d[2]
        cmpop = 'Eq' if d[1].endswith('::eq') else 'Ne'
    if cmpop is None and isinstance(d, tuple) and d[0] == 'bin' and d[1] in ('Gt', 'Lt', 'Ge', 'Le'):
        # unsigned orderings that are (in)equalities with zero: x > 0, 0 < x, x >= 1, 1 <= x  <=>  x != 0 ; x <= 0, x < 1, 0 >= x, 1 > x  <=>  x == 0
        a, b = d[2], d[3]
        ca, cb = const_val(a), const_val(b)
        op = d[1]
        if ca is not None and cb is None:
            a, b, ca, cb = b, a, cb, ca
            op = {'Gt': 'Lt', 'Lt': 'Gt', 'Ge': 'Le', 'Le': 'Ge'}[op]
        cty = b[3] if isinstance(b, tuple) and b[0] == 'const' and len(b) > 3 else ''
        if cb is not None and ca is None and str(cty).startswith('u'):
            if (op, cb) in (('Gt', 0), ('Ge', 1)):
                cmpop, b = 'Ne', ('const', 0, None, cty)
            elif (op, cb) in (('Le', 0), ('Lt', 1)):
                cmpop, b = 'Eq', ('const', 0, None, cty)
    if cmpop:
        ca, cb = const_val(a), const_val(b)
        if cb is None and ca is not None:
            a, b, ca, cb = b, a, cb, ca
        if cb is not None and ca is None:
            key = _norm_key(a)
            if v is None:
                # otherwise edge of a bool switch
                if vals == [0]:
                    truth = True
                elif vals == [1]:
                    truth = False
                else:
                    return []
            else:
                truth = (v != 0)
            if neg:
                truth = not truth
            eq = (cmpop == 'Eq') == truth
            return [(key, '==' if eq else '!=', cb)]
    # Option/Result predicates are facts about the discriminant: x.is_some() <=> discr(x) == 1 ...
    dd = peel(d, unwraps=False)
    m_ = None
    if isinstance(dd, tuple) and dd[0] == 'call' and len(dd[2]) == 1:
        m_ = re.search(r'^std::(option::Option|result::Result)::<[^>]*(?:<[^>]*>[^>]*)*>::(is_some|is_none|is_ok|is_err)$', dd[1]) or \
            re.search(r'^(?:std|core)::(option::Option|result::Result)::<.*>::(is_some|is_none|is_ok|is_err)$', dd[1])
    if m_:
        variant = {'is_some': 1, 'is_none': 0, 'is_ok': 0, 'is_err': 1}[m_.group(2)]
        inner = dd[2][0]
        while isinstance(inner, tuple) and inner[0] == 'ref':
            inner = inner[1]
        if v is None:
            truth = True if vals == [0] else False if vals == [1] else None
        else:
            truth = (v != 0)
        if truth is not None:
            if neg:
                truth = not truth
            return [(('discr', inner), '==', variant if truth else 1 - variant)]
    key = _norm_key(d)
    if v is not None:
        val = v
        if neg and v in (0, 1):
            val = 1 - v
        return [(key, '==', val)]
    out = []
    if neg and vals in ([0], [1]):
        return [(key, '==', vals[0])]
    if vals == [0] and not neg:
        # bool: otherwise of [0] is true  (also holds for discriminants with two variants: handled by caller if needed)
        return [(key, '!=', 0)]
    for x in vals:
        out.append((key, '!=', x))
    return out


def consistent(facts, new):
    k, rel, c = new
    for (k2, r2, c2) in facts:
        if k2 != k:
            continue
        if rel == '==' and r2 == '==' and c2 != c:
            return False
        if rel == '==' and r2 == '!=' and c2 == c:
            return False
        if rel == '!=' and r2 == '==' and c2 == c:
            return False
    return True


def returned_locals(f):
    """locals whose value is handed to the return place: directly, by whole moves, or as a component of the returned tuple"""
    flows = {0}
    changed = True
    while changed:
        changed = False
        for b in f.blocks:
            if b['cleanup']:
                continue
            for s in b['stmts']:
                if s['lhs']['p'] or s['lhs']['l'] not in flows:
                    continue
                rv = s['rv']
                ops = [rv['a']] if rv['k'] == 'use' else (rv['ops'] if rv['k'] == 'agg' and rv.get('agg') == 'tuple' else [])
                for o in ops:
                    if o['k'] in ('copy', 'move') and not o['place']['p'] and o['place']['l'] not in flows:
                        flows.add(o['place']['l'])
                        changed = True
    return flows


def some_points(f):
    """Blocks in which a reply is materialised: `X = Option::Some{..}` with X of the function's reply Option type."""
    rty = f.locals[0]['ty']
    if rty.startswith('('):
        # tuple: first component
        depth = 0
        for i, ch in enumerate(rty):
            if ch in '<([':
                depth += 1
            elif ch in '>)]':
                depth -= 1
            elif ch == ',' and depth == 1:
                rty = rty[1:i]
                break
    # an Option of the same type that only lives inside the function (the result of an inlined helper, matched on and
    # unpacked again) is not a reply point
    flows = returned_locals(f)
    out = []
    for bi, b in enumerate(f.blocks):
        if b['cleanup']:
            continue
        for s in b['stmts']:
            rv = s['rv']
            if rv['k'] == 'agg' and rv.get('adt') == 'std::option::Option' and rv.get('variant') == 'Some' and not s['lhs']['p']:
                if f.locals[s['lhs']['l']]['ty'] == rty and s['lhs']['l'] in flows:
                    out.append(bi)
    return sorted(set(out))


def forwarded_reply_points(f):
    """Blocks whose call hands its result - a value of the function's own reply Option type - straight to the return place
    (`return callee(..)`): a reply can be materialised there although no `Some` is built in this function."""
    rty = f.locals[0]['ty']
    if rty.startswith('('):
        return []
    flows = returned_locals(f)
    out = []
    for bi, b in enumerate(f.blocks):
        t = b['term']
        if b['cleanup'] or t['k'] != 'call':
            continue
        d = t['dest']
        if not d['p'] and d['l'] in flows and f.locals[d['l']]['ty'] == rty and rty.startswith('std::option::Option<'):
            out.append(bi)
    return out


def is_none_fact(facts, key):
    return (key, '!=', 1) in facts or (key, '==', 0) in facts


def interesting_locals(f):
    """Locals whose value has to be followed per path: a switch discriminant that, seen path-insensitively, is a
    merge of several definitions (e.g. the result of an inlined bool helper: `!list.contains(x)` on one path,
    `false` on the other), and the locals that flow into it by plain copies."""
    c = getattr(f, '_interesting', None)
    if c is not None:
        return c
    S = set()
    for bi in range(f.n):
        b = f.blocks[bi]
        if b['cleanup']:
            continue
        t = b['term']
        if t['k'] == 'switch' and t['discr']['k'] in ('copy', 'move') and not t['discr']['place']['p']:
            d = f.switch_edges(bi)[0]
            if any(isinstance(x, tuple) and x and x[0] == 'phi' for x in walk(d)):
                S.add(t['discr']['place']['l'])
    changed = True
    while changed:
        changed = False
        for b in f.blocks:
            if b['cleanup']:
                continue
            for st in b['stmts']:
                if st['lhs']['p'] or st['lhs']['l'] not in S:
                    continue
                rv = st['rv']
                ops = []
                if rv['k'] == 'use':
                    ops = [rv['a']]
                elif rv['k'] == 'un':
                    ops = [rv['a']]
                for o in ops:
                    if o['k'] in ('copy', 'move') and not o['place']['p'] and o['place']['l'] not in S:
                        S.add(o['place']['l'])
                        changed = True
    f._interesting = S
    return S


def _bindings(flags):
    return {x[1]: x[2] for x in flags if isinstance(x, tuple) and len(x) == 3 and x[0] == 'bind'}


def _unbind(flags, l):
    return frozenset(x for x in flags if not (isinstance(x, tuple) and len(x) == 3 and x[0] == 'bind' and x[1] == l))


def _variants(flags):
    return {x[1]: x[2] for x in flags if isinstance(x, tuple) and len(x) == 3 and x[0] == 'var'}


def sim_on_stmt(f, bi, i, stmt, st, stable_fn=None):
    """Shared statement transfer of the fact simulations: constants, per-path bindings of interesting locals, and the
    variant of enum values built on this path (a decision carried in a value: `Verdict::Drop` / `Verdict::Answer(..)`,
    `Some(..)` / `None` returned by an inlined helper) so that a later `match` on it follows only the matching arm."""
    flags, facts = st
    lhs, rv = stmt['lhs'], stmt['rv']
    if lhs['p']:
        return st
    l = lhs['l']
    vs = _variants(flags)
    if l in vs:
        flags = frozenset(x for x in flags if not (isinstance(x, tuple) and len(x) == 3 and x[0] == 'var' and x[1] == l))
    if rv['k'] == 'agg' and rv.get('agg') == 'adt' and 'vidx' in rv:
        flags = flags | {('var', l, rv['vidx'])}
    elif rv['k'] == 'use' and rv['a']['k'] in ('copy', 'move') and not rv['a']['place']['p'] and rv['a']['place']['l'] in vs:
        flags = flags | {('var', l, vs[rv['a']['place']['l']])}
    elif rv['k'] == 'discr' and not rv['place']['p'] and rv['place']['l'] in vs:
        key0 = ('local', l)
        facts = frozenset({x for x in facts if x[0] != key0} | {(key0, '==', vs[rv['place']['l']])})
        return (flags, facts)
    key = ('local', l)
    had = [x for x in facts if x[0] == key]
    INT = ('bool', 'u8', 'usize', 'isize', 'u32', 'u16', 'u64', 'i32')
    if rv['k'] == 'use' and rv['a']['k'] == 'const' and isinstance(rv['a'].get('val'), int) and rv['a'].get('ty') in INT:
        nf = set(facts) - set(had)
        nf.add((key, '==', rv['a']['val']))
        if l in interesting_locals(f):
            flags = _unbind(flags, l)
        return (flags, frozenset(nf))
    if had:
        facts = frozenset(set(facts) - set(had))
    if l not in interesting_locals(f):
        return (flags, facts)
    flags = _unbind(flags, l)
    binds = _bindings(flags)
    src = rv['a'] if rv['k'] in ('use', 'un') else None
    if src is not None and src['k'] in ('copy', 'move') and not src['place']['p']:
        y = src['place']['l']
        yc = [x for x in facts if x[0] == ('local', y) and x[1] == '==']
        neg = rv['k'] == 'un' and rv.get('op') == 'Not'
        if rv['k'] == 'un' and not neg:
            return (flags, facts)
        if yc:
            v = yc[0][2]
            if neg:
                if f.locals[y]['ty'] != 'bool':
                    return (flags, facts)
                v = 1 - v
            return (flags, frozenset(set(facts) | {(key, '==', v)}))
        if y in binds:
            e = ('un', 'Not', binds[y]) if neg else binds[y]
            return (flags | {('bind', l, e)}, facts)
    e = f._through(f.rvalue(rv, (bi, i)), (bi, i), 0)
    if stable_expr(e, f.facts.fns) or (stable_fn is not None and _stable_parts(e, f.facts.fns, stable_fn)):
        flags = flags | {('bind', l, e)}
    return (flags, facts)


def _stable_parts(e, fns, stable_fn):
    """e is stable, or a comparison / negation whose unstable operands are accepted by stable_fn"""
    if stable_expr(e, fns) or stable_fn(e):
        return True
    if isinstance(e, tuple) and e and e[0] == 'bin' and e[1] in ('Eq', 'Ne', 'Lt', 'Le', 'Gt', 'Ge', 'BitAnd'):
        return _stable_parts(e[2], fns, stable_fn) and _stable_parts(e[3], fns, stable_fn)
    if isinstance(e, tuple) and e and e[0] == 'un':
        return _stable_parts(e[2], fns, stable_fn)
    return False


def sim_on_term(f, bi, t, st):
    flags, facts = st
    if t['k'] == 'call' and not t['dest']['p']:
        l = t['dest']['l']
        if l in _variants(flags):
            flags = frozenset(x for x in flags if not (isinstance(x, tuple) and len(x) == 3 and x[0] == 'var' and x[1] == l))
        key = ('local', l)
        had = [x for x in facts if x[0] == key]
        if had:
            facts = frozenset(set(facts) - set(had))
        if l in interesting_locals(f):
            flags = _unbind(flags, l)
            e = f.call_val(bi)
            if stable_expr(e, f.facts.fns):
                flags = flags | {('bind', l, e)}
    return (flags, facts)


def sim_discr(f, bi, d, st):
    """-> ('const', v) when the branch value is known on this path, ('expr', e) with the expression to reason about."""
    flags, facts = st
    tt = f.blocks[bi]['term']
    if tt['discr']['k'] in ('copy', 'move') and not tt['discr']['place']['p']:
        l = tt['discr']['place']['l']
        known = [x for x in facts if x[0] == ('local', l) and x[1] == '==']
        if known:
            return ('const', known[0][2])
        b = _bindings(flags)
        if l in b:
            return ('expr', b[l])
    return ('expr', d)


def fact_sim(f, track, init_flags=frozenset(), on_call=None, on_edge_flags=None, stable_fn=None):
    """Simulate f with states (flags, facts). `track(key)` selects which stable test keys are remembered.
    on_call(bi, term, flags) -> flags ; on_edge_flags(bi, succ, facts_on_edge, flags) -> flags.
    Returns (states_at_block_entry, exits)."""
    def on_stmt(bi, i, stmt, st):
        return sim_on_stmt(f, bi, i, stmt, st, stable_fn)

    def on_term(bi, t, st):
        flags, facts = st
        if t['k'] == 'call' and on_call:
            flags = on_call(bi, t, flags)
        return sim_on_term(f, bi, t, (flags, facts))

    def on_edge(bi, s, v, d, vals, st):
        flags, facts = st
        kind, x = sim_discr(f, bi, d, st)
        if kind == 'const':
            taken = v == x if v is not None else x not in vals
            return (flags, facts) if taken else None
        efs = edge_fact(x, v, vals)
        newfacts = set(facts)
        for ef in efs:
            if not ((stable_fn(ef[0]) if stable_fn else False) or stable_expr(ef[0], f.facts.fns)) or not track(ef[0]):
                continue
            if not consistent(newfacts, ef):
                return None
            newfacts.add(ef)
        if on_edge_flags:
            flags = on_edge_flags(bi, s, efs, flags)
        return (flags, frozenset(newfacts))

    states, exits = f.simulate((init_flags, frozenset()), on_stmt=on_stmt, on_term=on_term, on_edge=on_edge, maxstates=20000)
    return states, exits


def flag_policy(v):
    """Reference flag policy of the property statements C06/C07/C12 (arms in evaluation order)."""
    if (v & (PSH | ACK)) == (PSH | ACK):
        return 'data'
    if v == ACK or v == RST:
        return 'drop'
    if v == (FIN | ACK):
        return 'finack'
    if (v & SYN) and (v & ~(SYN | PSH | URG | CWR | ECE)) == 0 and not ((v & CWR) and (v & ECE)):
        return 'synack'
    return 'drop'


def last_set_flags(f, head):
    """Constants of set_flags calls under an arm that are not overwritten by a later set_flags on the arm."""
    blocks = dominated(f, head)
    sf = [b for b in blocks if f.blocks[b]['term']['k'] == 'call' and f.blocks[b]['term']['callee'].endswith("MutableTcpPacket::<'a>::set_flags")]
    out = []
    for b in sf:
        later = set()
        for s in f.succ[b]:
            later |= f.reachable(s)
        if not any(o in later for o in sf if o != b):
            out.append((b, const_val(f.arg(b, 1))))
    return out


def tcp_arms(F):
    """Full classification: value -> label in {'data','drop','finack','synack','other:<..>'}, plus per-label head blocks."""
    f, table, gf = tcp_table(F)
    heads = collections.defaultdict(list)
    for v, h in table.items():
        heads[h].append(v)
    label = {}
    for h in heads:
        c = classify_arm(f, h)
        if c.startswith('reply'):
            fl = sorted(set(v for _, v in last_set_flags(f, h)), key=lambda x: -1 if x is None else x)
            if fl == [SYN | ACK]:
                c = 'synack'
            elif fl == [FIN | ACK]:
                c = 'finack'
            else:
                c = 'other:flags=%s' % fl
        label[h] = c
    return f, table, heads, label


def var_feeding(f, bi, argi):
    """The (named or temporary) local whose value is passed as argument argi of the call ending block bi,
    following plain copies back to the first local that has more than one definition or a user name."""
    op = f.blocks[bi]['term']['args'][argi]
    if op['k'] not in ('copy', 'move') or op['place']['p']:
        return None
    l = op['place']['l']
    for _ in range(8):
        defs = []
        for b2, blk in enumerate(f.blocks):
            if blk['cleanup']:
                continue
            for st in blk['stmts']:
                if not st['lhs']['p'] and st['lhs']['l'] == l:
                    defs.append(st['rv'])
            t2 = blk['term']
            if t2['k'] == 'call' and not t2['dest']['p'] and t2['dest']['l'] == l:
                defs.append({'k': 'call'})
        if len(defs) == 1 and defs[0]['k'] == 'use' and defs[0]['a']['k'] in ('copy', 'move') and not defs[0]['a']['place']['p']:
            l = defs[0]['a']['place']['l']
            continue
        return l
    return l


def defs_of_local(f, l):
    """[(block, idx, value expr)] of whole assignments to local l (statements only)."""
    out = []
    for bi, blk in enumerate(f.blocks):
        if blk['cleanup']:
            continue
        for i, st in enumerate(blk['stmts']):
            if not st['lhs']['p'] and st['lhs']['l'] == l:
                out.append((bi, i, f.rvalue(st['rv'], (bi, i))))
    return out


def subst_params(e, args):
    """Replace ('param', i) by args[i-1] inside an expression of a callee."""
    def fn(x):
        if x[0] == 'param' and 1 <= x[1] <= len(args):
            return args[x[1] - 1]
        return None
    return rewrite(e, fn)


def helper_alternatives(F, facts, depth=0):
    """Facts about the boolean result of a *local helper function* are expanded into what the helper established on the
    paths that return that result (one alternative per such path).  Returns a list of fact sets (a disjunction)."""
    facts = frozenset(facts)
    for fact in facts:
        k, rel, c = fact
        k0 = peel(k, unwraps=False)
        if not (isinstance(k0, tuple) and k0[0] == 'call' and k0[1] in F.fns and depth < 2):
            continue
        g = F.fn(k0[1])
        if g.n > 60 or 'bool' != g.locals[0]['ty']:
            continue
        truth = (rel == '==' and c != 0) or (rel == '!=' and c == 0)
        try:
            _, exits = fact_sim(g, lambda key: True)
        except AnalysisError:
            continue
        args = [peel(a, unwraps=False) if not (isinstance(a, tuple) and a[0] == 'ref') else a for a in k0[2]]
        rest = set(facts) - {fact}
        out = []
        for (rb, (flags, gf)) in exits:
            const = [x for x in gf if x[0] == ('local', 0) and x[1] == '==']
            gfacts = {x for x in gf if not (isinstance(x[0], tuple) and x[0][0] == 'local')}
            if const:
                if bool(const[0][2]) != truth:
                    continue
                new = set(gfacts)
            else:
                rv = g._through(g.ret_value(rb), (rb, len(g.blocks[rb]['stmts'])), 0)
                nonconst = [a for a in alts(rv) if const_val(a) is None]
                if len(nonconst) != 1:
                    continue
                new = set(gfacts) | {(nonconst[0], '==', 1 if truth else 0)}
            new = {(subst_params(kk, args), rr, cc) for (kk, rr, cc) in new}
            for alt in helper_alternatives(F, frozenset(rest | new), depth + 1):
                out.append(alt)
        if out:
            return out
    return [facts]


def buf_segments(e):
    """Shape of a freshly allocated byte buffer, independent of how it is spelled: a list of ('zeros', n_expr) and
    ('data', expr) segments; vec![0; n], Vec::new() and [a, b].concat() are interpreted, anything else is data."""
    e = peel(e, unwraps=False)
    if is_call(e, r'vec::from_elem$') and const_val(e[2][0]) == 0:
        return [('zeros', peel(e[2][1]))]
    if is_call(e, r'Vec::<[^>]*>::new$'):
        return []
    if is_call(e, r'\[T\]>::concat$'):
        arr = peel(e[2][0], unwraps=False)
        if isinstance(arr, tuple) and arr[0] == 'agg':
            out = []
            for x in arr[2]:
                out += buf_segments(x)
            return out
    return [('data', e)]


def header_only(segs, size_rx):
    return len(segs) == 1 and segs[0][0] == 'zeros' and is_call(segs[0][1], size_rx)


def cmp_fact(facts, pred):
    """'eq' / 'ne' / None: what the path facts say about a pair (a, b) with pred(a, b) (either order) that the code
    compared with == or != (in any spelling: a != b false edge, !(a == b), ...)."""
    for (k, r_, c_) in facts:
        if not (isinstance(k, tuple) and k[0] == 'bin' and k[1] in ('Eq', 'Ne')):
            continue
        if not (_try(pred, k[2], k[3]) or _try(pred, k[3], k[2])):
            continue
        true_ = (r_ == '!=' and c_ == 0) or (r_ == '==' and c_ == 1)
        false_ = (r_ == '==' and c_ == 0) or (r_ == '!=' and c_ == 1)
        if not (true_ or false_):
            continue
        return 'eq' if (k[1] == 'Eq') == true_ else 'ne'
    return None


def path_states_at(f, blocks, track, stable_fn=None):
    """{block: [facts, ...]} for every path state (fact simulation) that reaches the entry of each block."""
    states, _ = fact_sim(f, track, stable_fn=stable_fn)
    return {b: [facts for (_, facts) in states.get(b, ())] for b in blocks}


def fact_edges(f, factpred):
    """CFG edges (b, s) on which some fact (key, rel, const) with factpred(key, rel, const) is established -
    independent of how the test is spelled (match arm, ==, !=, PartialEq, !, is_some() ...)."""
    out = []
    for bi in range(f.n):
        if f.blocks[bi]['cleanup']:
            continue
        se = f.switch_edges(bi)
        if not se:
            continue
        d, edges, vals = se
        for (s_, v) in edges:
            for (k, r_, c_) in edge_fact(d, v, vals):
                try:
                    hit = factpred(k, r_, c_)
                except Exception:
                    hit = False
                if hit:
                    out.append((bi, s_))
                    break
    return out


def is_eq(rel, c, want, two=False):
    """the fact (.., rel, c) establishes `key == want` (two=True: key has exactly the values 0 and 1)"""
    return (rel == '==' and c == want) or (two and rel == '!=' and c == 1 - want)


def is_ne(rel, c, want, two=False):
    return (rel == '!=' and c == want) or (rel == '==' and c != want)


def value_edges(f, keypred, value):
    """edges on which a scalar (getter result, newtype stripped) with keypred(key) is established to equal value"""
    return fact_edges(f, lambda k, r_, c_: keypred(k) and is_eq(r_, c_, value))


def walker_resume_problems(F):
    """Smack::search_next must resume exactly where the saved state says: every inner_match* call gets the row
    `*state & 0xFFFFFF` (the saved value, never replaced), the input sliced from the saved cursor `px[*offset..]`
    and its remaining length; pending matches come from `*state >> 24`.  -> list of problems."""
    sw = F.fn('smack::smack::Smack::search_next')
    out = []
    ims = sw.calls(r'Smack::inner_match(_shift7)?$')
    if not ims:
        if not any(re.search(r'Smack::inner_match(_shift7)?$', k_) for k_ in F.fns):
            # the table walk no longer lives in inner_match*: this rule has lost its subject - no verdict rather than a guess
            raise AnalysisError('anchor function missing: smack::smack::Smack::inner_match (the table walk has been moved; the resume rule cannot be evaluated)')
        out.append('no inner_match call found')
    for bi, t in ims:
        row = peel(sw.argv(bi, 3), unwraps=False)
        okrow = isinstance(row, tuple) and row[0] == 'bin' and row[1] == 'BitAnd' and peel(row[2], unwraps=False) == ('entry', ('deref', ('param', 2))) and const_val(row[3]) == 0xFFFFFF
        if not okrow:
            out.append('%s: starting row is %s, not the saved `*state & 0xFFFFFF`' % (sw.loc(bi), short(row)[:90]))
        buf = peel(sw.argv(bi, 1), unwraps=False)
        while is_call(buf, r'to_vec$'):
            buf = peel(buf[2][0], unwraps=False)
        okbuf = is_call(buf, r'Index<I>>::index$|Index::index$') and peel(buf[2][0]) == ('param', 3)
        if okbuf:
            r_ = peel(buf[2][1], unwraps=False)
            okbuf = isinstance(r_, tuple) and r_[0] == 'agg' and 'RangeFrom' in str(r_[1]) and peel(r_[2][0], unwraps=False) == ('entry', ('deref', ('param', 4)))
        if not okbuf:
            out.append('%s: searched buffer is %s, not px[*offset..]' % (sw.loc(bi), short(buf)[:90]))
    return out


def state_is_at(f, blocks, value, parser_name):
    """On every path state reaching each block the parser state (a discriminant whose place is named ...state, or
    that was last modified by `parser_name`) was established to be `value` - however the test is spelled
    (match arm, matches!, ==, early return)."""
    def is_state(k):
        return isinstance(k, tuple) and k[0] == 'discr' and ('state' in short(k) or any(isinstance(x, tuple) and x[0] == 'modby' and x[1].endswith(parser_name) for x in walk(k)))

    def stable(k):
        return is_state(k) and not any(isinstance(x, tuple) and x[0] == 'cyc' for x in walk(k))
    at = path_states_at(f, blocks, is_state, stable_fn=stable)
    for b in blocks:
        if not at[b]:
            return False
        for facts in at[b]:
            if not any(is_state(k) and r_ == '==' and c_ == value for (k, r_, c_) in facts):
                return False
    return True


def deep_calls(F, f, e, name_re, depth=0):
    """call sites matching name_re that produce (part of) e in f, or that produce the values returned by closures
    that e passes on (iterator adaptors): list of (function, receiver/first-argument expression)"""
    out = [(f, c[2][0] if c[2] else None) for c in calls_in(e, name_re)]
    if depth > 2:
        return out
    for x in walk(e):
        if isinstance(x, tuple) and x[0] == 'agg' and str(x[1]).startswith('closure:'):
            cid = x[1][len('closure:'):]
            if cid in F.fns:
                g = F.fn(cid)
                rv = [g.ret_value(rb) for rb in g.return_blocks()]
                if any(calls_in(v, name_re) for v in rv):
                    for bi, t in g.calls(name_re):
                        out.append((g, g.argv(bi, 0)))
                for v in rv:
                    out += [o for o in deep_calls(F, g, v, name_re, depth + 1) if o[0] is not g]
    return out


GROW_ONLY = r'Vec::<[^>]*>::(push|extend_from_slice|append|insert|resize|reserve)$|Extend<[^>]*>>::extend$|Extend::extend$'


def buf_segments_at(f, bi, argi):
    """buf_segments of the argi-th argument of the call in block bi; when the argument is a Vec local that was
    allocated and then appended to (let mut b = vec![0; n]; b.extend_from_slice(x); f(b)), the allocation followed by
    the appends that are executed on every path to the call.  None when the construction cannot be read."""
    e = f.argv(bi, argi)
    pe = peel(e, unwraps=False)
    if not (isinstance(pe, tuple) and pe[0] == 'phi'):
        return buf_segments(e)
    base = [a for a in pe[1] if not (isinstance(a, tuple) and a[0] == 'modby')]
    mods = [a for a in pe[1] if isinstance(a, tuple) and a[0] == 'modby']
    if len(base) != 1 or not mods or not all(re.search(GROW_ONLY, m[1]) for m in mods):
        return None
    op = f.blocks[bi]['term']['args'][argi]
    if op['k'] not in ('copy', 'move') or op['place']['p']:
        return None
    from vlib.layout import vec_layout
    L = op['place']['l']
    names = {L}
    for _ in range(4):
        ds = [st['rv'] for blk in f.blocks if not blk['cleanup'] for st in blk['stmts'] if not st['lhs']['p'] and st['lhs']['l'] == L]
        calls_def = [1 for blk in f.blocks if not blk['cleanup'] and blk['term']['k'] == 'call' and not blk['term']['dest']['p'] and blk['term']['dest']['l'] == L]
        if len(ds) == 1 and not calls_def and ds[0]['k'] == 'use' and ds[0]['a']['k'] == 'move' and not ds[0]['a']['place']['p']:
            L = ds[0]['a']['place']['l']
            names.add(L)
        else:
            break
    items = vec_layout(f, target_pred=lambda recv: isinstance(recv, tuple) and recv[0] == 'local' and recv[1] in names, must_targets=[bi])
    segs = buf_segments(base[0])
    for it in items:
        if bi not in f.reachable(it['block']):
            continue
        if not it['must'] or it['in_loop']:
            return None
        segs = segs + [('data', it['value'])]
    return segs


def value_required_at(f, blocks, keypred, allowed, stable_fn=None):
    """Path-sensitive gate: on every path state that reaches each of `blocks` a scalar with keypred(key) was
    established to equal one of `allowed` (whatever the spelling of the test, and also when the test sits in an
    inlined bool helper).  -> (ok, detail)"""
    blocks = list(blocks)
    if not blocks:
        return False, 'no target'
    at = path_states_at(f, blocks, lambda k: True, stable_fn=stable_fn)
    n = bad = 0
    for b in blocks:
        if not at[b]:
            return False, 'target unreachable in the simulation'
        for fs in at[b]:
            n += 1
            if not any(_try(lambda k_, _: keypred(k_), k, None) and r_ == '==' and c_ in allowed for (k, r_, c_) in fs):
                bad += 1
    return bad == 0, '%d of %d path states reach it without the test' % (bad, n)


def closure_true_paths(F, cid):
    """fact sets of the path states on which a bool closure may return true (the predicate of any / filter / position)"""
    g = F.fn(cid)
    _, exits = fact_sim(g, lambda k: True)
    out = []
    for (bi, (flags, facts)) in exits:
        rv = [c_ for (k, r_, c_) in facts if k == ('local', 0) and r_ == '==']
        if rv and rv[0] == 0:
            continue
        if not rv:
            # returned value not a path constant: take what is known about it from the returned expression
            b = _bindings(flags).get(0)
            if b is not None:
                facts = frozenset(set(facts) | {(b, '!=', 0)})
            else:
                # the value itself is handed back (`Variant(a) => a.flag, _ => false`): true means that value is true; the
                # alternatives of the returned expression are paired with this path conservatively (every one must satisfy
                # the caller's check)
                alts_ = [a_ for a_ in palts(g.ret_value(bi), unwraps=False)]
                nonconst = [a_ for a_ in alts_ if const_val(a_) is None]
                if nonconst and not any(const_val(a_) not in (None, 0) for a_ in alts_):
                    for a_ in nonconst:
                        out.append(frozenset(set(facts) | {(a_, '!=', 0)}))
                    continue
        out.append(facts)
    return out


def exists_element_with(F, f, facts, check):
    """the path facts say that Iterator::any(<collection>, closure) is true and every way the closure can return true
    satisfies check(closure_facts): 'some element satisfies ...'.  -> the collection expression or None"""
    for (k, r_, c_) in facts:
        kk = peel(k, unwraps=False)
        if not is_call(kk, r'Iterator>::any$|Iterator::any$'):
            continue
        if not ((r_ == '!=' and c_ == 0) or (r_ == '==' and c_ == 1)):
            continue
        cl = [x for x in walk(kk[2][1]) if isinstance(x, tuple) and x[0] == 'agg' and str(x[1]).startswith('closure:')]
        if len(cl) != 1:
            continue
        cid = cl[0][1][len('closure:'):]
        if cid not in F.fns:
            continue
        tp = closure_true_paths(F, cid)
        if tp and all(check(fs) for fs in tp):
            return kk[2][0]
    return None


def rpc_verifier_never_awaited(F):
    """Reviewed invariant of the ONC-RPC call parser (used by C01 and C16): once the verifier-length word is complete
    the call is complete - RpcState::Verif is left in the same step, whatever the announced verifier length.
    Structurally: the VerifLen arm assigns End, and no branch in it looks at the length just read (data_len).
    -> (ok, detail, loc)"""
    rp = F.fn('proto::rpc::rpc_parse')
    names = [v['name'] for v in F.adts['proto::rpc::RpcState']['variants']]
    disp = None
    for bi in range(rp.n):
        se = rp.switch_edges(bi)
        if se and not rp.blocks[bi]['cleanup'] and isinstance(se[0], tuple) and se[0][0] == 'discr' and 'state' in short(se[0]) and len(se[2]) >= 8:
            disp = (bi, se)
    if disp is None:
        return False, 'state dispatch of rpc_parse not found', '%s:%d' % (rp.file, rp.line)
    bi, (d, edges, vals) = disp
    head = [s_ for (s_, v) in edges if v is not None and v < len(names) and names[v] == 'VerifLen']
    if len(head) != 1:
        return False, 'VerifLen arm not found', rp.loc(bi)
    dom = rp.dominators()
    arm = {b for b in dom if head[0] in dom[b]}
    sets_end = False
    looks = []
    for b in sorted(arm):
        if rp.blocks[b]['cleanup']:
            continue
        for i, st in enumerate(rp.blocks[b]['stmts']):
            fl = [p.get('f') for p in st['lhs']['p'] if isinstance(p, dict)]
            if fl == ['state']:
                a = peel(rp.rvalue(st['rv'], (b, i)), unwraps=False)
                if isinstance(a, tuple) and a[0] == 'agg' and str(a[1]).endswith('::End'):
                    sets_end = True
        se = rp.switch_edges(b)
        if se and 'data_len' in short(se[0]):
            looks.append(rp.loc(b))
    ok = sets_end and not looks
    return ok, 'VerifLen arm assigns End: %s; branches on the verifier length in that arm: %s' % (sets_end, looks or 'none'), rp.loc(head[0])


# ---------------------------------------------------------------------------------------------------------
# modular linear forms: "x + y (mod 2^w)" however it is spelled
def modsum(e, w=32, _depth=0):
    """Canonical form of an integer expression modulo 2^w: (sorted tuple of opaque term expressions, constant mod 2^w),
    or None if e is not an (unconditionally) modular sum.  Understands wrapping_add/sub, checked overflow-trapping
    adds (equal mod 2^w whenever they return), widening to a larger unsigned type and cutting back (mask / cast),
    checked_add(x, 1).unwrap_or(0), checked_sub(x, 1).unwrap_or(MAX) and the guarded `if x > 0 { x - 1 } else { MAX }`."""
    M = (1 << w) - 1
    if _depth > 12:
        return None
    e0 = e
    while isinstance(e0, tuple) and e0[0] in ('ref', 'deref'):
        e0 = e0[1]
    if not isinstance(e0, tuple):
        return None
    cv = const_val(e0) if e0[0] in ('const',) else None
    if cv is not None:
        return ((), cv & M)
    k = e0[0]
    if k == 'cast':
        return modsum(e0[2], w, _depth + 1)           # zero-extension / truncation to >= w bits is transparent mod 2^w
    if k == 'field' and e0[2] == '0' and isinstance(e0[1], tuple) and e0[1][0] == 'bin' and e0[1][1].endswith('WithOverflow'):
        return modsum(('bin', e0[1][1].replace('WithOverflow', ''), e0[1][2], e0[1][3]), w, _depth + 1)
    if k == 'bin':
        op = e0[1]
        if op in ('Add', 'AddUnchecked', 'Sub', 'SubUnchecked'):
            a, b = modsum(e0[2], w, _depth + 1), modsum(e0[3], w, _depth + 1)
            if a is None or b is None:
                return None
            if op.startswith('Add'):
                return (tuple(sorted(a[0] + b[0], key=repr)), (a[1] + b[1]) & M)
            if b[0]:
                return None
            return (a[0], (a[1] - b[1]) & M)
        if op == 'BitAnd' and const_val(e0[3]) is not None and const_val(e0[3]) & M == M:
            return modsum(e0[2], w, _depth + 1)
        if op == 'Rem' and const_val(e0[3]) == (1 << w):
            return modsum(e0[2], w, _depth + 1)
        return ((e0,), 0)
    if k == 'call':
        n = e0[1]
        if re.search(r'::wrapping_add$', n):
            a, b = modsum(e0[2][0], w, _depth + 1), modsum(e0[2][1], w, _depth + 1)
            if a is None or b is None:
                return None
            return (tuple(sorted(a[0] + b[0], key=repr)), (a[1] + b[1]) & M)
        if re.search(r'::wrapping_sub$', n):
            a, b = modsum(e0[2][0], w, _depth + 1), modsum(e0[2][1], w, _depth + 1)
            if a is None or b is None or b[0]:
                return None
            return (a[0], (a[1] - b[1]) & M)
        if re.search(r'Option::<[^>]*>::unwrap_or$', n):
            inner = e0[2][0]
            while isinstance(inner, tuple) and inner[0] in ('ref', 'deref'):
                inner = inner[1]
            d = const_val(e0[2][1])
            if is_call(inner, r'::checked_add$') and const_val(inner[2][1]) == 1 and d == 0:
                a = modsum(inner[2][0], w, _depth + 1)
                return None if a is None else (a[0], (a[1] + 1) & M)
            if is_call(inner, r'::checked_sub$') and const_val(inner[2][1]) == 1 and d == M:
                a = modsum(inner[2][0], w, _depth + 1)
                return None if a is None else (a[0], (a[1] - 1) & M)
            return ((e0,), 0)
        if n in TRANSPARENT or re.search(r'convert::(From|Into)(<[^>]*>)?>?::(from|into)$|TryInto::try_into$|::unwrap$|::expect$', n):
            return modsum(e0[2][0], w, _depth + 1) if e0[2] else None
        return ((e0,), 0)
    if k == 'phi':
        # if x > 0 { x - 1 } else { MAX }
        al = [a for a in e0[1]]
        if len(al) == 2:
            cs = [a for a in al if const_val(a) == M]
            rest = [a for a in al if a not in cs]
            if len(cs) == 1 and len(rest) == 1:
                r_ = modsum(rest[0], w, _depth + 1)
                if r_ is not None and r_[1] == M and len(r_[0]) == 1:
                    return r_
            # match x.checked_add(1) { Some(v) => v, None => 0 }   /   x.checked_sub(1) .. None => MAX   (also the expanded unwrap_or)
            for d_, fn_, delta in ((0, r'::checked_add$', 1), (M, r'::checked_sub$', -1)):
                cs = [a for a in al if const_val(a) == d_]
                rest = [a for a in al if a not in cs]
                if len(cs) == 1 and len(rest) == 1:
                    r0 = rest[0]
                    while isinstance(r0, tuple) and r0[0] in ('ref', 'deref'):
                        r0 = r0[1]
                    if isinstance(r0, tuple) and r0[0] == 'field' and r0[2] == '0' and isinstance(r0[1], tuple) and r0[1][0] == 'variant' and r0[1][2] == 'Some':
                        inner = r0[1][1]
                        while isinstance(inner, tuple) and inner[0] in ('ref', 'deref'):
                            inner = inner[1]
                        if is_call(inner, fn_) and const_val(inner[2][1]) == 1:
                            a = modsum(inner[2][0], w, _depth + 1)
                            if a is not None:
                                return (a[0], (a[1] + delta) & M)
        return None
    return ((e0,), 0)


def is_modsum(e, term_preds, const, w=32):
    """e == sum of terms (one per predicate, in any order) + const (mod 2^w)"""
    m = modsum(e, w)
    if m is None or m[1] != const % (1 << w) or len(m[0]) != len(term_preds):
        return False
    left = list(m[0])
    for pr in term_preds:
        hit = [t for t in left if _try(lambda a, _b: pr(a), t, None)]
        if not hit:
            return False
        left.remove(hit[0])
    return True


def insert_complete(F):
    """A flow whose first data segment is validated does get its entry: the only reason for add_tcb(key) to return
    without the insert is that the key is already present (no capacity limit, sampling, or other condition).
    -> (ok, instance key, detail)"""
    f = F.fn('proto::tcb::add_tcb')
    INS = r'HashMap::<[^>]*>::insert$|Entry::<[^>]*>::(%s)$' % '|'.join(('or_insert', 'or_insert_with', 'or_insert_with_key', 'or_default'))

    def on_call(bi, t, flags):
        if re.search(INS, t['callee']):
            return flags | {'ins'}
        return flags
    _, exits = fact_sim(f, lambda k: True, on_call=on_call, stable_fn=lambda k: is_call(k, r'contains_key$'))
    n = bad = 0
    why = ''
    for (bi, (flags, facts)) in exits:
        if f.blocks[bi]['term']['k'] != 'return':
            continue
        n += 1
        if 'ins' in flags:
            continue
        present = [1 for (k, r_, c_) in facts if is_call(k, r'HashMap::<[^>]*>::contains_key$') and peel(k[2][1]) == ('param', 1)
                   and ((r_ == '!=' and c_ == 0) or (r_ == '==' and c_ == 1))]
        if not present:
            bad += 1
            why = '; a path returns without inserting although contains_key(key) was not found true (facts: %s)' % sorted(short(k)[:40] + r_ + str(c_) for (k, r_, c_) in facts)[:4]
    return n > 0 and bad == 0, 'add_tcb:inserts-unless-present', '%d return path states, %d skip the insert for another reason than the key being present%s' % (n, bad, why)


def dispatch_sound(ctx, prop, what):
    """Rule <prop>-RD: the behaviour stated for this protocol presupposes that its requests reach its responder - and that other
    payloads do not: that is decided by the signature table and the matcher built from it.  The structural rules of C10
    (registration/dispatch agreement, the published signatures and their flags, matcher-state handling, the compiler ingredients)
    are evaluated on the same facts and each of their instances is an obligation here."""
    from vlib.runner import borrow
    rep = ctx.rep
    try:
        insts = borrow(ctx, 'C10', lambda r_, k_: r_ in ('C10-R1', 'C10-R2', 'C10-R4', 'C10-R5'))
    except AnalysisError as e:
        # the matcher rules cannot be evaluated on this tree (an anchor of theirs is gone): C10 reports that itself; this
        # property's own clauses are still decided, the presupposition is recorded as not evaluated
        rd = rep.rule(prop + '-RD', 'dispatch: the structural rules on the signature matcher (C10) could not be evaluated on this tree - see C10', floor=0)
        rep.not_decided.append('dispatch presupposition (C10-R1/R2/R4/R5) not evaluated: %s' % str(e)[:160])
        return rd
    rd = rep.rule(prop + '-RD', 'dispatch: %s only through the signature matcher; the structural rules on the signature table, the matcher state and the matcher compiler (C10-R1, R2, R4, R5) hold on this tree' % what, floor=40)
    for rid_, inst in insts:
        rep.check(rd, inst['ok'], '%s:%s' % (rid_, inst['key']), inst['detail'], inst['loc'])
    return rd


def borrowed_rule(ctx, prop, rid_suffix, desc, from_prop, select, floor=1):
    """A clause of `prop` that another property's rules already decide on the same facts: its instances become obligations
    of `prop` under rule <prop>-<rid_suffix>.  If the lender cannot be evaluated (an anchor of its rules is gone) that is
    recorded as not evaluated here - the lender reports it itself."""
    from vlib.runner import borrow
    rep = ctx.rep
    try:
        insts = borrow(ctx, from_prop, select)
    except AnalysisError as e:
        r = rep.rule('%s-%s' % (prop, rid_suffix), desc + ' - not evaluated on this tree, see ' + from_prop, floor=0)
        rep.not_decided.append('%s presupposition borrowed from %s not evaluated: %s' % (prop, from_prop, str(e)[:160]))
        return r
    r = rep.rule('%s-%s' % (prop, rid_suffix), desc, floor=floor)
    for rid_, inst in insts:
        rep.check(r, inst['ok'], '%s:%s' % (rid_, inst['key']), inst['detail'], inst['loc'])
    return r


def hand_over_sound(ctx, prop):
    """every layer hands the next one exactly the payload of the packet it parsed (C19-R2): the transport header whose
    ports / flags / sequence numbers are mirrored is the request's own"""
    return borrowed_rule(ctx, prop, 'RH', 'layer hand-over: each layer parses exactly the payload of the packet the layer below parsed (C19-R2, same facts)',
                         'C19', lambda r_, k_: ':hand-over:' in k_, floor=6)


def no_abort_in(ctx, prop, fn_regex, what):
    """answering presupposes not crashing: the abort sites (C01 inventory) inside the functions that implement this protocol
    are obligations of the property itself"""
    return borrowed_rule(ctx, prop, 'RA', 'no abort while %s: every abort site in the functions matching %s is discharged or reviewed (C01 inventory, same facts)' % (what, fn_regex),
                         'C01', lambda r_, k_: r_ in ('C01-R1', 'C01-R2', 'C01-R3') and re.search(fn_regex, _own_path(k_.split('|')[0].split(':unwrap')[0])) is not None, floor=1)


def _own_path(fid):
    """the path a function lives under: for `<T as Trait>::f` that is T's (the trait may come from another module)"""
    m = re.match(r'^<(.+?) as [^>]+>::', fid)
    return m.group(1) + '::' if m else fid


def table_never_shrinks(ctx, prop):
    """control blocks, once created, stay: nothing removes, clears or replaces connection-table entries (C07-R4)"""
    return borrowed_rule(ctx, prop, 'RT', 'a flow keeps its control block: nothing removes, clears or replaces connection-table entries (C07-R4, same facts)',
                         'C07', lambda r_, k_: r_ == 'C07-R4', floor=1)
