"""C01 — no frame, history or configuration can crash the responder."""
import json, os
from rules.c01_sites import *

INIT_ROOTS = {'proto::proto_init', 'proto::http::http_init'}
CI = 'client::client_info::ClientInfo'
LEN_CALL = r'(\[T\]>::len|Vec::<[^>]*>::len|String::len|str>::len|::minimum_packet_size|::packet_size)$'


def is_len_term(e, depth=0):
    """A usize quantity bounded by an allocation size or a small constant."""
    e = peel(e, casts=False)
    if not isinstance(e, tuple) or depth > 4:
        return False
    cv = const_val(e)
    if cv is not None:
        return cv < (1 << 32)
    if e[0] == 'const':
        return isinstance(e[1], int) and e[1] < (1 << 32)
    if e[0] == 'len':
        return True
    if e[0] == 'call' and re.search(LEN_CALL, e[1]):
        return True
    if e[0] == 'cast' and len(e) > 4 and e[4] in ('u8', 'u16', 'u32') and e[3] in ('usize', 'u64'):
        return True
    if e[0] == 'field' and e[2] == '0' and isinstance(e[1], tuple) and e[1][0] == 'bin' and e[1][1] in ('AddWithOverflow',):
        return is_len_term(e[1][2], depth + 1) and is_len_term(e[1][3], depth + 1)
    if e[0] == 'bin' and e[1] in ('Add',):
        return is_len_term(e[2], depth + 1) and is_len_term(e[3], depth + 1)
    if e[0] == 'phi':
        return all(is_len_term(x, depth + 1) for x in e[1])
    return False


def established_fields(F):
    """Interprocedural must-set typestate for Option fields of ClientInfo: fid -> set of 'a.b' established at entry."""
    fields = ['mac.src', 'mac.dst', 'ip.src', 'ip.dst', 'transport', 'port.src', 'port.dst']
    est = {}
    cg = F.callgraph()
    # functions taking a ClientInfo pointer parameter
    takes = {fid: [i for i in range(1, f.argc + 1) if CI in f.locals[i]['ty']] for fid, f in F.fns.items()}
    takes = {k: v for k, v in takes.items() if v}
    TOP = set(fields)
    for fid in takes:
        est[fid] = set(TOP)
    est['reply'] = set()
    reach_cone = F.cone(['reply'])

    def writes_some(f, path):
        bl = []
        for bi, b in enumerate(f.blocks):
            if b['cleanup']:
                continue
            for i, s in enumerate(b['stmts']):
                ch = [p for p in s['lhs']['p'] if isinstance(p, dict) and 'f' in p]
                idx = [j for j, p in enumerate(ch) if p['adt'] == CI]
                if idx and '.'.join(p['f'] for p in ch[idx[0]:][:2]) == path and len(ch[idx[0]:]) == len(path.split('.')):
                    rv = s['rv']
                    v = f.rvalue(rv, (bi, i))
                    if all(isinstance(a, tuple) and a[0] == 'agg' and a[1] == 'std::option::Option::Some' for a in alts(v)):
                        bl.append(bi)
                    else:
                        bl.append(('bad', bi))
        return bl
    changed = True
    it = 0
    while changed and it < 20:
        changed = False
        it += 1
        for fid in takes:
            if fid == 'reply':
                continue
            callers = [(c, b) for (c, b) in F.callers(fid) if c in reach_cone]
            if not callers:
                new = set()
            else:
                new = set(TOP)
                for (c, bi) in callers:
                    cf = F.fn(c)
                    at = set(est.get(c, set()))
                    for p in fields:
                        if p in at:
                            continue
                        wb = writes_some(cf, p)
                        good = [b for b in wb if not isinstance(b, tuple)]
                        if good and bi not in cf.reachable(0, removed_blocks=good):
                            at.add(p)
                    new &= at
            if new != est[fid]:
                est[fid] = new
                changed = True
    # closures inherit from their parent at the creation point: approximate by parent's entry + parent's own writes dominating creation
    return est, writes_some


def run(ctx):
    analyse(ctx, ctx.facts(), '')
    if ctx.tier == 'thorough':
        # release arithmetic: overflow checks are off, the remaining abort sites must be covered by the same rules / inventory
        analyse(ctx, ctx.facts('release'), '/release')


def analyse(ctx, F, sfx):
    rep = ctx.rep
    if not sfx:
        rep.not_decided += ['safety of indices/arithmetic that rests on parser-state or automaton-table invariants (listed under assumed_by_review, not proved)',
                            'termination of the cursor loops', 'panics inside opaque std / dependency code on valid arguments', 'allocation failure, stdout write failure, clock before 1970, poisoned mutex (environment)']
    cone_all = F.cone(['reply'])
    cone = F.cone(['reply'], stop=INIT_ROOTS)
    init_only = cone_all - cone
    rep.saw(*cone)
    vetted_path = os.path.join(os.path.dirname(__file__), 'c01_vetted.json')
    vetted = json.load(open(vetted_path)) if os.path.exists(vetted_path) else {}
    est, writes_some = established_fields(F)
    orphaned = {}
    for k_, v_ in vetted.items():
        if '|' in k_ and k_.split('|', 1)[0] not in F.fns and k_.split('|', 1)[0] not in F.inlined_helpers:
            orphaned.setdefault(k_.split('|', 1)[1], dict(v_, _fn=k_.split('|', 1)[0]))

    r0 = rep.rule('C01-R0' + sfx, 'scope: reply() is the single entry; the signature tables are built by nullary, input-independent initialisers reached only through lazy statics', floor=2)
    for root in sorted(INIT_ROOTS):
        f = F.fn(root)
        callers = [c for c, _ in F.callers(root)]
        rep.check(r0, f.argc == 0 and all('__static_ref_initialize' in c or 'LazyStatic' in c or '__stability' in c or 'lazy' in c.lower() for c in callers), root,
                  'argc=%d, callers=%s' % (f.argc, callers), '%s:%d' % (f.file, f.line))
    shared = sorted(x for x in F.cone(INIT_ROOTS) & cone)
    rep.extra['functions_shared_between_init_and_runtime' + sfx] = shared

    r1 = rep.rule('C01-R1' + sfx, 'explicit panics (panic!/unreachable!/assert!) reachable from reply() are absent or individually vetted', floor=1)
    r2 = rep.rule('C01-R2' + sfx, 'unwrap/expect: the Option/Result comes from an established ClientInfo field, a total constructor (buffer >= minimum size), a masked conversion that fits, or a vetted environment-only failure; never from a parser fed by frame bytes', floor=30)
    r3 = rep.rule('C01-R3' + sfx, 'bounds checks, slicing and arithmetic: discharged by constants, a dominating guard with no intervening write, the type range of the index, or allocation-size arithmetic', floor=100)
    r4 = rep.rule('C01-R4' + sfx, 'every remaining abort site is in the reviewed inventory (rules/c01_vetted.json) with a reason; a site neither discharged nor vetted is reported', floor=1)
    r5 = rep.rule('C01-R5' + sfx, 'no lock re-entry: nothing reachable from the get_tcb callback (application layer) calls back into the connection table', floor=1)

    discharged = collections.Counter()
    assumed = collections.Counter()
    used_keys = collections.Counter()
    residual = []

    pdom_cache = {}

    def param_domains(fid_):
        """{param index: sorted finite value set} for integer parameters of a crate function whose every call site passes
        a constant or the element of an iteration over a constant range / array (`for i in 0..4 { f(x, i) }`)"""
        if fid_ in pdom_cache:
            return pdom_cache[fid_]
        g = F.fn(fid_)
        callers = F.callers(fid_)
        dom_ = {}
        if callers and g.d.get('kind') != 'Closure':
            for pi in range(1, g.argc + 1):
                if INT_W.get(g.locals[pi]['ty']) is None or g.locals[pi]['ty'] == 'bool':
                    continue
                vals, okp = set(), True
                for (cf_, cb_) in callers:
                    cfn = F.fn(cf_)
                    a_ = peel(cfn.argv(cb_, pi - 1), casts=True)
                    cv_ = const_val(a_)
                    if cv_ is not None:
                        vals.add(cv_)
                        continue
                    rng_ = None
                    nx_ = a_
                    if isinstance(a_, tuple) and a_[0] == 'field' and a_[2] == '0' and isinstance(a_[1], tuple) and a_[1][0] == 'variant' and a_[1][2] == 'Some':
                        nx_ = peel(a_[1][1], unwraps=False)
                    if is_call(nx_, r'Iterator>::next$|Iterator::next$|Iterator for std::ops::Range<A>>::next$'):
                        for x in walk(nx_):
                            if isinstance(x, tuple) and x[0] == 'agg' and str(x[1]).endswith('ops::Range::Range') and all(const_val(y) is not None for y in x[2]):
                                rng_ = range(const_val(x[2][0]), const_val(x[2][1]))
                            if isinstance(x, tuple) and x[0] == 'agg' and x[1] == 'array' and x[2] and all(const_val(y) is not None for y in x[2]):
                                rng_ = [const_val(y) for y in x[2]]
                    if rng_ is None or len(rng_) > 64:
                        okp = False
                        break
                    vals |= set(rng_)
                if okp and vals:
                    dom_[pi] = sorted(vals)
        pdom_cache[fid_] = dom_
        return dom_

    def param_pinned(s):
        """the site is safe for every value a small-domain parameter can take (all call sites enumerated): asserts are
        evaluated for each value from the function entry; a conversion's operand is shown to fit by bit provenance"""
        f_, bi_ = s['f'], s['bi']
        dom_ = param_domains(s['fid'])
        if len(dom_) != 1:
            return False, ''
        (pi, vals), = dom_.items()
        t_ = f_.blocks[bi_]['term']
        if t_['k'] == 'assert':
            for v_ in vals:
                r_ = eval_region(f_, 0, {pi: v_}, until_assert=bi_, assume_asserts=True, skip_calls=True)
                if r_[0] != 'cond' or r_[3] is None or bool(r_[3]) != bool(t_['expected']):
                    return False, ''
            return True, 'holds for every value %s of parameter %d that a call site can pass (all %d call sites pass a constant or a loop index over a constant range)' % (vals, pi, len(F.callers(s['fid'])))
        if s['kind'] in ('unwrap', 'expect') or s['kind'].startswith('unwrap'):
            from vlib.bits import BitEval
            a0 = s['args'][0] if s.get('args') else None
            inner = peel(a0, unwraps=False) if a0 is not None else None
            if is_call(inner, r'TryInto::try_into$|TryFrom::try_from$'):
                dst = f_.blocks[bi_]['term']['dest']
                w_ = INT_W.get(f_.locals[dst['l']]['ty']) if not dst['p'] else None
                if w_:
                    for v_ in vals:
                        e_ = rewrite(inner[2][0], lambda x: ('const', v_, None, f_.locals[pi]['ty']) if x == ('param', pi) else None)
                        b_ = BitEval(lambda x: ('p%d' % x[1], INT_W.get(f_.locals[x[1]]['ty'], 64)) if isinstance(x, tuple) and x[0] == 'param' else None).bits(e_)
                        if b_ is None or any(x != 0 for x in b_[w_:]):
                            return False, ''
                    return True, 'the converted value has no bit above bit %d for every value %s of parameter %d (bit provenance)' % (w_ - 1, vals, pi)
        return False, ''

    def loop_var(x):
        """x is the element of `for v in a..b` / `for v in [c0, c1, ..]` with constant bounds -> its finite domain"""
        if not (isinstance(x, tuple) and x[0] == 'field' and x[2] == '0' and isinstance(x[1], tuple) and x[1][0] == 'variant' and x[1][2] == 'Some'):
            return None
        nx_ = peel(x[1][1], unwraps=False)
        if not is_call(nx_, r'Iterator>::next$|Iterator::next$|Iterator for std::ops::Range<A>>::next$'):
            return None
        rng_ = None
        for y in walk(nx_):
            if isinstance(y, tuple) and y[0] == 'agg' and str(y[1]).endswith('ops::Range::Range') and all(const_val(z) is not None for z in y[2]):
                rng_ = list(range(const_val(y[2][0]), const_val(y[2][1])))
            if isinstance(y, tuple) and y[0] == 'agg' and y[1] == 'array' and y[2] and all(const_val(z) is not None for z in y[2]):
                rng_ = [const_val(z) for z in y[2]]
        return rng_ if rng_ is not None and 0 < len(rng_) <= 64 else None

    def loop_pinned(s):
        """the operands depend, besides constants and opaque inputs, on one loop variable over a constant range: the check is
        evaluated for each of its values (subtraction does not underflow, shift amount below the width, a converted value
        has no bit above the target width)"""
        f_, bi_ = s['f'], s['bi']
        exprs = list(s.get('ops') or []) + list(s.get('args') or []) + ([s['cond']] if s.get('cond') is not None else [])
        lvs = {}
        for e_ in exprs:
            for x in walk(e_):
                d_ = loop_var(x)
                if d_ is not None:
                    lvs[x] = d_
        if len(lvs) != 1:
            return False, ''
        (LV, dom_), = lvs.items()

        def at(e_, v_):
            return rewrite(e_, lambda x: ('const', v_, None, 'usize') if x == LV else None)
        t_ = f_.blocks[bi_]['term']
        if t_['k'] == 'assert':
            ak = s['kind'].split(':', 1)[1]
            for v_ in dom_:
                try:
                    if 'Sub' in ak and len(s['ops']) == 2:
                        okv = eval_expr(at(s['ops'][0], v_), lambda x: None) >= eval_expr(at(s['ops'][1], v_), lambda x: None)
                    elif ('Shl' in ak or 'Shr' in ak) and s.get('cond') is not None:
                        okv = bool(eval_expr(at(s['cond'], v_), lambda x: None) & 1) == bool(t_['expected'])
                    else:
                        return False, ''
                except (KeyError, TypeError):
                    return False, ''
                if not okv:
                    return False, ''
            return True, 'holds for every value %s of the loop variable (a loop over a constant range)' % dom_
        if s['kind'] in ('unwrap', 'expect') or s['kind'].startswith('unwrap'):
            from vlib.bits import BitEval
            a0 = s['args'][0] if s.get('args') else None
            inner = peel(a0, unwraps=False) if a0 is not None else None
            if is_call(inner, r'TryInto::try_into$|TryFrom::try_from$'):
                dst = t_['dest']
                w_ = INT_W.get(f_.locals[dst['l']]['ty']) if not dst['p'] else None
                if w_:
                    for v_ in dom_:
                        b_ = BitEval(lambda x: ('in%d' % (hash(x) & 0xffff), 64) if isinstance(x, tuple) and x[0] in ('param', 'entry') else None).bits(at(inner[2][0], v_))
                        if b_ is None or any(x != 0 for x in b_[w_:]):
                            return False, ''
                    return True, 'the converted value has no bit above bit %d for every value %s of the loop variable (bit provenance)' % (w_ - 1, dom_)
        return False, ''

    def vet(s, key, rid):
        okp_, whyp_ = (False, '')
        try:
            okp_, whyp_ = param_pinned(s)
            if not okp_:
                okp_, whyp_ = loop_pinned(s)
        except Exception:
            okp_ = False
        if okp_:
            discharged['param-domain'] += 1
            rep.ok(rid, key + ':param-domain:%d' % discharged['param-domain'], whyp_, s['loc'])
            return
        used_keys[key] += 1
        v = vetted.get(key)
        if v is None and '|' in key:
            # the reviewed site moved with its code: its function no longer exists (a helper inlined into its callers by hand) and the
            # same expression - same kind, same operands - now sits in another function; the review reason is about the operands
            fn_, tail_ = key.split('|', 1)
            ov = orphaned.get(tail_)
            if ov is not None:
                v = dict(ov, reason='%s (site moved from %s, which no longer exists)' % (ov['reason'], ov['_fn']))
        if v and used_keys[key] <= v.get('count', 1):
            assumed[v.get('class', 'review')] += 1
            rep.ok(rid, key + ('#%d' % used_keys[key] if used_keys[key] > 1 else ''), 'assumed by review [%s]: %s' % (v.get('class'), v['reason']), s['loc'])
            return
        residual.append((key, s))
        why = 'not in the reviewed inventory' if not v else 'more occurrences (%d) than vetted (%d)' % (used_keys[key], v.get('count', 1))
        rep.bad(rid, key + ('#%d' % used_keys[key] if used_keys[key] > 1 else ''), 'abort site not established safe (%s): %s' % (why, s.get('why', '')), s['loc'])

    for s in sites(F, cone):
        f, bi, kind = s['f'], s['bi'], s['kind']
        fid = s['fid']
        t = f.blocks[bi]['term']
        if kind.startswith('assert:'):
            ak = kind[7:]
            cv = const_val(s['cond'])
            if cv is not None and bool(cv) == bool(s['expected']):
                discharged['constant'] += 1
                rep.ok(r3, '%s:%s:const@%s' % (fid, ak, s['loc'].split(':')[-1]) if False else '%s:%s:const:%d' % (fid, ak, discharged['constant']), 'condition is constant-true', s['loc'])
                continue
            ops = s['ops']
            if ak == 'bounds':
                L, I = ops
                # type range
                mv = max_value(I)
                lv_ = const_val(L)
                if mv is not None and lv_ is not None and mv < lv_:
                    discharged['type-range'] += 1
                    rep.ok(r3, '%s:bounds:range:%d' % (fid, discharged['type-range']), 'index <= %d < length %d' % (mv, lv_), s['loc'])
                    continue
                In, Ln = norm(I), norm(L)
                ok, why = guarded(f, bi, lambda op, a, b: (True if (op == 'Lt' and norm(a) == In and norm(b) == Ln) or (op == 'Gt' and norm(b) == In and norm(a) == Ln) else
                                                           ('neg' if (op == 'Ge' and norm(a) == In and norm(b) == Ln) or (op == 'Le' and norm(b) == In and norm(a) == Ln) else False)),
                                  [t['ops'][1]])
                if ok:
                    discharged['guard'] += 1
                    rep.ok(r3, '%s:bounds:guard:%d' % (fid, discharged['guard']), 'index < len established on every path: ' + why, s['loc'])
                    continue
                # constant index guarded by a length test  len(s) >= k / len(s) < k -> return
                ci = const_val(I)
                if ci is not None:
                    def want(op, a, b, Ln=Ln, ci=ci):
                        ca, cb = const_val(a), const_val(b)
                        if norm(a) == Ln and cb is not None:
                            if op == 'Lt' and cb > ci:
                                return 'neg'      # !(len < k)  => len >= k > ci
                            if op == 'Ge' and cb > ci:
                                return True
                            if op == 'Gt' and cb >= ci:
                                return True
                            if op == 'Le' and cb >= ci:
                                return 'neg'
                        return False
                    ok, why = guarded(f, bi, want, [])
                    if ok:
                        discharged['guard'] += 1
                        rep.ok(r3, '%s:bounds:lenguard:%d' % (fid, discharged['guard']), 'constant index %d under len >= k test: %s' % (ci, why), s['loc'])
                        continue
                Lnn = norm(L)
                ok, why = var_guarded(f, bi, t['ops'][1], lambda op, a, b: True if op == 'Lt' and norm(b) == Lnn else False)
                if ok:
                    discharged['guard'] += 1
                    rep.ok(r3, '%s:bounds:cursor:%d' % (fid, discharged['guard']), 'cursor < len(slice): ' + why, s['loc'])
                    continue
                ok, why = pinned_eval(f, bi)
                if ok:
                    discharged['match-arm'] += 1
                    rep.ok(r3, '%s:bounds:arm:%d' % (fid, discharged['match-arm']), why, s['loc'])
                    continue
                s['why'] = 'index %s, length %s' % (short(I)[:60], short(L)[:60])
                vet(s, '%s|bounds|%s|%s' % (fid, head(I), head(L)), r3)
                continue
            if ak.startswith('overflow:'):
                op = ak.split(':')[1]
                a, b = (ops + [None, None])[:2]
                if op in ('Shl', 'Shr'):
                    # cond is Lt(shift, width): constant handled above; variable shift
                    mvb = max_value(b) if b is not None else None
                    s['why'] = 'shift amount %s' % short(b)[:60]
                    vet(s, '%s|%s|%s' % (fid, op, head(b)), r3)
                    continue
                if op == 'Add':
                    ok, why = pinned_eval(f, bi)
                    if ok:
                        discharged['match-arm'] += 1
                        rep.ok(r3, '%s:add:arm:%d' % (fid, discharged['match-arm']), why, s['loc'])
                        continue
                    if is_len_term(a) and is_len_term(b):
                        discharged['len-arith'] += 1
                        rep.ok(r3, '%s:add:len:%d' % (fid, discharged['len-arith']), 'sum of allocation-bounded sizes / small constants in usize', s['loc'])
                        continue
                    # value range fits the type
                    ty = f.locals[t['ops'][0]['place']['l']]['ty'] if t['ops'][0]['k'] != 'const' else t['ops'][0]['ty']
                    ma, mb = max_value(a), max_value(b)
                    w = INT_W.get(ty)
                    if ma is not None and mb is not None and w and ma + mb < (1 << w):
                        discharged['value-range'] += 1
                        rep.ok(r3, '%s:add:range:%d' % (fid, discharged['value-range']), 'operands bounded by %d and %d fit %s' % (ma, mb, ty), s['loc'])
                        continue
                    # cursor + 1 under cursor < len
                    if const_val(b) == 1 or const_val(a) == 1:
                        x = a if const_val(b) == 1 else b
                        xn = norm(x)
                        xop = t['ops'][0] if const_val(b) == 1 else t['ops'][1]
                        ok, why = guarded(f, bi, lambda op_, p, q: (True if op_ == 'Lt' and norm(p) == xn and is_len_term(q) else False), [xop])
                        if ok:
                            discharged['guard'] += 1
                            rep.ok(r3, '%s:add:cursor:%d' % (fid, discharged['guard']), 'cursor + 1 under cursor < len: ' + why, s['loc'])
                            continue
                    if const_val(b) == 1 and t['ops'][0]['k'] != 'const':
                        ok, why = var_guarded(f, bi, t['ops'][0], lambda op_, p, q: True if op_ == 'Lt' else False)
                        if ok:
                            discharged['guard'] += 1
                            rep.ok(r3, '%s:add:cursor:%d' % (fid, discharged['guard']), 'x + 1 under x < y (so x is below the type maximum): ' + why, s['loc'])
                            continue
                        # counter fields: every writer stores a constant or self+1
                        src = peel(a)
                        if isinstance(src, tuple) and src[0] == 'entry':
                            pth = Fn.path_of(src[1])
                            pl = t['ops'][0].get('place') if t['ops'][0]['k'] != 'const' else None
                        chain = None
                        opnd = t['ops'][0]
                        if opnd['k'] in ('copy', 'move'):
                            pt_ = (bi, len(f.blocks[bi]['stmts']))
                            # find the field place this temp was copied from
                            stmts_ = f.blocks[bi]['stmts']
                            for st_ in reversed(stmts_):
                                if not st_['lhs']['p'] and st_['lhs']['l'] == opnd['place']['l'] and st_['rv']['k'] == 'use' and st_['rv']['a']['k'] in ('copy', 'move'):
                                    ch_ = [p for p in st_['rv']['a']['place']['p'] if isinstance(p, dict) and 'f' in p]
                                    if ch_:
                                        chain = (ch_[-1]['adt'], ch_[-1]['f'])
                                    break
                            if chain is None:
                                ch_ = [p for p in opnd['place']['p'] if isinstance(p, dict) and 'f' in p]
                                if ch_:
                                    chain = (ch_[-1]['adt'], ch_[-1]['f'])
                        ty0 = place_type(f, opnd['place']) if opnd['k'] != 'const' else None
                        if chain and ty0 in ('usize', 'u64') and counter_field(F, chain[0], chain[1]):
                            discharged['counter'] += 1
                            rep.ok(r3, '%s:add:counter:%d' % (fid, discharged['counter']), '%s.%s is only ever set to a constant or incremented by one (counts input bytes; 2^64 increments are unreachable)' % chain, s['loc'])
                            continue
                if op == 'Sub':
                    if const_val(b) == 0:
                        discharged['constant'] += 1
                        rep.ok(r3, '%s:sub:zero:%d' % (fid, discharged['constant']), 'x - 0', s['loc'])
                        continue
                    ca_, mb_ = const_val(a), max_value(b)
                    if ca_ is not None and mb_ is not None and mb_ <= ca_:
                        discharged['value-range'] += 1
                        rep.ok(r3, '%s:sub:range:%d' % (fid, discharged['value-range']), '%d - y with y <= %d' % (ca_, mb_), s['loc'])
                        continue
                    ok, why = pinned_eval(f, bi)
                    if ok:
                        discharged['match-arm'] += 1
                        rep.ok(r3, '%s:sub:arm:%d' % (fid, discharged['match-arm']), why, s['loc'])
                        continue
                    cb = const_val(b)
                    if cb is not None:
                        xn = norm(a)

                        def want(op_, p, q, xn=xn, cb=cb):
                            cq, cp = const_val(q), const_val(p)
                            if norm(p) == xn and cq is not None:
                                if op_ == 'Gt' and cq >= cb - 1:
                                    return True
                                if op_ == 'Ge' and cq >= cb:
                                    return True
                                if op_ == 'Ne' and cq == 0 and cb == 1:
                                    return True
                                if op_ == 'Eq' and cq == 0 and cb == 1:
                                    return 'neg'
                                if op_ == 'Lt' and cq >= cb:
                                    return 'neg'
                            return False
                        ok, why = guarded(f, bi, want, [t['ops'][0]])
                        if ok:
                            discharged['guard'] += 1
                            rep.ok(r3, '%s:sub:guard:%d' % (fid, discharged['guard']), 'x - %d under x >= %d: %s' % (cb, cb, why), s['loc'])
                            continue
                    if cb is not None and t['ops'][0]['k'] != 'const':
                        def wantv(op_, p, q, cb=cb):
                            cq = const_val(q)
                            if cq is None:
                                return False
                            if op_ == 'Gt' and cq >= cb - 1:
                                return True
                            if op_ == 'Ge' and cq >= cb:
                                return True
                            if op_ == 'Ne' and cq == 0 and cb == 1:
                                return True
                            if op_ == 'Eq' and cq == 0 and cb == 1:
                                return 'neg'
                            return False
                        ok, why = var_guarded(f, bi, t['ops'][0], wantv)
                        if ok:
                            discharged['guard'] += 1
                            rep.ok(r3, '%s:sub:varguard:%d' % (fid, discharged['guard']), 'x - %d under x >= %d: %s' % (cb, cb, why), s['loc'])
                            continue
                if op == 'Mul':
                    ty = f.locals[t['ops'][0]['place']['l']]['ty'] if t['ops'][0]['k'] != 'const' else t['ops'][0]['ty']
                    ma, mb = max_value(a), max_value(b)
                    w = INT_W.get(ty)
                    if ma is not None and mb is not None and w and ma * mb < (1 << w):
                        discharged['value-range'] += 1
                        rep.ok(r3, '%s:mul:range:%d' % (fid, discharged['value-range']), 'product bounded by %d fits %s' % (ma * mb, ty), s['loc'])
                        continue
                s['why'] = '%s of %s and %s' % (op, short(a)[:50], short(b)[:50])
                vet(s, '%s|%s|%s|%s' % (fid, op, head(a), head(b)), r3)
                continue
            if ak in ('div0', 'rem0'):
                s['why'] = 'divisor %s' % short(ops[0])[:60]
                vet(s, '%s|%s|%s' % (fid, ak, head(ops[0])), r3)
                continue
            if ak in ('other:MisalignedPointerDereference', 'other:NullPointerDereference') and calls_in(s['cond'], r'Box::<[^>]*>::new_uninit|new_uninit$'):
                discharged['compiler-ptr-check'] += 1
                rep.ok(r3, '%s:ptrcheck:%d' % (fid, discharged['compiler-ptr-check']), 'compiler-inserted validity check on the pointer of a fresh Box (vec! expansion)', s['loc'])
                continue
            s['why'] = ak
            vet(s, '%s|assert-%s' % (fid, ak), r3)
            continue
        if kind == 'panic':
            msg = ''
            for a in s['args']:
                for x in walk(a):
                    if isinstance(x, tuple) and x[0] == 'bytes':
                        msg = bytes.fromhex(x[1]).decode('utf-8', 'replace')[:40]
            s['why'] = 'explicit panic %r' % msg
            vet(s, '%s|panic|%s' % (fid, msg), r1)
            continue
        if kind == 'unwrap':
            v = s['args'][0]
            cls, why = classify_unwrap(F, f, bi, v, est, writes_some)
            if cls == 'violation':
                rep.bad(r2, '%s|unwrap|%s' % (fid, head(v)), why, s['loc'])
            elif cls == 'vet':
                s['why'] = why
                vet(s, '%s|unwrap|%s' % (fid, head(v)), r2)
            else:
                discharged['unwrap:' + cls] += 1
                rep.ok(r2, '%s:unwrap:%s:%d' % (fid, cls, discharged['unwrap:' + cls]), why, s['loc'])
            continue
        if kind.startswith('api:'):
            api = kind[4:]
            ok, why = discharge_api(F, f, bi, api, s)
            if ok:
                discharged['api:' + api] += 1
                rep.ok(r3, '%s:%s:%d' % (fid, api, discharged['api:' + api]), why, s['loc'])
            else:
                s['why'] = why
                vet(s, '%s|%s|%s' % (fid, api, '|'.join(head(a) for a in s['args'][:3])), r3)
            continue

    # unused / stale vetted keys are reported in the evidence (not a violation)
    stale = sorted(k for k in vetted if used_keys[k] == 0)
    rep.check(r4, not residual, 'inventory', '%d abort sites in %d functions: %d discharged by a structural rule, %d assumed by review (%d inventory keys), %d neither' % (
        sum(discharged.values()) + sum(assumed.values()) + len(residual), len(cone), sum(discharged.values()), sum(assumed.values()), len(vetted), len(residual)))
    rep.extra['discharged_by_rule' + sfx] = dict(discharged)
    rep.extra['assumed_by_review' + sfx] = dict(assumed)
    rep.extra['vetted_keys_unused' + sfx] = stale
    rep.extra['abort_sites_total' + sfx] = sum(discharged.values()) + sum(assumed.values()) + len(residual)
    if os.environ.get('C01_DUMP'):
        out = collections.defaultdict(list)
        for key, s in residual:
            out[key].append('%s  %s' % (s['loc'], s.get('why', '')))
        with open(os.environ['C01_DUMP'], 'w') as fh:
            for k in sorted(out):
                fh.write('%s\n' % k)
                for l in out[k]:
                    fh.write('      %s\n' % l)

    # R6 ingredients of the reviewed invariants: who may write parser state
    if not sfx:
        r6 = rep.rule('C01-R6', 'ingredients of the reviewed invariants: parser-state fields are written only by their own parser (so states only move the way the review assumed), the compiled automaton only by the once-only initialisers, and the final RPC state is absorbing', floor=8)
        init_fns = F.cone(INIT_ROOTS)
        W = collections.defaultdict(set)
        for fid, f_ in F.fns.items():
            for (k, ch, bi_, l_, ty_, dr_) in field_accesses(f_):
                if k in ('w', 'rw') and ch:
                    W[ch[-1]].add(fid)
        def own(adt, allowed, fields=None):
            for (a, fld), ws in sorted(W.items()):
                if a != adt or (fields and fld not in fields):
                    continue
                extra = sorted(w for w in ws if not any(re.search(rx, w) for rx in allowed))
                rep.check(r6, not extra, 'writers:%s.%s' % (adt.split('::')[-2] + '::' + adt.split('::')[-1], fld), 'written by %s; outside the owning parser: %s' % (sorted(x.split('::')[-1] for x in ws), extra))
        own('proto::rpc::ProtocolState', [r'^proto::rpc::(rpc_parse|read_u32|read_string|repl_udp)$', r'ProtocolState::new$'])
        own('proto::http::ProtocolState', [r'^proto::http::http_parse$', r'ProtocolState::new$'])
        own('proto::ssh::ProtocolState', [r'^proto::ssh::ssh_parse$', r'ProtocolState::new$'])
        own('proto::dissector::PacketDissector', [r'^proto::dissector::PacketDissector::<T>::', r' as proto::dissector::MPacket>::parse$'])
        for (a, fld), ws in sorted(W.items()):
            if a == 'smack::smack::Smack':
                extra = sorted(w for w in ws if w not in init_fns)
                rep.check(r6, not extra, 'writers:Smack.' + fld, 'written only by the once-only initialisers: %s' % (not extra))
        # RPC End arm: no state write
        rp_ = F.fn('proto::rpc::rpc_parse')
        END_ = [i for i, v in enumerate(F.adts['proto::rpc::RpcState']['variants']) if v['name'] == 'End'][0]
        ok_ = False
        for bi_ in range(rp_.n):
            se_ = rp_.switch_edges(bi_)
            if se_ and not rp_.blocks[bi_]['cleanup'] and isinstance(se_[0], tuple) and se_[0][0] == 'discr' and 'state' in short(se_[0]) and len(se_[2]) >= 10:
                left = [i for i in range(len(F.adts['proto::rpc::RpcState']['variants'])) if i not in se_[2]]
                for (s_, v_) in se_[1]:
                    if v_ == END_ or (v_ is None and left == [END_]):
                        bl_ = {b for b in rp_.dominators() if s_ in rp_.dominators()[b]}
                        wr_ = [1 for b in bl_ for st_ in rp_.blocks[b]['stmts'] if [p for p in st_['lhs']['p'] if isinstance(p, dict) and p.get('f') == 'state']]
                        calls_ = [rp_.blocks[b]['term']['callee'] for b in bl_ if rp_.blocks[b]['term']['k'] == 'call' and re.search(r'read_u32$|read_string$', rp_.blocks[b]['term']['callee'])]
                        ok_ = not wr_ and not calls_
        rep.check(r6, ok_, 'rpc:End-absorbing', 'the End arm of rpc_parse neither assigns the state nor calls a state-changing helper: %s' % ok_)

        okv_, detv_, locv_ = rpc_verifier_never_awaited(F)
        rep.check(r6, okv_, 'rpc:Verif-never-entered', 'the reviewed counter argument for read_string (data_len - 1) assumes RpcState::Verif is never awaited: ' + detv_, locv_)
        # the reviewed unwrap of generate() on the SYN / data arms rests on generate failing only for absent fields
        from rules import silence
        silence.check(ctx, r6, 'synackcookie::generate', silence.REASONS['synackcookie::generate'][1],
                      'generate() fails only when an endpoint field is absent or the families differ (so its unwrap after the layers recorded the endpoints cannot fail)', silent='Err', loud='Ok')

    # R5 lock re-entry
    for cid in F.closures_of.get('layer_4::tcp::repl', []):
        c = F.cone([cid])
        hit = sorted(set(c) & set(TABLE_FNS))
        rep.check(r5, not hit, cid, 'functions reachable from the callback run under the table lock: %d; table functions among them: %s' % (len(c), hit))
    g = F.fn('proto::tcb::get_tcb')
    locks = g.calls(r'Mutex::<T>::lock$')
    rep.check(r5, len(locks) == 1, 'get_tcb:one-lock', 'lock() calls in get_tcb: %d' % len(locks))


def classify_unwrap(F, f, bi, v, est, writes_some):
    """-> (class, explanation). class in established|constructor|masked|environment|gated|vet|violation"""
    raw = v
    als = palts(v, unwraps=False)
    fid = f.id
    # environment-only failures, by callee identity
    env = [(r'Mutex::<T>::lock$', 'mutex poisoned only after an earlier panic'),
           (r'SystemTime::duration_since$', 'clock before the UNIX epoch'),
           (r'flate2::.*::(finish|write_all)$|Write::write_all$', 'writing to an in-memory Vec cannot fail')]
    if len(als) == 1 and isinstance(als[0], tuple) and als[0][0] == 'call':
        for rx, why in env:
            if re.search(rx, als[0][1]):
                return 'environment', why
    # established ClientInfo fields
    def ci_field(a):
        if isinstance(a, tuple) and a[0] == 'entry':
            p = [x[1] for x in Fn.path_of(a[1]) if x[0] == 'f']
            r = Fn.root_of(a[1])
            if isinstance(r, tuple) and r[0] == 'deref' and isinstance(r[1], tuple) and r[1][0] == 'param' and CI in f.locals[r[1][1]]['ty']:
                return '.'.join(p)
        return None
    kinds = []
    for a in als:
        cf = ci_field(a)
        if cf is not None:
            kinds.append(('entry', cf))
        elif isinstance(a, tuple) and a[0] == 'agg' and a[1] == 'std::option::Option::Some':
            kinds.append(('some', None))
        elif isinstance(a, tuple) and a[0] == 'modby':
            kinds.append(('modby', a[1]))
        else:
            kinds.append(('other', a))
    if all(k[0] in ('entry', 'some', 'modby') for k in kinds) and any(k[0] in ('entry', 'some') for k in kinds):
        need = [k[1] for k in kinds if k[0] == 'entry']
        have = est.get(fid if f.d['kind'] != 'Closure' else f.d['parent'], set())
        # closures: the parent's own writes count as well
        missing = [n for n in need if n not in have]
        if f.d['kind'] == 'Closure' and missing:
            pf = F.fn(f.d['parent'])
            missing = [n for n in missing if not [b for b in writes_some(pf, n) if not isinstance(b, tuple)]]
        if not missing:
            return 'established', 'ClientInfo field(s) %s established on every path from reply() (writers only store Some: C03-R2)' % (sorted(set(need)) or 'set in this function')
        if need == ['cookie'] or set(need) == {'cookie'}:
            return 'vet', 'client_info.cookie read after generate(): %s' % short(raw)[:80]
        return 'violation', 'unwrap of ClientInfo.%s which is not established on every path from reply()' % missing
    # total constructors
    if len(als) == 1 and is_call(als[0], r"::Mutable\w+Packet::<'a>::owned$"):
        buf = f.objview(als[0][2][0], bi)
        if buffer_has_min_size(buf, als[0][1]):
            return 'constructor', 'buffer %s is at least the minimum packet size' % short(buf)[:90]
        return 'vet', 'packet constructor on buffer %s' % short(buf)[:90]
    # masked conversion
    if len(als) == 1 and is_call(als[0], r'try_into$|TryFrom.*::try_from$'):
        inner = als[0][2][0]
        dst = f.blocks[bi]['term']['dest']
        ty = f.locals[dst['l']]['ty'] if not dst['p'] else None
        mv = max_value(inner)
        w = INT_W.get(ty)
        if mv is not None and w and mv < (1 << w):
            return 'masked', 'value <= %d fits %s' % (mv, ty)
        return 'vet', 'conversion of %s to %s' % (short(inner)[:70], ty)
    # a fallible parser applied to a compile-time constant gives the same result on every run
    if len(als) == 1 and isinstance(als[0], tuple) and als[0][0] == 'call' and als[0][2] and \
            all(isinstance(peel(x), tuple) and peel(x)[0] in ('bytes', 'const') for x in als[0][2]):
        return 'constant-input', '%s is applied to a constant; the outcome does not depend on the frame' % short(als[0])[:60]
    # fallible on input?
    for a in als:
        if is_call(a, r"Packet::<'a>::new$|from_utf8$|::try_from$|HashMap::<[^>]*>::get|::parse$|from_str$"):
            return 'violation', 'unwrap/expect on %s, which fails on some inputs' % short(a)[:80]
    return 'vet', 'unwrap of %s' % short(raw)[:90]


def buffer_has_min_size(buf, ctor):
    cls = re.search(r'Mutable(\w+)Packet', ctor).group(1)
    b = peel(buf, unwraps=False)
    if is_call(b, r'from_elem$'):
        n = b[2][1]
        return has_min_term(n, cls)
    if is_call(b, r'\[T\]>::concat$'):
        arr = peel(b[2][0], unwraps=False)
        if isinstance(arr, tuple) and arr[0] == 'agg' and arr[2]:
            first = peel(arr[2][0], unwraps=False)
            return is_call(first, r'from_elem$') and has_min_term(first[2][1], cls)
    if isinstance(b, tuple) and b[0] == 'phi':
        # allocated with the minimum size, afterwards only grown (push / extend_from_slice / append ...)
        base = [a for a in b[1] if not (isinstance(a, tuple) and a[0] == 'modby')]
        mods = [a for a in b[1] if isinstance(a, tuple) and a[0] == 'modby']
        from rules.common import GROW_ONLY
        if len(base) == 1 and mods and all(re.search(GROW_ONLY, m[1]) for m in mods):
            return buffer_has_min_size(base[0], ctor)
    if is_call(b, r'to_vec$'):
        src = peel(b[2][0], unwraps=False)
        # copy of an existing packet of the same or a larger fixed part
        if is_call(src, r'Packet>::packet$'):
            m = re.search(r'<pnet::packet::[\w:]*?(Mutable)?(\w+)Packet<', src[1])
            if m:
                sc = m.group(2)
                return sc == cls or (sc, cls) in (('NeighborAdvert', 'Icmpv6'),)
    return False


def has_min_term(n, cls):
    n = peel(n, casts=True)
    if isinstance(n, tuple) and n[0] == 'field' and n[2] == '0':
        n = n[1]
    if is_call(n, r'(Mutable)?%sPacket::<.a>::(minimum_packet_size|packet_size)$' % cls):
        return True
    alias = {'Icmp': 'Icmp', 'Icmpv6': 'Icmpv6'}
    if isinstance(n, tuple) and n[0] == 'bin' and n[1] in ('Add', 'AddWithOverflow'):
        return has_min_term(n[2], cls) or has_min_term(n[3], cls)
    return False


LEVELS = ['error!', 'warn!', 'info!', 'debug!', 'trace!']


def log_macro_region(f, bi):
    """The `log` macro whose arguments block bi belongs to: the block is dominated by the 'enabled' edge of the
    `lvl <= log::max_level()` test of a macro expansion and the expansion's `__private_api::log` call is still ahead of it."""
    dom = f.dominators()
    best = None
    for mb, b in enumerate(f.blocks):
        t = b['term']
        if t['k'] != 'call' or t['callee'] != 'log::max_level' or t['span'].get('macro') not in LEVELS or mb not in dom.get(bi, ()):
            continue
        # the comparison and its switch follow; the enabled successor dominates the expansion's log call
        x = t['target']
        for _ in range(3):
            if x is None or f.blocks[x]['term']['k'] == 'switch':
                break
            x = f.blocks[x]['term'].get('target')
        if x is None or f.blocks[x]['term']['k'] != 'switch':
            continue
        logs = [lb for lb, b2 in enumerate(f.blocks) if b2['term']['k'] == 'call' and b2['term']['callee'].startswith('log::__private_api::log')
                and b2['term']['span'].get('macro') == t['span'].get('macro') and b2['term']['span'].get('line') == t['span'].get('line') and x in dom.get(lb, ())]
        for e in f.succ[x]:
            for lb in logs:
                if e in dom.get(lb, ()) and e in dom.get(bi, ()) and lb not in dom.get(bi, ()) and bi in f.reachable(e) and lb in f.reachable(bi):
                    best = t['span']['macro']
    return best


def max_log_level(F):
    """Upper bound of the `log` level the process can run with, from main(): the only level setter is stderrlog's `verbosity(n)`
    (0 error, 1 warn, 2 info, 3 debug, 4+ trace) and n is `ValueSource as usize` (clap: DefaultValue 0, EnvVariable 1, CommandLine 2)."""
    setters = []
    for fid, f in F.fns.items():
        for bi, b in enumerate(f.blocks):
            t = b['term']
            if t['k'] == 'call' and not b['cleanup'] and re.search(r'^log::set_max_level|^stderrlog::StdErrLog::verbosity$|^log::set_(boxed_)?logger|^log::set_logger_racy|^stderrlog::StdErrLog::(quiet|init)', t['callee']):
                setters.append((fid, bi, t['callee']))
    lvl = None
    for fid, bi, c in setters:
        if c.startswith('log::set_max_level'):
            return None, 'log::set_max_level called in %s' % fid
        if c.endswith('::verbosity'):
            f = F.fn(fid)
            a = f.arg(bi, 1)
            v = const_val(a)
            if v is None:
                e = a
                while isinstance(e, tuple) and e[0] == 'cast':
                    e = e[2]
                if isinstance(e, tuple) and e[0] == 'discr' and is_call(peel(e[1], casts=False), r'^clap::ArgMatches::value_source$'):
                    v = 2
            if v is None:
                return None, 'verbosity(%s) in %s' % (short(a)[:60], fid)
            lvl = max(lvl or 0, v)
    if lvl is None:
        return 0, 'no logger is installed: log::max_level() stays Off'
    return lvl, 'stderrlog verbosity <= %d (%s)' % (lvl, LEVELS[min(lvl, 4)])


def discharge_api(F, f, bi, api, s):
    t = f.blocks[bi]['term']
    args = s['args']
    if api == 'pnet-ndp-options':
        m = log_macro_region(f, bi)
        if m is None:
            return False, 'parses NDP options of a received packet (pnet: (len * 8) - 2 in u8 overflows for an option length >= 32)'
        lvl, why = max_log_level(F)
        if lvl is not None and LEVELS.index(m) > lvl:
            return True, 'argument of %s, never evaluated: %s' % (m, why)
        return False, 'argument of %s, evaluated when that level is enabled (%s): parses NDP options of a received packet (pnet: (len * 8) - 2 in u8)' % (m, why)
    if api == 'pnet-fill':
        # allocation / fill agreement is decided by C04-R2 / C05-R2 for these call sites (same facts); here: the buffer of the
        # receiver object was allocated from the length of the very value that is copied in
        recv = peel(f.arg(bi, 0), unwraps=False)
        if isinstance(recv, tuple) and recv[0] == 'local':
            obj = recv[1]
            val = f.objview(f.arg(bi, 1), bi)
            alloc = f.objview(f.read(('local', obj), (bi, len(f.blocks[bi]['stmts']))), bi)
            ctor = [c for c in walk(alloc) if isinstance(c, tuple) and c[0] == 'call' and re.search(r"::Mutable\w+Packet::<'a>::owned$", c[1])]
            if ctor:
                buf = peel(ctor[0][2][0], unwraps=False)
                need = peel(val, unwraps=False)
                # the allocation expression mentions len(<the copied slice>) or packet_size(<the populated struct>)
                def mentions(e, x):
                    return any(y == x for y in walk(e))
                target = need
                if is_call(target, r'to_vec$'):
                    target = peel(target[2][0], unwraps=False)
                ok = False
                for c in walk(buf):
                    if isinstance(c, tuple) and c[0] == 'call' and re.search(r'len$|packet_size$', c[1]) and c[2]:
                        a0 = peel(c[2][0], unwraps=False)
                        if is_call(a0, r'to_vec$'):
                            a0 = peel(a0[2][0], unwraps=False)
                        if a0 == target:
                            ok = True
                if t['callee'].endswith('set_options'):
                    # option sizes are added to the allocation (nd_ns_repl): packet_size(&option)
                    arr = need
                    if isinstance(arr, tuple) and arr[0] == 'agg':
                        ok = all(any(isinstance(c, tuple) and c[0] == 'call' and c[1].endswith('packet_size') and peel(c[2][0], unwraps=False) == peel(o, unwraps=False) for c in walk(buf)) for o in arr[2])
                if ok:
                    return True, 'buffer allocated from the size of the value copied in'
        return False, 'fill of %s' % short(args[1])[:80] if len(args) > 1 else 'fill'
    if api in ('vec-index', 'slice-index', 'index', 'str-index'):
        # range / index provenance
        idx = peel(args[1], unwraps=False) if len(args) > 1 else None
        base = args[0]
        if isinstance(idx, tuple) and idx[0] == 'agg' and 'Range' in idx[1]:
            bounds_ = [x for x in idx[2]]
            cs = [const_val(x) for x in bounds_]
            hi = None
            if idx[1].endswith('ops::Range::Range') and len(cs) == 2:
                hi = cs[1]
            elif idx[1].endswith('RangeFrom::RangeFrom') and len(cs) == 1:
                hi = cs[0]
            elif idx[1].endswith('RangeTo::RangeTo') and len(cs) == 1:
                hi = cs[0]
            elif idx[1].endswith('RangeFull::RangeFull'):
                return True, 'full range'
            if hi is not None and (len(cs) == 1 or cs[0] is not None and cs[0] <= hi):
                # need len(base) >= hi on every path
                bn = norm_obj(base)

                def want(op, a, b, hi=hi):
                    cb = const_val(b)
                    la = norm(a)
                    is_len = isinstance(la, tuple) and la[0] == 'len' and la[1] == bn
                    if is_len and cb is not None:
                        if op == 'Lt' and cb >= hi:
                            return 'neg'
                        if op == 'Ge' and cb >= hi:
                            return True
                        if op == 'Gt' and cb >= hi - 1:
                            return True
                    return False
                ok, why = guarded(f, bi, want, [])
                if ok:
                    return True, 'constant range ..%d under len >= %d: %s' % (hi, hi, why)
            return False, 'slice %s of %s' % (short(idx)[:60], short(base)[:40])
        # scalar index into Vec
        if idx is not None:
            In = norm(idx)
            bn = norm_obj(base)

            def want2(op, a, b):
                lb = norm(b)
                is_len = isinstance(lb, tuple) and lb[0] == 'len' and lb[1] == bn
                if op == 'Lt' and norm(a) == In and is_len:
                    return True
                return False
            opnd = t['args'][1] if len(t['args']) > 1 else None
            ok, why = guarded(f, bi, want2, [opnd] if opnd else [])
            if ok:
                return True, 'index < len on every path: ' + why
            ci = const_val(idx)
            if ci is not None:
                def want3(op, a, b, ci=ci):
                    la = norm(a)
                    cb = const_val(b)
                    if isinstance(la, tuple) and la[0] == 'len' and la[1] == norm_obj(base) and cb is not None:
                        if op == 'Lt' and cb > ci:
                            return 'neg'
                        if op == 'Ge' and cb > ci:
                            return True
                        if op == 'Gt' and cb >= ci:
                            return True
                    return False
                ok, why = guarded(f, bi, want3, [])
                if ok:
                    return True, 'constant index %d under len >= k test: %s' % (ci, why)
            return False, 'index %s into %s' % (short(idx)[:50], short(base)[:40])
    if api == 'byteorder-read':
        # read_uN(&buf[a..b]) where the slice has exactly the needed constant length
        sl = peel(args[0], unwraps=False)
        need = {'read_u16': 2, 'read_u32': 4, 'read_u64': 8, 'read_u128': 16}.get(t['name'])
        if is_call(sl, r'Index<I>>::index$|Index::index$') and need:
            rg = peel(sl[2][1], unwraps=False)
            if isinstance(rg, tuple) and rg[0] == 'agg' and rg[1].endswith('ops::Range::Range'):
                a, b = const_val(rg[2][0]), const_val(rg[2][1])
                if a is not None and b is not None and b - a == need:
                    return True, 'reads %d bytes from a %d-byte constant range (the slicing itself is a separate site)' % (need, b - a)
        return False, 'byteorder read of %s' % short(sl)[:60]
    return False, api
