"""C19 — any port, either IP version: answers do not depend on where they were asked."""
from rules.common import *

CI = 'client::client_info::ClientInfo'
# allowed readers of address/port information inside the application layer (the cone of proto::repl):
# exactly the builders of the fields that by specification carry an endpoint address.
ALLOWED_READERS = {
    'proto::stun::repl': {'ip.src', 'port.src', 'port.dst'},
    'proto::rpc::build_repl_portmap': {'ip.dst', 'port.dst'},
    '<proto::dns::query::DNSQuery as proto::dissector::MPacket>::repl': {'ip.dst'},
    'proto::repl': {'transport', 'cookie'},
}
ADDR_MODULES = ('proto::stun::', '<&proto::stun::', '<proto::stun::', 'proto::rpc::build_repl_portmap',
                '<proto::dns::query::DNSQuery as proto::dissector::MPacket>::repl')


def ci_accesses(f):
    out = set()
    whole = False
    for (k, ch, bi, l, ty, dr) in field_accesses(f):
        for i, (adt, fld) in enumerate(ch):
            if adt == CI:
                names = [x[1] for x in ch[i:] if x[0] not in ('variant', 'discr', 'std::option::Option')]
                out.add((k, '.'.join(names[:2])))
                break
    for bi, b in enumerate(f.blocks):
        if b['cleanup']:
            continue
        for s in b['stmts']:
            rv = s['rv']
            if rv['k'] == 'use' and rv['a']['k'] in ('copy', 'move'):
                if place_type(f, rv['a']['place']) == CI and rv['a']['place']['p']:
                    whole = True
    return out, whole


def run(ctx):
    F = ctx.facts()
    rep = ctx.rep
    rep.not_decided += ['TCP vs datagram differences that the specification itself makes (incremental vs one-shot matching)']
    cone = F.cone(['proto::repl'])
    rep.saw(*cone)

    r1 = rep.rule('C19-R1', 'inside the application layer (cone of proto::repl) address, port and transport fields of ClientInfo are read only by the builders of address-bearing fields; nothing reads the Masscanned configuration; nothing writes ClientInfo except the STUN change-port rewrite', floor=4)
    seen_readers = set()
    for fid in sorted(cone):
        f = F.fn(fid)
        acc, whole = ci_accesses(f)
        reads = {p for (k, p) in acc if k in ('r', 'b', 'rw')}
        writes = {p for (k, p) in acc if k in ('w', 'rw')}
        allowed = ALLOWED_READERS.get(fid, set())
        if reads or writes or whole or fid in ALLOWED_READERS:
            seen_readers.add(fid)
            bad = sorted(reads - allowed)
            okw = not writes or (fid == 'proto::stun::repl' and writes == {'port.dst'})
            rep.check(r1, not bad and not whole and okw, fid,
                      'reads %s%s; writes %s; allowed reads %s' % (sorted(reads), ' +whole-struct copy' if whole else '', sorted(writes), sorted(allowed)),
                      '%s:%d' % (f.file, f.line))
        # Masscanned fields
        m = [ch for (k, ch, bi, l, ty, dr) in field_accesses(f) if any(a == 'Masscanned' for a, _ in ch)]
        if m:
            rep.bad(r1, fid + ':Masscanned', 'application-layer code reads configuration fields %s' % sorted(set(m)), '%s:%d' % (f.file, f.line))
    rep.check(r1, seen_readers >= set(ALLOWED_READERS), 'reader-table', 'address readers found: %s' % sorted(seen_readers))

    r1b = rep.rule('C19-R1b', 'IP-address typed values exist in the application layer only inside the address-bearing field builders (STUN MAPPED-ADDRESS, portmapper, DNS A RDATA)', floor=3)
    n = 0
    for fid in sorted(cone):
        f = F.fn(fid)
        has = [i for i, l in enumerate(f.locals) if re.search(r'std::net::(IpAddr|Ipv4Addr|Ipv6Addr)', l['ty']) and 'ClientInfo' not in l['ty']]
        if has:
            n += 1
            rep.check(r1b, fid.startswith(ADDR_MODULES), fid, '%d locals of an IP address type' % len(has), '%s:%d' % (f.file, f.line))
    # R2: transport layer does not branch on ports and hands the payload up unconditionally
    r2 = rep.rule('C19-R2', 'udp::repl / tcp::repl / ipv4::repl / ipv6::repl: no branch condition depends on a port number except through the SYN-cookie; the payload handed to proto::repl is the whole L4 payload, on every path', floor=6)
    for fid in ['layer_4::udp::repl', 'layer_4::tcp::repl', 'layer_3::ipv4::repl', 'layer_3::ipv6::repl', 'layer_2::reply']:
        f = F.fn(fid)
        rep.saw(f)
        bad = []
        for bi in range(f.n):
            if f.blocks[bi]['cleanup']:
                continue
            se = f.switch_edges(bi)
            if not se:
                continue
            d = se[0]

            def strip(e):
                return rewrite(e, lambda x: ('cookie',) if x[0] == 'call' and x[1] == GENERATE else None)
            ds = strip(d)
            for x in walk(ds):
                if isinstance(x, tuple) and x[0] == 'call' and re.search(r"(Tcp|Udp)Packet::<'a>::get_(source|destination)$", x[1]):
                    bad.append((bi, short(d)))
                if isinstance(x, tuple) and x[0] == 'field' and x[2] == 'port':
                    bad.append((bi, short(d)))
        rep.check(r2, not bad, fid + ':branches', 'branch conditions depending on ports: %s' % bad[:3], f.loc(bad[0][0]) if bad else '%s:%d' % (f.file, f.line))
    # layer hand-over: every layer parses exactly the payload of the packet it was given - the object handed to the
    # next layer is <Packet>::new(this_request.payload()) on every call, whatever the header says (no other slice of
    # the frame, no header-length dependent alternative)
    for fid, rx in [('layer_2::reply', r'^layer_2::arp::repl$|^layer_3::ipv[46]::repl$'), ('layer_3::ipv4::repl', r'^layer_4::\w+::repl$'), ('layer_3::ipv6::repl', r'^layer_4::\w+::repl$')]:
        f = F.fn(fid)
        for bi, t in f.calls(rx):
            alts_ = palts(f.argv(bi, 0))
            okh = bool(alts_)
            for a in alts_:
                okh = okh and is_call(a, r"Packet::<'a>::new$") and is_call(peel(a[2][0]), r"Packet<'a> as pnet::packet::Packet>::payload$") and peel(peel(a[2][0])[2][0]) == ('param', 1)
            rep.check(r2, okh, '%s:hand-over:%s' % (fid, (t['resolved'] or [t['callee']])[0]), 'next layer parses %s (required: new(payload(this request)))' % [short(a)[:70] for a in alts_], f.loc(bi))
    udp = F.fn('layer_4::udp::repl')
    pc = udp.calls(r'^proto::repl$')
    ok = len(pc) == 1
    det = '%d call sites of proto::repl' % len(pc)
    if ok:
        bi = pc[0][0]
        a0 = peel(udp.arg(bi, 0))
        okp = is_call(a0, r"UdpPacket<'a> as pnet::packet::Packet>::payload$") and peel(a0[2][0]) == ('param', 1)
        reach = udp.reachable(0, removed_blocks=[bi])
        skip = [r for r in udp.return_blocks() if r in reach]
        ok = okp and not skip
        det = 'payload argument = %s; returns reachable without calling proto::repl: %s' % (short(a0), skip)
    rep.check(r2, ok, 'udp::repl:payload-up', det, udp.loc(pc[0][0]) if pc else '')
    tcp, table, _ = tcp_table(F)
    heads = collections.defaultdict(list)
    for v, h in table.items():
        heads[h].append(v)
    data_heads = [h for h in heads if classify_arm(tcp, h) == 'data']
    gt = tcp.calls(r'^proto::tcb::get_tcb$')
    drops = [bi for bi, t in tcp.calls(r'MetaLogger::tcp_drop$')]
    ok = len(gt) == 1 and len(data_heads) == 1
    det = 'get_tcb call sites %d, data arms %d' % (len(gt), len(data_heads))
    if ok:
        reach = tcp.reachable(data_heads[0], removed_blocks=[gt[0][0]] + drops)
        skip = [r for r in tcp.return_blocks() if r in reach]
        ok = not skip
        det = 'on the data arm every path to a return passes get_tcb (payload handed up) or the invalid-cookie drop: %s' % (not skip)
    rep.check(r2, ok, 'tcp::repl:payload-up', det, tcp.loc(gt[0][0]) if gt else '')
    for cid in F.closures_of.get('layer_4::tcp::repl', []):
        c = F.fn(cid)
        pc = c.calls(r'^proto::repl$')
        ok = len(pc) == 1
        det = '%d proto::repl calls in the get_tcb callback' % len(pc)
        if ok:
            bi = pc[0][0]
            a0 = peel(c.through_refs(c.arg(bi, 0), bi))
            reach = c.reachable(0, removed_blocks=[bi])
            skip = [r for r in c.return_blocks() if r in reach]
            # which captured variable is it?  entry:(*arg1).<n>
            capn = None
            x = a0
            while isinstance(x, tuple) and x[0] in ('entry', 'deref'):
                x = x[1]
            if isinstance(x, tuple) and x[0] == 'field' and peel(x[1]) == ('param', 1):
                capn = int(x[2])
            cap_ok = False
            for pbi, pb in enumerate(tcp.blocks):
                for i, s in enumerate(pb['stmts']):
                    if s['rv']['k'] == 'agg' and s['rv'].get('closure') == cid and capn is not None:
                        v = tcp._through(tcp.rvalue(s['rv'], (pbi, i)), (pbi, i), 0)
                        if capn < len(v[2]):
                            pv = peel(v[2][capn])
                            cap_ok = is_call(pv, r"TcpPacket<'a> as pnet::packet::Packet>::payload$") and peel(pv[2][0]) == ('param', 1)
            ok = not skip and cap_ok
            det = 'callback calls proto::repl(captured #%s = tcp_req.payload(): %s) on every path: %s' % (capn, cap_ok, not skip)
        rep.check(r2, ok, cid + ':payload-up', det, c.loc(pc[0][0]) if pc else '')
    # the captured payload is tcp_req.payload()
    for bi, b in enumerate(tcp.blocks):
        for i, s in enumerate(b['stmts']):
            if s['rv']['k'] == 'agg' and s['rv'].get('agg') == 'closure':
                if s['rv'].get('closure') in F.inlined_helpers:
                    continue        # a local closure invoked in place (inlined): not the get_tcb callback
                v = tcp.rvalue(s['rv'], (bi, i))
                v = tcp._through(v, (bi, i), 0)
                pls = calls_in(v, r"TcpPacket<'a> as pnet::packet::Packet>::payload$")
                rep.check(r2, any(peel(p[2][0]) == ('param', 1) for p in pls), 'tcp::repl:closure-captures-payload',
                          'closure captures %s' % short(v)[:200], '%s:%d' % (tcp.file, s['line']))
    g = F.fn('proto::tcb::get_tcb')
    fc = [(bi, t) for bi, t in g.calls() if t['name'] in ('call_mut', 'call_once', 'call') and re.search(r'ops::(FnMut::call_mut|FnOnce::call_once|Fn::call)$', t['callee'])]
    ok = len(fc) == 1
    if ok:
        reach = g.reachable(0, removed_blocks=[fc[0][0]])
        ok = not [r for r in g.return_blocks() if r in reach]
    rep.check(r2, ok, 'get_tcb:calls-callback', 'get_tcb invokes its callback exactly once on every path: %s' % ok, '%s:%d' % (g.file, g.line))

    r3 = rep.rule('C19-R3', 'inside the address-bearing field builders an address or port value never decides WHETHER an answer is given: every branch on such a value leads to an answer on all of its edges (Option-is-None safety checks excepted)', floor=3)
    for fid in sorted(ALLOWED_READERS):
        if fid == 'proto::repl':
            continue
        f = F.fn(fid)
        sp = set(some_points(f))
        # blocks where the function's result is set to None
        nonep = set()
        rty = f.locals[0]['ty']
        for bi, b in enumerate(f.blocks):
            if b['cleanup']:
                continue
            for st in b['stmts']:
                if st['rv']['k'] == 'agg' and st['rv'].get('adt') == 'std::option::Option' and st['rv'].get('variant') == 'None' and not st['lhs']['p'] and f.locals[st['lhs']['l']]['ty'] == rty:
                    nonep.add(bi)
        bad = []
        n = 0
        for bi in range(f.n):
            se = f.switch_edges(bi)
            if not se or f.blocks[bi]['cleanup']:
                continue
            d = se[0]
            s_ = short(d)
            if not any(isinstance(x, tuple) and x[0] == 'entry' and any(y in short(x) for y in ('.ip.', '.port.')) and 'arg' in short(x) for x in walk(d)):
                continue
            # Option-is-None safety checks: eq(&x, &None) or a discriminant of the Option itself
            if ('eq(' in s_ and 'Option::None' in s_) or (isinstance(d, tuple) and d[0] == 'discr' and isinstance(d[1], tuple) and d[1][0] == 'entry' and
                                                           Fn.path_of(d[1][1])[-1:] in ([('f', 'src')], [('f', 'dst')])):
                continue
            n += 1
            kinds = []
            for (succ_, v) in se[1]:
                r_ = f.reachable(succ_)
                kinds.append((bool(r_ & sp), bool(r_ & nonep)))
            can_answer = [k[0] for k in kinds]
            only_none = [k[1] and not k[0] for k in kinds]
            if any(can_answer) and any(only_none):
                bad.append(s_[:100])
        if fid.startswith('<proto::dns') or not sp:
            # functions without an Option result at this level (Vec-returning builders): nothing to decide
            pass
        rep.check(r3, not bad, fid + ':no-address-dependent-silence', '%d branches on address/port values; branches where one side can only be silent: %s' % (n, bad), '%s:%d' % (f.file, f.line))

    # the address-bearing records must stay well-formed for either IP version and for every port: their embedded
    # lengths follow the bytes actually built (C14 rr:rdlen, C16-R4 XDR padding) - a fixed length would make the
    # answer disappear or break for some addresses only
    from vlib.runner import borrow
    for rid_, inst in borrow(ctx, 'C14', lambda r_, k_: k_ in ('rr:rdlen', 'rr:rdata', 'answer:returned-whole')) + borrow(ctx, 'C16', lambda r_, k_: k_ in ('bytes-then-pad', 'pad-count', 'length-word')):
        rep.check(r3, inst['ok'], '%s:%s' % (rid_, inst['key']), inst['detail'], inst['loc'])
    dispatch_sound(ctx, 'C19', 'which responder answers is decided')
    # R2 admits one port-dependent decision, the SYN-cookie test.  It is port-independent only as long as it is exact for
    # EVERY cookie value (ack == cookie + 1 modulo 2^32): a test that is off for some cookie values (saturating instead of
    # wrapping arithmetic, a table look-up under the wrong key) answers the same payload on some port pairs and not on
    # others.  C07-R1 decides exactly that on tcp::repl; its data-arm instances are obligations here too.
    from rules.common import borrowed_rule
    borrowed_rule(ctx, 'C19', 'RC', 'the one port-dependent decision (SYN-cookie test of the data arm) is exact for every cookie value, so which port pair a flow uses never decides whether its payload is answered (C07-R1 data:*, same facts)',
                  'C07', lambda r_, k_: r_.startswith('C07-R1') and k_.startswith('data:'), floor=3)


