"""C13 — HTTP: complete requests get a well-formed 401, anything else gets silence."""
from rules.common import *
from vlib.fsm import *
from rules import refs


def state_consts(F):
    """Values of the named HTTP_STATE_* constants, read from the MIR of http_parse / repl."""
    out = {}
    for fid in ['proto::http::http_parse', 'proto::http::repl', 'proto::http::ProtocolState::new']:
        f = F.fn(fid)
        for b in f.blocks:
            for st in b['stmts']:
                for o in [st['rv'].get('a'), st['rv'].get('b')]:
                    if o and o.get('k') == 'const' and o.get('name', '') and o['name'].startswith('proto::http::HTTP_STATE_'):
                        out[o['name'].split('::')[-1]] = o['val']
    return out


def http_fsm(F):
    f = F.fn('proto::http::http_parse')
    m = ByteFsm(f, ['state'])
    # the VERB arm: the arm that calls Smack::search_next
    t = f.blocks[m.D]['term']
    verb_vals = []
    dom = f.dominators()
    for bi, tt in f.calls(r'Smack::search_next$'):
        for v, tg in t['targets']:
            if tg in dom[bi]:
                verb_vals.append(v)
    if len(set(verb_vals)) != 1:
        raise AnalysisError('http_parse: method-matching arm not identified')
    verb = verb_vals[0]
    return f, m, verb


def run(ctx):
    F = ctx.facts()
    rep = ctx.rep
    rep.not_decided += ['that the method matcher (HTTP_SMACK, a run-time compiled automaton) accepts exactly the nine methods',
                        'the Date header value (wall clock)']
    rp = F.fn('proto::http::repl')
    rep.saw(rp, 'proto::http::http_parse')
    K = state_consts(F)
    for need in ['HTTP_STATE_CONTENT', 'HTTP_STATE_FAIL']:
        if need not in K:
            raise AnalysisError('constant %s not found' % need)
    CONTENT, FAIL = K['HTTP_STATE_CONTENT'], K['HTTP_STATE_FAIL']

    r1 = rep.rule('C13-R1', 'http::repl builds a response only behind parser state == CONTENT; the parse result it tests is the state it just advanced with this segment', floor=2)
    sp = some_points(rp)

    def is_state(e):
        als = palts(e)
        mods = [a for a in als if isinstance(a, tuple) and a[0] == 'modby']
        rest = [a for a in als if a not in mods]
        if not rest or not all(m_[1] == 'proto::http::http_parse' for m_ in mods):
            return False
        for a in rest:
            if isinstance(a, tuple) and a[0] == 'entry':
                a = a[1]
            if not (isinstance(a, tuple) and Fn.path_of(a)[-1:] == [('f', 'state')]):
                return False
        return True
    okg, dg = value_required_at(rp, sp, is_state, {CONTENT}, stable_fn=is_state)
    rep.check(r1, okg, 'reply-gate', 'Some(..) only on path states with state == HTTP_STATE_CONTENT (%d): %s' % (CONTENT, dg), rp.loc(sp[0]) if sp else '')
    pc = rp.calls(r'^proto::http::http_parse$')
    ok = len(pc) == 1 and peel(rp.argv(pc[0][0], 1)) == ('param', 1)
    if ok:
        r = rp.reachable(0, removed_blocks=[pc[0][0]])
        ok = not [b for b in sp if b in r]
    rep.check(r1, ok, 'parse-before-reply', 'http_parse(pstate, data) runs on the whole segment before the state is tested: %s' % ok, rp.loc(pc[0][0]) if pc else '')

    okc, kc, dc = insert_complete(F)
    rep.check(r1, okc, kc, 'over TCP the parser state of every validated flow is kept between segments (a request completed by a later segment is answered): ' + dc,
              '%s:%d' % (F.fn('proto::tcb::add_tcb').file, F.fn('proto::tcb::add_tcb').line))
    # FSM extraction
    f, m, verb = http_fsm(F)
    start = (verb + 1,)
    seen, trans, prob = explore(m, [start], is_opaque=lambda s: s == (verb,))
    r2 = rep.rule('C13-R2', 'http_parse is a pure byte-at-a-time fold: for every reachable state and every byte the loop body is evaluated to exactly one successor state, reading only the current byte; FAIL and CONTENT are absorbing', floor=3)
    fp = m.frame_problems()
    rep.check(r2, not fp, 'loop-is-all', 'the function is nothing but the byte loop starting at offset 0: %s' % (fp or 'ok'), '%s:%d' % (f.file, f.line))
    rep.check(r2, not prob and not m.impure, 'fold-shape', '%d states x 256 bytes evaluated; undecidable transitions: %d; reads other than data[i]: %d' % (len(seen), len(prob), len(m.impure)),
              '%s:%d' % (f.file, f.line))
    for nm, v in [('FAIL', FAIL), ('CONTENT', CONTENT)]:
        ok = all(trans.get(((v,), b), (None,))[0] == (v,) for b in range(256))
        rep.check(r2, ok, 'absorbing:' + nm, 'state %d maps to itself on all 256 bytes: %s' % (v, ok))
    # the method arm advances by one state on a method match
    okv = False
    for bi, b in enumerate(f.blocks):
        for i, st in enumerate(b['stmts']):
            ch = [p for p in st['lhs']['p'] if isinstance(p, dict) and p.get('f') == 'state']
            if ch and bi in dominated(f, [tg for v, tg in f.blocks[m.D]['term']['targets'] if v == verb][0]):
                v = peel(f.rvalue(st['rv'], (bi, i)))
                if isinstance(v, tuple) and v[0] == 'field':
                    v = v[1]
                if isinstance(v, tuple) and v[0] == 'bin' and v[1] in ('Add', 'AddWithOverflow') and const_val(v[3]) == 1:
                    okv = True
    rep.check(r2, okv, 'method-arm-advances', 'on a method match the parser moves to the state after the method arm (%d -> %d)' % (verb, verb + 1))

    r5 = rep.rule('C13-R5', 'language of the request parser after the method: every request of the statement grammar reaches CONTENT (lower bound), and nothing outside the most lenient reading of request-line / header-line / empty-line does (upper bound); decided on the product of the extracted FSM with the reference automata', floor=2)
    acc = lambda s: s == (CONTENT,)
    for nm, ref, direction in [('complete-requests-are-answered', refs.http_lower(), 'ref<=impl'), ('malformed-or-unterminated-not-answered', refs.http_upper(), 'impl<=ref')]:
        cex = check_inclusion(trans, start, acc, ref[1], ref[0], ref[2], direction)
        rep.check(r5, cex is None, nm, 'product exploration found %s' % ('no counterexample' if cex is None else 'counterexample after the method: %r' % cex), '%s:%d' % (f.file, f.line))
    rep.extra['http_fsm'] = {'states': sorted(s[0] for s in seen), 'transitions': len(trans)}

    r3 = rep.rule('C13-R3', 'response template: status line HTTP/1.1 401, a WWW-Authenticate header, header block closed by an empty line, Content-Length = len() of exactly the value substituted as body, nothing after the body', floor=4)
    fmts = []
    for bi, t in rp.calls(r'fmt::format$'):
        fm = fmt_of(rp.call_val(bi))
        if fm:
            fmts.append((bi, fm))
    resp = [(bi, fm) for bi, fm in fmts if fm[0] and fm[0][0][0] == 'lit' and fm[0][0][1].startswith('HTTP/')]
    if len(resp) != 1:
        rep.bad(r3, 'template', 'expected one response template, found %d' % len(resp))
    else:
        bi, (pieces, args) = resp[0]
        lits = [p[1] for p in pieces if p[0] == 'lit']
        text = ''.join(p[1] if p[0] == 'lit' else '\x00%d\x00' % p[1] for p in pieces)
        rep.check(r3, pieces[0][1].startswith('HTTP/1.1 401'), 'status-line', 'starts with %r' % pieces[0][1][:24], rp.loc(bi))
        rep.check(r3, any(re.search(r'(^|\n)WWW-Authenticate: \S', l) for l in lits), 'www-authenticate', 'WWW-Authenticate header present')
        # body placeholder is last, preceded by an empty line
        last = pieces[-1]
        okb = last[0] == 'arg' and len(pieces) >= 2 and pieces[-2][0] == 'lit' and (pieces[-2][1].endswith('\n\n') or pieces[-2][1].endswith('\r\n\r\n'))
        rep.check(r3, okb, 'body-last' if okb else 'body-followed-by-literal', 'template ends with %r' % (pieces[-2:],), rp.loc(bi))
        # Content-Length placeholder
        cl = [i for i, p in enumerate(pieces) if p[0] == 'lit' and re.search(r'\nContent-Length: $', p[1])]
        okc = len(cl) == 1 and pieces[cl[0] + 1][0] == 'arg' and last[0] == 'arg'
        det = ''
        if okc:
            la = peel(args[pieces[cl[0] + 1][1]], casts=True)
            body = peel(args[last[1]])
            okc = is_call(la, r'len$') and peel(la[2][0]) == body
            det = 'Content-Length <- %s ; body <- %s' % (short(la), short(body))
        rep.check(r3, okc, 'content-length', det or 'Content-Length placeholder not found', rp.loc(bi))
        # the reply returned is this string
        rv = [rp.ret_value(b) for b in rp.return_blocks()]
        okr = any(calls_in(v, r'fmt::format$') for v in rv)
        rep.check(r3, okr, 'reply-is-template', 'the returned bytes are the formatted template: %s' % okr)

    r4 = rep.rule('C13-R4', 'the nine methods: HTTP_VERBS has nine entries and is the list both matchers are built from', floor=2)
    for fid in ['proto::proto_init', 'proto::http::http_init']:
        g_ = F.fn(fid)
        its = [g_.argv(b, 0) for b, t in g_.calls(r'\[T\]>::iter$')]
        names = [x for e in its for x in walk(e) if isinstance(x, tuple) and x[0] == 'const' and x[2] and x[2].endswith('HTTP_VERBS')]
        ok = bool(names) and all(re.search(r'; 9_usize\]$', x[3]) for x in names)
        if not ok:
            # promoted / by-value array constant
            ok = any(isinstance(x, tuple) and x[0] == 'agg' and x[1] == 'array' and len(x[2]) == 9 for e in its for x in walk(e))
        rep.check(r4, ok, fid + ':iterates-HTTP_VERBS', 'iterates over %s' % [short(e)[:80] for e in its], '%s:%d' % (g_.file, g_.line))
    # unknown methods: the parser's own method matcher folds case, so it is the dispatcher's byte-exact signature
    # 'VERB /' that keeps 'get /' etc. out; that matcher must therefore be built case-sensitive
    pi = F.fn('proto::proto_init')
    nw = pi.calls(r'Smack::new$')
    cs = [const_val(pi.argv(b, 1)) for b, _ in nw]
    rep.check(r4, cs == [0], 'dispatcher-is-case-sensitive', 'the protocol matcher is built with nocase=%s (an unknown method differing from a known one only by letter case must not be dispatched)' % cs, pi.loc(nw[0][0]) if nw else '')
    dispatch_sound(ctx, 'C13', 'a request reaches the HTTP responder')
    table_never_shrinks(ctx, 'C13')
    no_abort_in(ctx, 'C13', r'proto::http::', 'answering HTTP')
    # the request FSM is advanced by http_parse alone: a responder (or anything else) that rewinds or patches the parser
    # state of a connection - e.g. a "keep-alive" reset that leaves the verb matcher's row behind - makes later complete
    # requests on that connection unanswerable.  C01-R6 decides the writer sets; the HTTP ones are obligations here.
    borrowed_rule(ctx, 'C13', 'RW', 'every field of the HTTP parser state is written by http_parse (and the constructor) only - the responder never rewinds or patches the FSM (C01-R6 writers:http::ProtocolState.*, same facts)',
                  'C01', lambda r_, k_: r_ == 'C01-R6' and k_.startswith('writers:http::ProtocolState.'), floor=3)


