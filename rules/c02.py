"""C02 — silence outside scope: no answer for foreign MACs/IPs or to denied peers."""
from rules.common import *

L3 = ['layer_2::arp::repl', 'layer_3::ipv4::repl', 'layer_3::ipv6::repl']
L4 = ['layer_4::icmpv4::repl', 'layer_4::icmpv6::repl', 'layer_4::tcp::repl', 'layer_4::udp::repl']


def cfg_field(name):
    return ('entry', ('field', ('deref', ('param', 2)), name))


def list_elem(name):
    return ('entry', ('field', ('variant', ('field', ('deref', ('param', 2)), name), 'Some'), '0'))


def is_contains(d, listname, elem_pred):
    d = peel(d, unwraps=False)
    if not is_call(d, r'^std::collections::HashSet::<[^>]*>::contains$'):
        return False
    return peel(d[2][0], unwraps=False) == list_elem(listname) and elem_pred(peel(d[2][1], unwraps=False))


def ipaddr(variant, inner_pred):
    def p(e):
        return isinstance(e, tuple) and e[0] == 'agg' and e[1] == 'std::net::IpAddr::' + variant and len(e[2]) == 1 and inner_pred(peel(e[2][0]))
    return p


def req_getter(name):
    def p(e):
        return is_call(e, r"Packet::<'a>::%s$" % name) and peel(e[2][0]) == ('param', 1)
    return p


def member_ok(facts, listname, elem_pred):
    """state facts establish: list absent, or list.contains(elem) is true"""
    if is_none_fact(facts, ('discr', cfg_field(listname))):
        return True
    for (k, rel, c) in facts:
        if is_contains(k, listname, elem_pred) and ((rel == '!=' and c == 0) or (rel == '==' and c == 1)):
            return True
    return False


def notmember_ok(facts, listname, elem_pred):
    if is_none_fact(facts, ('discr', cfg_field(listname))):
        return True
    for (k, rel, c) in facts:
        if is_contains(k, listname, elem_pred) and rel == '==' and c == 0:
            return True
    return False


def track(k):
    k0 = peel(k, unwraps=False)
    if isinstance(k0, tuple) and k0[0] == 'call' and not k0[1].startswith(('std::', 'core::', 'pnet')):
        return True     # boolean helper of the crate: expanded through its own path facts
    s = short(k)
    return 'contains' in s or 'self_ip_list' in s or 'remote_ip_deny_list' in s or 'get_next_header' in s or 'get_next_level_protocol' in s


def run(ctx):
    F = ctx.facts()
    rep = ctx.rep
    rep.not_decided += ['that pnet getters return the header fields they are named after (library)']

    # ---------------- R1 MAC gate
    r1 = rep.rule('C02-R1', 'layer_2::reply: every path to a lower-layer call or to a reply passes the true edge of get_authorized_eth_addr(mac, self_ip_list).contains(request destination MAC)', floor=4)
    l2 = F.fn('layer_2::reply')
    rep.saw(l2)

    def is_auth_contains(d):
        d = peel(d, unwraps=False)
        if not is_call(d, r'HashSet::<[^>]*>::contains$'):
            return False
        s = peel(d[2][0], unwraps=False)
        e = peel(d[2][1], unwraps=False)
        if not is_call(s, r'^layer_2::get_authorized_eth_addr$'):
            return False
        a0, a1 = peel(s[2][0], unwraps=False), peel(s[2][1], unwraps=False)
        okargs = a0 in (cfg_field('mac'), ('field', ('deref', ('param', 2)), 'mac')) and a1 == cfg_field('self_ip_list')
        return okargs and is_call(e, r"EthernetPacket::<'a>::get_destination$") and peel(e[2][0]) == ('param', 1)
    gate = bool_edges(l2, is_auth_contains, True)
    rep.check(r1, bool(gate), 'layer_2::reply:gate-present', 'authorised-MAC membership test on the request destination found: %s' % bool(gate), '%s:%d' % (l2.file, l2.line))
    targets = [(bi, t['callee']) for bi, t in l2.calls() if (t['resolved'] or [''])[0] in L3]
    rep.check(r1, sorted(c for _, c in targets) == sorted(L3), 'layer_2::reply:lower-layer-calls', 'lower-layer calls: %s' % [c for _, c in targets])
    for bi, c in targets:
        off = l2.must_pass(gate, [bi])
        rep.check(r1, not off, 'layer_2::reply:before:%s' % c, 'call reachable without passing the MAC gate: %s' % bool(off), l2.loc(bi))
    sp = some_points(l2)
    off = l2.must_pass(gate, sp)
    rep.check(r1, bool(sp) and not off, 'layer_2::reply:before-reply', 'reply construction reachable without passing the MAC gate: %s' % bool(off), l2.loc(sp[0]) if sp else '')

    # ---------------- R1b contents of the authorised set (structure of the derivation)
    r1b = rep.rule('C02-R1b', 'get_authorized_eth_addr inserts exactly: broadcast, the configured MAC, 33:33:00:00:00:01, and per handled address 01:00:5e + low 23 bits (IPv4) / 33:33:ff + low 24 bits (IPv6)', floor=5)
    ga = F.fn('layer_2::get_authorized_eth_addr')
    rep.saw(ga)
    ins = ga.calls(r'HashSet::<[^>]*>::insert$')
    vals = []
    for bi, t in ins:
        vals.append((bi, peel(ga.argv(bi, 1), unwraps=True)))
    kinds = collections.Counter()
    # the derived members, as bit vectors over the bits of the configured address (vlib/bits.py): decided for
    # every address value, whatever the spelling (element stores, array literal, named constants, shifts ...)
    from vlib.bits import BitEval, describe

    def mac_bytes(bi):
        v = ga.arg(bi, 1)
        while isinstance(v, tuple) and v[0] in ('ref', 'deref'):
            v = v[1]
        if is_call(v, r'MacAddr::new$') and len(v[2]) == 6:
            return list(v[2])
        if isinstance(v, tuple) and v[0] == 'agg' and 'MacAddr' in str(v[1]) and len(v[2]) == 6:
            return list(v[2])
        sites = [cb for cb, _ in ga.calls(r'convert::From::from$|From<\[u8; 6\]>>::from$') if ga.call_val(cb) == v or ga.call_expr(cb) == v]
        if sites:
            fb = sites[0]
            a = ga.blocks[fb]['term']['args'][0]
            pt = (fb, len(ga.blocks[fb]['stmts']))
            if a['k'] in ('copy', 'move') and not a['place']['p'] and re.search(r'^\[u8; 6_usize\]$', ga.locals[a['place']['l']]['ty']):
                L_ = a['place']['l']
                for _ in range(4):
                    ds_ = [(b_, i_, st_) for b_, blk_ in enumerate(ga.blocks) if not blk_['cleanup'] for i_, st_ in enumerate(blk_['stmts']) if not st_['lhs']['p'] and st_['lhs']['l'] == L_]
                    if len(ds_) == 1 and ds_[0][2]['rv']['k'] == 'use' and ds_[0][2]['rv']['a']['k'] in ('copy', 'move') and not ds_[0][2]['rv']['a']['place']['p']:
                        L_ = ds_[0][2]['rv']['a']['place']['l']
                    else:
                        break
                # a match-valued array: one whole-array literal per branch -> evaluate every alternative on its own
                if len(ds_) >= 2 and all(st_['rv']['k'] == 'agg' and st_['rv'].get('agg') == 'array' and len(st_['rv']['ops']) == 6 for _, _, st_ in ds_):
                    return ('alts', [[ga._through(ga.operand(o_, (b_, i_)), (b_, i_), 0) for o_ in st_['rv']['ops']] for b_, i_, st_ in ds_])
                # ... or the array is the value of a match / of inlined helpers: each alternative of its provenance is a 6-byte literal
                pv_ = [x for x in palts(ga.arg(fb, 0), unwraps=False)]
                if len(pv_) >= 2 and all(isinstance(x, tuple) and x[0] == 'agg' and x[1] == 'array' and len(x[2]) == 6 for x in pv_):
                    return ('alts', [list(x[2]) for x in pv_])
                return [ga._through(ga.read(('index', ('local', a['place']['l']), ('const', i_, None, 'usize')), pt), pt, 0) for i_ in range(6)]
            e = peel(ga.argv(fb, 0), unwraps=False)
            if isinstance(e, tuple) and e[0] == 'agg' and e[1] == 'array' and len(e[2]) == 6:
                return list(e[2])
        return None

    def want(prefix, nbits):
        out = []
        for b_ in prefix:
            out.append([(b_ >> k) & 1 for k in range(8)])
        low = [('i', k) for k in range(nbits)] + [0] * (24 - nbits)
        # bytes 3,4,5 carry bits 23..16, 15..8, 7..0 of the address
        out += [low[16:24], low[8:16], low[0:8]]
        return out
    work_ = []
    for bi, v in vals:
        mb = mac_bytes(bi)
        if mb is None:
            continue
        if isinstance(mb, tuple) and mb[0] == 'alts':
            work_ += [(bi, m_) for m_ in mb[1]]
        else:
            work_.append((bi, mb))
    for bi, mb in work_:
        be = BitEval()
        got = [be.bits(x) for x in mb]
        got = [(g + [0] * 8)[:8] if g is not None else [None] * 8 for g in got]
        keys = {b_[1] for g in got for b_ in g if isinstance(b_, tuple)}
        norm = [[('i', b_[2]) if isinstance(b_, tuple) else b_ for b_ in g] for g in got]
        shown = ' | '.join(describe(g) for g in got)
        kstr = short(list(keys)[0][1])[:70] if len(keys) == 1 else str(len(keys))
        from_iter = len(keys) == 1 and any(is_call(x, r'Iterator>::next$|Iterator::next$') for x in walk(list(keys)[0][1]))
        if norm == want([0x01, 0x00, 0x5e], 23) and from_iter and 'V4' in kstr:
            rep.ok(r1b, 'ipv4-multicast-mac', '01:00:5e + low 23 bits of the address, bit-exact: %s (address = %s)' % (shown, kstr), ga.loc(bi))
            kinds['v4'] += 1
        elif norm == want([0x33, 0x33, 0xff], 24) and from_iter and 'V6' in kstr:
            rep.ok(r1b, 'ipv6-solicited-node-mac', '33:33:ff + low 24 bits of the address, bit-exact: %s (address = %s)' % (shown, kstr), ga.loc(bi))
            kinds['v6'] += 1
        else:
            rep.bad(r1b, 'derived-mac:%s' % ga.loc(bi).split(':')[0], 'a derived member of the authorised set is neither 01:00:5e+low23(IPv4 address of the list) nor 33:33:ff+low24(IPv6 address of the list): bits %s (inputs: %s)' % (shown, kstr), ga.loc(bi))
            kinds['other'] += 1
    rep.check(r1b, kinds['v4'] == 1 and kinds['v6'] == 1 and not kinds['other'], 'derived-arrays', 'derived address members found: %s' % dict(kinds))
    fixed = []
    for bi, v in vals:
        raw = ga.arg(bi, 1)
        if is_call(raw, r'convert::From::from$') and ga.locals[ga.blocks[bi]['term']['args'][1]['place']['l']]['ty'].endswith('MacAddr'):
            fixed.append('derived')
        elif is_call(v, r'MacAddr::broadcast$'):
            fixed.append('broadcast')
        elif v == ('entry', ('deref', ('param', 1))) or v == ('param', 1) or short(v) in ('entry:*arg1', '*arg1'):
            fixed.append('own')
        elif calls_in(v, r'str>::parse$|FromStr::from_str$') and any(x[0] == 'bytes' and bytes.fromhex(x[1]) == b'33:33:00:00:00:01' for x in walk(v) if isinstance(x, tuple)):
            fixed.append('allnodes')
        elif is_call(v, r'MacAddr.*From<\[u8; 6\]>>::from$|convert::From::from$'):
            fixed.append('derived')
        else:
            fixed.append('other:' + short(v)[:60])
    rep.check(r1b, sorted(set(fixed)) == ['allnodes', 'broadcast', 'derived', 'own'] and fixed.count('allnodes') == fixed.count('broadcast') == fixed.count('own') == 1 and fixed.count('derived') in (1, 2),
              'insert-sites', 'members inserted: %s' % sorted(fixed))
    # the derived inserts are inside the loop over the *configured* address list
    src = [bi for bi, t in ga.calls(r'IntoIterator>::into_iter$|IntoIterator::into_iter$')]
    its = [short(ga.argv(b, 0)) for b in src]
    def only_arg2(e):
        roots = [x for x in walk(e) if isinstance(x, tuple) and x and x[0] in ('param', 'entry')]
        return any(x == ('param', 2) or (x[0] == 'entry' and Fn.root_of(x[1]) in (('param', 2), ('deref', ('param', 2)))) for x in roots) and \
            all(x == ('param', 2) or (x[0] == 'entry' and Fn.root_of(x[1]) in (('param', 2), ('deref', ('param', 2)))) for x in roots)
    rep.check(r1b, len(src) >= 1 and all(only_arg2(ga.argv(b, 0)) for b in src), 'iterates-config-list', 'loop iterates over %s' % its)

    # ---------------- R2 dispatch sets
    r2 = rep.rule('C02-R2', 'EtherType dispatch handles exactly {ARP,IPv4,IPv6}; IPv4 next protocol exactly {ICMP,TCP,UDP}; IPv6 next header exactly {ICMPv6,TCP,UDP}; every default edge leads only to silence', floor=6)
    for fid, getname, want, lowers in [
        ('layer_2::reply', 'get_ethertype', {0x0806, 0x0800, 0x86dd}, L3),
        ('layer_3::ipv4::repl', 'get_next_level_protocol', {1, 6, 17}, L4),
        ('layer_3::ipv6::repl', 'get_next_header', {58, 6, 17}, L4),
    ]:
        f = F.fn(fid)
        rep.saw(f)
        sws = []
        for bi in range(f.n):
            if f.blocks[bi]['cleanup']:
                continue
            se = f.switch_edges(bi)
            if se and isinstance(se[0], tuple) and se[0][0] == 'field' and req_getter(getname)(peel(se[0][1])):
                sws.append((bi, se))
        if len(sws) != 1:
            rep.bad(r2, fid + ':dispatch', 'expected one dispatch switch on %s(), found %d' % (getname, len(sws)), '%s:%d' % (f.file, f.line))
            continue
        bi, (d, edges, vals) = sws[0]
        rep.check(r2, set(vals) == want, fid + ':handled-set', 'dispatch values %s (required %s)' % (sorted(vals), sorted(want)), f.loc(bi))
        other = [s for s, v in edges if v is None][0]
        reach = f.reachable(other)
        lower_blocks = [b for b, t in f.calls() if (t['resolved'] or [''])[0] in lowers]
        bad = [b for b in lower_blocks + some_points(f) if b in reach]
        rep.check(r2, not bad, fid + ':default-is-silence', 'from the default edge a lower-layer call or reply construction is reachable: %s' % [f.loc(b) for b in bad], f.loc(other))
        # every lower-layer call sits on the arm of its own protocol value
        dom = f.dominators()
        for b in lower_blocks:
            arm = [v for s, v in edges if v is not None and s in dom.get(b, ()) and len(f.pred[s]) == 1]
            callee = (f.blocks[b]['term']['resolved'] or [''])[0]
            expect = {'layer_2::arp::repl': 0x0806, 'layer_3::ipv4::repl': 0x0800, 'layer_3::ipv6::repl': 0x86dd,
                      'layer_4::icmpv4::repl': 1, 'layer_4::icmpv6::repl': 58, 'layer_4::tcp::repl': 6, 'layer_4::udp::repl': 17}[callee]
            rep.check(r2, arm == [expect], '%s:arm-of:%s' % (fid, callee), 'called on dispatch arm %s (required %s)' % (arm, expect), f.loc(b))

    # ---------------- R3 deny list, R4 destination membership
    r3 = rep.rule('C02-R3', 'ipv4::repl / ipv6::repl: on every path, before any L4 handler runs and before a reply is built, the deny list is absent or does not contain the request source address', floor=8)
    r4 = rep.rule('C02-R4', 'with a self-IP list configured, every address that becomes a reply source (IPv4/IPv6 set_source, ARP sender protocol address, ND advertised target) passed a membership test on every path', floor=5)
    for fid, var in [('layer_3::ipv4::repl', 'V4'), ('layer_3::ipv6::repl', 'V6')]:
        f = F.fn(fid)
        # flag 'nd' = the ND-target substitution block was passed
        nd_blocks = set()
        if var == 'V6':
            ssb = f.calls(r"::MutableIpv6Packet::<'a>::set_source$")
            srcvar = var_feeding(f, ssb[0][0], 1) if len(ssb) == 1 else None
            for bi, i, val in (defs_of_local(f, srcvar) if srcvar is not None else []):
                if not req_getter('get_destination')(peel(val)):
                    nd_blocks.add(bi)

        def on_edge_flags(bi, s, efs, flags):
            if s in nd_blocks:
                return flags | {'nd'}
            return flags
        states, exits = fact_sim(f, track, on_edge_flags=on_edge_flags)
        src_pred = ipaddr(var, req_getter('get_source'))
        dst_pred = ipaddr(var, req_getter('get_destination'))
        l4calls = [(b, (t['resolved'] or [''])[0]) for b, t in f.calls() if (t['resolved'] or [''])[0] in L4]
        for b, callee in l4calls:
            sts = states.get(b, set())
            bad = [st for st in sts if not all(notmember_ok(a_, 'remote_ip_deny_list', src_pred) for a_ in helper_alternatives(F, st[1]))]
            rep.check(r3, bool(sts) and not bad, '%s:before:%s' % (fid, callee), '%d path states reach the call; %d without the deny-list test on the source address' % (len(sts), len(bad)), f.loc(b))
        for b in some_points(f):
            sts = states.get(b, set())
            bad = [st for st in sts if not all(notmember_ok(a_, 'remote_ip_deny_list', src_pred) for a_ in helper_alternatives(F, st[1]))]
            rep.check(r3, bool(sts) and not bad, '%s:before-reply' % fid, '%d path states reach the reply; %d without the deny-list test' % (len(sts), len(bad)), f.loc(b))
        # R4: set_source
        for b, t in f.calls(r"::MutableIpv[46]Packet::<'a>::set_source$"):
            sts = states.get(b, set())
            v = f.argv(b, 1)
            al = palts(v)
            bad = []
            for (flags, facts) in sts:
                if 'nd' in flags:
                    continue        # the value is the ND target returned by icmpv6::repl (summary checked below)
                if not all(member_ok(a_, 'self_ip_list', dst_pred) for a_ in helper_alternatives(F, facts)):
                    bad.append(sorted((short(k)[:60], r, c) for k, r, c in facts))
            key = '%s:set_source' % fid
            rep.check(r4, bool(sts) and not bad, key if not bad else key + ':unchecked-destination',
                      'source address %s; %d of %d path states reach it with a configured list and no membership test on the request destination%s'
                      % (short(v)[:100], len(bad), len(sts), (' e.g. ' + str(bad[0])) if bad else ''), f.loc(b))
            if nd_blocks:
                # the substituted value must be icmpv6::repl's second result
                nd = [a for a in al if isinstance(a, tuple) and a[0] == 'field' and a[2] == '1' and is_call(peel(a[1]), r'^layer_4::icmpv6::repl$')]
                other = [a for a in al if not req_getter('get_destination')(a) and a not in nd]
                rep.check(r4, len(nd) == 1 and not other, fid + ':nd-substitute', 'substituted source = %s' % [short(a)[:60] for a in al if not req_getter('get_destination')(a)], f.loc(b))

    # ---------------- R5 ARP / ND gates and the icmpv6 summary
    r5 = rep.rule('C02-R5', 'arp::repl and nd_ns_repl answer only for a handled target; icmpv6::repl hands an address to L3 only for an answered solicitation, and it is that solicitation\'s target', floor=5)
    arp = F.fn('layer_2::arp::repl')
    rep.saw(arp)
    states, _ = fact_sim(arp, track)
    tp = ipaddr('V4', req_getter('get_target_proto_addr'))
    for b in some_points(arp):
        sts = states.get(b, set())
        bad = [st for st in sts if not all(member_ok(a_, 'self_ip_list', tp) for a_ in helper_alternatives(F, st[1]))]
        rep.check(r5, bool(sts) and not bad, 'arp::repl:reply-gated', '%d path states; %d without membership of the requested address' % (len(sts), len(bad)), arp.loc(b))
    for b, t in arp.calls(r"MutableArpPacket::<'a>::set_sender_proto_addr$"):
        v = peel(arp.argv(b, 1))
        sts = states.get(b, set())
        bad = [st for st in sts if not all(member_ok(a_, 'self_ip_list', tp) for a_ in helper_alternatives(F, st[1]))]
        rep.check(r4, req_getter('get_target_proto_addr')(v) and bool(sts) and not bad, 'arp::repl:sender_proto_addr', 'advertised address = %s; unchecked path states: %d' % (short(v), len(bad)), arp.loc(b))
    nd = F.fn('layer_4::icmpv6::nd_ns_repl')
    rep.saw(nd)
    states, _ = fact_sim(nd, track)
    ta = ipaddr('V6', req_getter('get_target_addr'))
    sp = some_points(nd)
    rep.check(r5, bool(sp), 'nd_ns_repl:has-reply', 'reply points: %d' % len(sp))
    for b in sp:
        sts = states.get(b, set())
        bad = [st for st in sts if not all(member_ok(a_, 'self_ip_list', ta) for a_ in helper_alternatives(F, st[1]))]
        rep.check(r5, bool(sts) and not bad, 'nd_ns_repl:reply-gated', '%d path states; %d without membership of the solicited target' % (len(sts), len(bad)), nd.loc(b))
    # advertised target
    for bi, b in enumerate(nd.blocks):
        if b['cleanup']:
            continue
        for i, s in enumerate(b['stmts']):
            rv = s['rv']
            if rv['k'] == 'agg' and rv.get('adt', '').endswith('ndp::NeighborAdvert'):
                a = F.adts  # not local: field order from pnet: icmpv6_type, icmpv6_code, checksum, flags, reserved, target_addr, options, payload
                v = nd.rvalue(rv, (bi, i))
                tgt = peel(v[2][5]) if len(v[2]) == 8 else None
                rep.check(r4, tgt is not None and req_getter('get_target_addr')(tgt), 'nd_ns_repl:advertised-target', 'NeighborAdvert.target_addr = %s' % (short(tgt) if tgt else '?'), '%s:%d' % (nd.file, s['line']))
    ic = F.fn('layer_4::icmpv6::repl')
    rep.saw(ic)
    # the address handed to L3 = second component of the returned tuple: every alternative is None or
    # Some(target of the solicitation), and a Some is only built on path states where nd_ns_repl(that solicitation)
    # returned Some - independent of whether a variable or a tuple-valued match carries it
    comp = []
    for rb in ic.return_blocks():
        rv_ = peel(ic.ret_value(rb), unwraps=False)
        for a_ in (rv_[1] if isinstance(rv_, tuple) and rv_[0] == 'phi' else [rv_]):
            a_ = peel(a_, unwraps=False)
            if isinstance(a_, tuple) and a_[0] == 'agg' and a_[1] == 'tuple' and len(a_[2]) == 2:
                comp += palts(a_[2][1], unwraps=False)
            else:
                comp.append(('?', a_))
    somes_ = [c for c in comp if not (isinstance(c, tuple) and c[0] == 'agg' and str(c[1]).endswith('Option::None'))]
    det = 'address component alternatives: %s' % sorted(set(short(c)[:70] for c in comp))
    okd = bool(comp) and bool(somes_)
    ndc = ic.calls(r'^layer_4::icmpv6::nd_ns_repl$')
    okd = okd and len(ndc) == 1
    if okd:
        obj = peel(ic.argv(ndc[0][0], 0))
        okd = is_call(obj, r"NeighborSolicitPacket::<'a>::new$") and calls_in(obj, r"Icmpv6Packet<'a> as pnet::packet::Packet>::packet$") != []
        # every place where a Some(address) is materialised: it is the target of that very solicitation
        mk = []
        for bi2, blk in enumerate(ic.blocks):
            if blk['cleanup']:
                continue
            for i2, st in enumerate(blk['stmts']):
                if st['rv']['k'] == 'agg' and st['rv'].get('adt') == 'std::option::Option' and st['rv'].get('variant') == 'Some' and \
                        not st['lhs']['p'] and 'Ipv6Addr' in ic.locals[st['lhs']['l']]['ty']:
                    v2 = peel(ic._through(ic.rvalue(st['rv'], (bi2, i2)), (bi2, i2), 0))
                    mk.append(bi2)
                    if not (is_call(v2, r"NeighborSolicitPacket::<'a>::get_target_addr$") and peel(v2[2][0]) == obj):
                        okd = False
                        det += '; %s is not the target of the answered solicitation' % short(v2)[:60]
        if okd and mk:
            ce = ic.call_val(ndc[0][0])
            at_ = path_states_at(ic, mk, lambda k: k == ('discr', ce))
            good = all(at_[b] and all(any(k == ('discr', ce) and is_eq(r_, c_, 1, two=True) for (k, r_, c_) in fs) for fs in at_[b]) for b in mk)
            okd = good
            det += '; built only after nd_ns_repl(same solicitation) returned Some: %s' % good
        elif okd:
            okd = False
            det += '; construction site of the Some(target) not found'
    rep.check(r5, okd, 'icmpv6::repl:nd-target-summary', det, '%s:%d' % (ic.file, ic.line))
    # the tuple returned carries dst_ip in position 1
    for rb in ic.return_blocks():
        rv = ic.ret_value(rb)
        oks = []
        for a in alts(rv):
            oks.append(isinstance(a, tuple) and a[0] == 'agg' and a[1] == 'tuple' and len(a[2]) == 2)
        rep.check(r5, all(oks), 'icmpv6::repl:return-shape', 'returns (reply, address) tuples: %s' % all(oks), ic.loc(rb))

    # ---------------- R6: the configuration reaches the stack as given (main)
    r6 = rep.rule('C02-R6', 'configuration plumbing in main(): the self-IP list and the deny list handed to the stack are the sets parsed from their own command-line options (file and inline form), passed as Some(list) exactly when non-empty; the MAC is the --mac-addr option, else the interface\'s, else the default', floor=5)
    mn = F.fn('main')
    rep.saw(mn)
    names = [fl['name'] for fl in F.adts['Masscanned']['variants'][0]['fields']]
    aggs = []
    for bi, b in enumerate(mn.blocks):
        if b['cleanup']:
            continue
        for i, st in enumerate(b['stmts']):
            if st['rv']['k'] == 'agg' and st['rv'].get('adt', '') == 'Masscanned':
                aggs.append((bi, i, mn._through(mn.rvalue(st['rv'], (bi, i)), (bi, i), 0)))
    rep.check(r6, len(aggs) == 1, 'main:one-context', 'Masscanned contexts built in main(): %d' % len(aggs))
    if len(aggs) == 1:
        bi0, i0, agg = aggs[0]
        vals = dict(zip(names, agg[2]))

        def has_key(e, key):
            return any(isinstance(x, tuple) and x[0] == 'bytes' and bytes.fromhex(x[1]) == key for x in walk(e))
        for fld, kfile, kinline in [('self_ip_list', b'selfipfile', b'selfiplist'), ('remote_ip_deny_list', b'remoteipdenyfile', b'remoteipdenylist')]:
            al = palts(vals[fld], unwraps=False)
            somes = [a for a in al if isinstance(a, tuple) and a[0] == 'agg' and str(a[1]).endswith('Option::Some')]
            nones = [a for a in al if isinstance(a, tuple) and a[0] == 'agg' and str(a[1]).endswith('Option::None')]
            ok = len(somes) == 1 and len(nones) == 1 and len(al) == 2
            det = '%s alternatives: %s' % (fld, [short(a)[:50] for a in al])
            if ok:
                lst = somes[0][2][0]
                parsed = calls_in(lst, r'IpAddrParser>::extract_ip_addresses_only$|extract_ip_addresses_only$')
                okf = bool(parsed) and has_key(lst, kfile) and not any(has_key(lst, k_) for k_ in (b'selfipfile', b'selfiplist', b'remoteipdenyfile', b'remoteipdenylist') if k_ not in (kfile, kinline))
                # the inline option extends the same set
                ext = [b_ for b_, t_ in mn.calls(r'Extend<[^>]*>>::extend$|Extend::extend$|HashSet::<[^>]*>::extend$') if has_key(mn.argv(b_, 1), kinline) and calls_in(mn.argv(b_, 1), r'extract_ip_addresses_only$')]
                # Some(..) exactly when the set is not empty
                sb = [b_ for b_, blk in enumerate(mn.blocks) if not blk['cleanup'] for i_, st_ in enumerate(blk['stmts'])
                      if st_['rv']['k'] == 'agg' and st_['rv'].get('adt') == 'std::option::Option' and 'HashSet' in mn.locals[st_['lhs']['l']]['ty'] and not st_['lhs']['p']
                      and has_key(mn._through(mn.rvalue(st_['rv'], (b_, i_)), (b_, i_), 0), kfile) and st_['rv'].get('variant') == 'Some']
                emp_false = bool_edges(mn, lambda d: is_call(peel(d, unwraps=False), r'HashSet::<[^>]*>::is_empty$') and has_key(d, kfile), False)
                emp_true = bool_edges(mn, lambda d: is_call(peel(d, unwraps=False), r'HashSet::<[^>]*>::is_empty$') and has_key(d, kfile), True)
                oke = bool(sb) and bool(emp_false) and not mn.must_pass(emp_false, sb) and bool(emp_true) and all(not any(x in mn.reachable(s_) for x in sb) for (_, s_) in emp_true)
                ok = okf and bool(ext) and oke
                det = '%s = Some(set parsed from --%s, extended by --%s): %s / %s; Some exactly when the set is not empty: %s' % (fld, kfile.decode(), kinline.decode(), okf, bool(ext), oke)
            rep.check(r6, ok, 'main:' + fld, det, mn.loc(bi0))
        mal = palts(vals['mac'], unwraps=True)
        kinds_ = []
        for a in mal:
            if calls_in(a, r'FromStr>::from_str$|FromStr::from_str$|str>::parse$') and has_key(a, b'mac'):
                kinds_.append('option')
            elif calls_in(a, r'FromStr>::from_str$|FromStr::from_str$|str>::parse$') and any(isinstance(x, tuple) and x[0] == 'bytes' and re.match(rb'^[0-9a-f:]{17}$', bytes.fromhex(x[1])) for x in walk(a)):
                kinds_.append('default')
            elif calls_in(a, r'^get_interface$') and any(isinstance(x, tuple) and x[0] == 'field' and x[2] == 'mac' and calls_in(x[1], r'^get_interface$') for x in walk(a)) and \
                    not any(isinstance(x, tuple) and x[0] == 'bin' for x in walk(a)):
                kinds_.append('interface')
            else:
                kinds_.append('other:' + short(a)[:40])
        rep.check(r6, sorted(kinds_) == ['default', 'interface', 'option'], 'main:mac', 'configured MAC alternatives: %s' % sorted(kinds_), mn.loc(bi0))
        # the reply() call gets this context
        rc = mn.calls(r'^reply$')
        okc = len(rc) == 1 and any(isinstance(x, tuple) and x[0] == 'local' for x in walk(mn.arg(rc[0][0], 1)))
        rep.check(r6, okc, 'main:context-used', 'reply(frame, &masscanned) is called with the context built above: %s' % okc, mn.loc(rc[0][0]) if rc else '')
    # the two text parsers main() builds the lists with: what parses as an address is stored, as parsed
    for pid in ['<std::fs::File as utils::parsers::IpAddrParser>::extract_ip_addresses_only', '<&str as utils::parsers::IpAddrParser>::extract_ip_addresses_only']:
        pf_ = F.fn(pid)
        rep.saw(pf_)
        ins_ = [b_ for b_, t_ in pf_.calls(r'HashSet::<[^>]*>::insert$')]
        okv = bool(ins_)
        shown = []
        for b_ in ins_:
            for a_ in palts(pf_.argv(b_, 1), unwraps=False):
                shown.append(short(a_)[:60])
                good = isinstance(a_, tuple) and a_[0] == 'agg' and str(a_[1]) in ('std::net::IpAddr::V4', 'std::net::IpAddr::V6') and len(a_[2]) == 1
                if good:
                    x_ = a_[2][0]
                    good = isinstance(x_, tuple) and x_[0] == 'field' and x_[2] == '0' and isinstance(x_[1], tuple) and x_[1][0] == 'variant' and x_[1][2] == 'Ok' and \
                        is_call(peel(x_[1][1], unwraps=False), r'str>::parse$|FromStr::from_str$|FromStr>::from_str$')
                okv = okv and good
        # the returned set is the one filled
        rets_ = [a_ for rb_ in pf_.return_blocks() for a_ in palts(pf_.ret_value(rb_), unwraps=False)]
        okr = any(isinstance(a_, tuple) and a_[0] == 'modby' and a_[1].endswith('::insert') for a_ in rets_)
        # every successful parse reaches the insert (the optional exclusion list aside)
        oks = pf_.gate_edges(lambda d, v, vals: isinstance(d, tuple) and d[0] == 'discr' and is_call(peel(d[1], unwraps=False), r'str>::parse$|FromStr::from_str$|FromStr>::from_str$') and v == 0)
        excl = bool_edges(pf_, lambda d: is_call(peel(d, unwraps=False), r'HashSet::<[^>]*>::contains$'), True)
        nxt = [b_ for b_, t_ in pf_.calls(r'Iterator>::next$|Iterator::next$')]
        okc = bool(oks)
        for (_, s_) in oks:
            r_ = pf_.reachable(s_, removed_blocks=ins_, removed_edges=excl)
            if any(x in r_ for x in nxt + pf_.return_blocks()):
                okc = False
        rep.check(r6, okv and okr and okc, 'parser:%s' % pid.split(' as ')[0].strip('<'), 'inserted values %s are the parsed addresses unmodified: %s; the filled set is returned: %s; every successful parse is stored: %s' % (shown[:2], okv, okr, okc),
                  '%s:%d' % (pf_.file, pf_.line))
