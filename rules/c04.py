"""C04 — every emitted frame is well-formed at every layer (lengths, checksums)."""
from rules.common import *


def obj_of(e):
    """local id of a packet object reference &_n (possibly wrapped in to_immutable / packet / deref)."""
    e = peel(e, unwraps=False)
    while True:
        if isinstance(e, tuple) and e[0] == 'call' and e[2] and re.search(r'to_immutable$|Packet>?::packet$|to_vec$|Deref::deref$|::as_slice$|AsRef<[^>]*>>::as_ref$|::as_ref$|Clone::clone$|to_owned$', e[1]):
            e = peel(e[2][0], unwraps=False)
        elif isinstance(e, tuple) and e[0] == 'ref':
            e = peel(e[1], unwraps=False)
        else:
            break
    if isinstance(e, tuple) and e[0] == 'local':
        return e[1]
    return None


def setters_on(f, obj):
    out = []
    for bi, t in f.calls(r"::Mutable\w+Packet::<'a>::(set_\w+|populate)$"):
        if obj_of(f.arg(bi, 0)) == obj:
            out.append((bi, t['name']))
    return out


def len_of_obj(e, obj):
    """e == len(packet(&obj)) possibly through casts / try_into / unwrap"""
    e = peel(e, casts=True)
    while True:
        if is_call(e, r'try_into$|unwrap$'):
            e = peel(e[2][0], casts=True)
        elif isinstance(e, tuple) and e[0] == 'bin' and ((e[1] == 'Rem' and const_val(e[3]) in (1 << 16, 1 << 32)) or (e[1] == 'BitAnd' and const_val(e[3]) in (0xffff, 0xffffffff))):
            e = peel(e[2], casts=True)      # the reduction that `as u16` / `as u32` performs anyway, spelled out
        else:
            break
    if not is_call(e, r'(\[T\]>|Vec::<[^>]*>)::len$'):
        return False
    # len of the object's bytes: packet(&obj), possibly through to_vec / deref / a reference
    return obj_of(e[2][0]) == obj and obj is not None and any(is_call(x, r'Packet>?::packet$') for x in walk(e[2][0]))


def alloc_is_min_plus_len(e, obj, cls):
    """from_elem(0, minimum_packet_size::<cls> + len(packet(&obj)))"""
    e = peel(e, unwraps=False)
    if not (is_call(e, r'vec::from_elem$') and const_val(e[2][0]) == 0):
        return False
    n = peel(e[2][1], casts=True)
    if isinstance(n, tuple) and n[0] == 'field' and n[2] == '0':
        n = n[1]
    if not (isinstance(n, tuple) and n[0] == 'bin' and n[1] in ('AddWithOverflow', 'Add')):
        return False
    a, b = peel(n[2]), n[3]
    if not (is_call(a, r'(Mutable)?%sPacket::<.a>::minimum_packet_size$' % cls)):
        a, b = peel(n[3]), n[2]
        if not (is_call(a, r'(Mutable)?%sPacket::<.a>::minimum_packet_size$' % cls)):
            return False
    return len_of_obj(b, obj)


def run(ctx):
    F = ctx.facts()
    rep = ctx.rep
    rep.not_decided += ['the checksum arithmetic itself (pnet)', 'truncation by `as u16` for replies above 64 KiB (frames are <= 4096 bytes; replies are bounded by the templates)',
                        'byte offsets of pnet setters (library: part of the trusted base)']
    v4, v6, l2 = F.fn('layer_3::ipv4::repl'), F.fn('layer_3::ipv6::repl'), F.fn('layer_2::reply')
    rep.saw(v4, v6, l2)

    r1 = rep.rule('C04-R1', 'checksum last: each set_checksum is computed over the object it is stored in, dominates the copy of that object into the enclosing payload, and no later setter touches the object (except a re-write of UDP length with the identical value)', floor=7)
    r3 = rep.rule('C04-R3', 'pseudo-header = header: the two addresses given to the TCP/UDP/ICMPv6 checksum are exactly the values written as source and destination of the reply', floor=5)
    r6 = rep.rule('C04-R6', 'a UDP checksum over IPv6 is never transmitted as zero: a zero result is replaced by 0xffff', floor=1)
    nsites = 0
    for f in (v4, v6, l2):
        for bi, t in f.calls(r"::Mutable\w+Packet::<'a>::set_checksum$"):
            nsites += 1
            obj = obj_of(f.arg(bi, 0))
            cls = re.search(r'::Mutable(\w+)Packet', t['callee']).group(1)
            key = '%s:%s' % (f.id, cls)
            val = f.objview(f.arg(bi, 1), bi)
            cks = [c for c in walk(val) if isinstance(c, tuple) and c[0] == 'call' and re.search(r'checksum$', c[1])]
            ok = obj is not None and len(cks) >= 1 and all(obj_of(c[2][0]) == obj for c in cks)
            rep.check(r1, ok, key + ':over-self', 'set_checksum(%s) on object _%s' % (short(val)[:120], obj), f.loc(bi))
            if obj is None:
                continue
            # (a) dominates the copy into the outer payload
            copies = [b for b, tt in f.calls(r"::Mutable\w+Packet::<'a>::set_payload$") if obj_of(f.objview(f.arg(b, 1), b)) == obj]
            off = f.must_pass_blocks([bi], copies) if hasattr(f, 'must_pass_blocks') else [c for c in copies if c in f.reachable(0, removed_blocks=[bi])]
            rep.check(r1, len(copies) == 1 and not off, key + ':before-copy', 'object copied into the enclosing packet at %s; reachable without its checksum: %s' % ([f.loc(c) for c in copies], bool(off)), f.loc(bi))
            # (b) no later setter
            later = set()
            for s in f.succ[bi]:
                later |= f.reachable(s)
            late = [(b, n) for b, n in setters_on(f, obj) if b in later]
            bad = []
            for b, n in late:
                if n == 'set_length' and cls == 'Udp' and len_of_obj(f.arg(b, 1), obj):
                    continue
                bad.append('%s@%s' % (n, f.loc(b)))
            rep.check(r1, not bad, key + ':no-later-setter', 'setters on the object after its checksum: %s (identical-value UDP length rewrites tolerated: %d)' % (bad, len(late) - len(bad)), f.loc(bi))
            # R3 pseudo header
            if cls in ('Tcp', 'Udp', 'Icmpv6') and f is not l2:
                c = cks[0]
                a1, a2 = peel(c[2][1], unwraps=False), peel(c[2][2], unwraps=False)
                # the header setters this reply runs through (a tail shared by the arms, or one copy of it per arm)
                after = f.reachable(bi)
                ss = [b for b, tt in f.calls(r"::MutableIpv[46]Packet::<'a>::set_source$") if b in after]
                sd = [b for b, tt in f.calls(r"::MutableIpv[46]Packet::<'a>::set_destination$") if b in after]
                if len(ss) == 1 and len(sd) == 1:
                    def via(sb):
                        # value the setter receives along the paths that run through this checksum site
                        op = f.blocks[sb]['term']['args'][1]
                        pt = (sb, len(f.blocks[sb]['stmts']))
                        if op['k'] == 'const':
                            return f.operand(op, pt)
                        saved = f._prov_cache
                        v = f.read_via(f.lv(op['place'], pt), pt, bi)
                        anc_desc = None
                        f.keep_objects = re.compile(r'^pnet::packet::[\w:]*Mutable\w+Packet<')
                        try:
                            # resolve refs under the same path restriction
                            anc = {bi}
                            work = [bi]
                            while work:
                                b_ = work.pop()
                                for p_ in f.pred[b_]:
                                    if p_ not in anc:
                                        anc.add(p_)
                                        work.append(p_)
                            f._prov_cache, f._allowed = {}, anc | f.reachable(bi)
                            return f._through(v, pt, 0)
                        finally:
                            f.keep_objects = None
                            f._prov_cache, f._allowed = saved, None
                    vs, vd = peel(via(ss[0]), unwraps=False), peel(via(sd[0]), unwraps=False)
                    a1 = peel(f.objview(a1, bi), unwraps=False)
                    a2 = peel(f.objview(a2, bi), unwraps=False)
                    if cls == 'Icmpv6':
                        ok = {a1, a2} == {vs, vd}          # the one's-complement sum is symmetric in the two addresses
                    else:
                        ok = (a1, a2) == (vs, vd)
                    rep.check(r3, ok, key + ':pseudo-header', 'checksum over (%s, %s); header gets source %s, destination %s' % (short(a1)[:60], short(a2)[:60], short(vs)[:60], short(vd)[:60]), f.loc(bi))
                else:
                    rep.bad(r3, key + ':pseudo-header', 'cannot find the unique set_source/set_destination of the IP header', f.loc(bi))
            # R6
            if cls == 'Udp' and f is v6:
                al = palts(val, unwraps=False)
                consts = [a for a in al if const_val(a) == 0xffff]
                calls_ = [a for a in al if is_call(a, r'udp::ipv6_checksum$')]
                ok = len(consts) == 1 and len(calls_) == 1 and len(al) == 2
                det = 'value stored: %s' % short(val)[:120]
                if ok:
                    # the call result reaches set_checksum only on the != 0 edge
                    ce = calls_[0]
                    def same(a):
                        a = peel(a, unwraps=False)
                        return isinstance(a, tuple) and a[0] == 'call' and a[1] == ce[1] and a[3] is not None and a[3] == ce[3]
                    z = eq_edges(f, lambda a, b: same(a) and const_val(b) == 0)
                    nz = ne_edges(f, lambda a, b: same(a) and const_val(b) == 0)
                    ok = bool(z) and bool(nz)
                    det += '; zero test present: %s' % ok
                    if ok:
                        # on the zero edge the stored value must be the constant: the assignment of 0xffff is dominated by a zero edge
                        dom = f.dominators()
                        okz = False
                        for bb, blk in enumerate(f.blocks):
                            for st in blk['stmts']:
                                if st['rv']['k'] == 'use' and st['rv']['a'].get('val') == 0xffff and any(s in dom.get(bb, ()) and len(f.pred[s]) == 1 for (_, s) in z):
                                    okz = True
                        ok = okz
                        det += '; 0xffff assigned under the ==0 edge: %s' % okz
                rep.check(r6, ok, key + ':zero-substitution', det, f.loc(bi))
    rep.check(r1, nsites == 7, 'checksum-sites', '%d set_checksum sites in L2/L3 (IPv4 header, ICMP, ICMPv6, TCP x2, UDP x2)' % nsites)

    r2 = rep.rule('C04-R2', 'length fields describe the buffers actually built: IPv4 total length and IPv6 payload length are computed from the length of the very L4 object copied in, the buffer is allocated as header size + that length, IHL/data-offset constants match header-only allocations, UDP length = length of the UDP packet', floor=12)
    for f, outer_cls, lenset in ((v4, 'Ipv4', 'set_total_length'), (v6, 'Ipv6', 'set_payload_length')):
        sites = f.calls(r"::MutableIp\w+Packet::<'a>::%s$" % lenset)
        rep.check(r2, len(sites) == 3, f.id + ':' + lenset + '#', '%d sites' % len(sites))
        for bi, t in sites:
            outer = obj_of(f.arg(bi, 0))
            val = f.objview(f.arg(bi, 1), bi)
            # which L4 object?
            objs = {obj_of(c[2][0]) for c in walk(val) if isinstance(c, tuple) and c[0] == 'call' and re.search(r'Packet>?::packet$', c[1])}
            objs.discard(None)
            if len(objs) != 1:
                rep.bad(r2, '%s:%s@%s' % (f.id, lenset, f.loc(bi)), 'length value %s does not derive from exactly one packet object' % short(val)[:100], f.loc(bi))
                continue
            o = objs.pop()
            l4 = re.search(r'Mutable(\w+)Packet', f.locals[o]['ty']).group(1)
            key = '%s:%s:%s' % (f.id, lenset, l4)
            if outer_cls == 'Ipv4':
                v = peel(val, casts=True)
                if isinstance(v, tuple) and v[0] == 'field' and v[2] == '0':
                    v = v[1]
                ok = isinstance(v, tuple) and v[0] == 'bin' and v[1] in ('AddWithOverflow', 'Add') and \
                    is_call(peel(v[2]), r'(Mutable)?Ipv4Packet::<.a>::minimum_packet_size$') and len_of_obj(v[3], o)
            else:
                ok = len_of_obj(val, o)
            rep.check(r2, ok, key, '%s <- %s' % (lenset, short(val)[:120]), f.loc(bi))
            # allocation of the outer buffer and the copy use the same object
            ow = [b for b, tt in f.calls(r"::MutableIp\w+Packet::<'a>::owned$") if b in f.dominators().get(bi, ())]
            okall = bool(ow) and alloc_is_min_plus_len(f.objview(f.arg(ow[-1], 0), ow[-1]), o, outer_cls)
            rep.check(r2, okall, key + ':alloc', 'buffer = %s' % (short(f.objview(f.arg(ow[-1], 0), ow[-1]))[:120] if ow else None), f.loc(ow[-1]) if ow else f.loc(bi))
            cp = [b for b, tt in f.calls(r"::MutableIp\w+Packet::<'a>::set_payload$") if obj_of(f.objview(f.arg(b, 1), b)) == o]
            rep.check(r2, len(cp) == 1, key + ':copy', 'payload copied from the same object: %d site(s)' % len(cp), f.loc(cp[0]) if cp else f.loc(bi))
    # ethernet allocation
    for bi, t in l2.calls(r"::MutableEthernetPacket::<'a>::set_payload$"):
        o = obj_of(l2.objview(l2.arg(bi, 1), bi))
        ow = [b for b, tt in l2.calls(r"::MutableEthernetPacket::<'a>::owned$") if b in l2.dominators().get(bi, ())]
        ok = o is not None and bool(ow) and alloc_is_min_plus_len(l2.objview(l2.arg(ow[-1], 0), ow[-1]), o, 'Ethernet')
        rep.check(r2, ok, 'layer_2::reply:alloc:%s' % (re.search(r'Mutable(\w+)Packet', l2.locals[o]['ty']).group(1) if o else '?'), 'frame buffer = header + length of the object copied in: %s' % ok, l2.loc(bi))
    # IHL
    hl = v4.calls(r"set_header_length$")
    rep.check(r2, len(hl) == 3 and all(const_val(v4.arg(b, 1)) == 5 for b, _ in hl), 'ipv4:header_length', 'set_header_length constants: %s (header allocated as Ipv4Packet::minimum_packet_size = 20 bytes)' % [const_val(v4.arg(b, 1)) for b, _ in hl])
    # UDP length
    udp = F.fn('layer_4::udp::repl')
    rep.saw(udp)
    sl = udp.calls(r"MutableUdpPacket::<'a>::set_length$")
    ok = len(sl) == 1
    if ok:
        o = obj_of(udp.arg(sl[0][0], 0))
        ok = len_of_obj(udp.arg(sl[0][0], 1), o)
        sp = some_points(udp)
        reach = udp.reachable(0, removed_blocks=[sl[0][0]])
        ok = ok and not [b for b in sp if b in reach]
    rep.check(r2, ok, 'udp::repl:length', 'UDP length <- len(packet(self)) on every path to a reply: %s' % ok, udp.loc(sl[0][0]) if sl else '')
    ow = udp.calls(r"MutableUdpPacket::<'a>::owned$")
    v = peel(udp.objview(udp.arg(ow[0][0], 0), ow[0][0]), unwraps=False) if len(ow) == 1 else None
    # header zeros, then the application reply: [hdr, repl].concat(), or a zeroed Vec that the reply is appended to (buf_segments_at)
    segs_ = buf_segments_at(udp, ow[0][0], 0) if len(ow) == 1 else None
    ok = v is not None and segs_ is not None and len(segs_) == 2 and segs_[0][0] == 'zeros' and is_call(segs_[0][1], r'UdpPacket::<.a>::minimum_packet_size$') and \
        segs_[1][0] == 'data' and is_call(peel(segs_[1][1]), r'^proto::repl$')
    rep.check(r2, ok, 'udp::repl:buffer', 'UDP buffer = 8-byte header ++ application reply: %s' % (short(v)[:120] if v else None), udp.loc(ow[0][0]) if ow else '')
    tcp = F.fn('layer_4::tcp::repl')
    rep.saw(tcp)
    do = tcp.calls(r"set_data_offset$")
    rep.check(r2, bool(do) and all(const_val(tcp.arg(b_, 1)) == 5 for b_, _ in do), 'tcp::repl:data_offset', 'data offset constants %s; every TCP buffer starts with TcpPacket::minimum_packet_size (20) header bytes (C06-R2/C07-R2)' % [const_val(tcp.arg(b, 1)) for b, _ in do])

    r4 = rep.rule('C04-R4', 'fixed header constants: TTL 64, DontFragment; IPv6 hop limit 255 exactly on Neighbor Advertisements and otherwise 64 whenever still zero; TCP window 65535', floor=5)

    def const_site(f, name, want, key):
        s = f.calls(r"::%s$" % name)
        vals = [const_val(f.arg(b, 1)) for b, _ in s]
        rep.check(r4, bool(vals) and all(v_ == want for v_ in vals), key, '%s constants %s (required %s at every site)' % (name, vals, want), f.loc(s[0][0]) if s else '')
        return s
    # header fields nobody writes (identification, fragment offset, urgent pointer, reserved bits, traffic class ...) are zero
    # because every reply buffer starts as zeros: each vec![c; n] in the layer functions is filled with 0
    for fid_ in ['layer_2::reply', 'layer_2::arp::repl', 'layer_3::ipv4::repl', 'layer_3::ipv6::repl', 'layer_4::icmpv4::repl', 'layer_4::icmpv6::repl',
                 'layer_4::icmpv6::nd_ns_repl', 'layer_4::tcp::repl', 'layer_4::udp::repl']:
        g_ = F.fn(fid_)
        rep.saw(g_)
        fills = [(b_, const_val(g_.arg(b_, 0))) for b_, _ in g_.calls(r'vec::from_elem$')]
        if fills:
            rep.check(r4, all(c_ == 0 for _, c_ in fills), 'zero-filled:' + fid_, 'reply buffers are allocated as zeros: fill values %s' % [c_ for _, c_ in fills], g_.loc(fills[0][0]))
    const_site(v4, 'set_ttl', 64, 'ipv4:ttl')
    const_site(v4, 'set_flags', 2, 'ipv4:dont-fragment')
    const_site(tcp, 'set_window', 65535, 'tcp:window')
    # fragment offset / flags never otherwise written; every path to a reply passes them
    for f, names in ((v4, ['set_ttl', 'set_flags', 'set_version', 'set_source', 'set_destination', 'set_total_length', 'set_header_length', 'set_next_level_protocol', 'set_payload']),
                     (v6, ['set_version', 'set_source', 'set_destination', 'set_payload_length', 'set_next_header', 'set_payload']),
                     (tcp, ['set_source', 'set_destination', 'set_flags', 'set_sequence', 'set_acknowledgement', 'set_data_offset', 'set_window']),
                     (udp, ['set_source', 'set_destination', 'set_length']),
                     (l2, ['set_source', 'set_destination', 'set_ethertype', 'set_payload'])):
        r5 = rep.rule('C04-R5', 'every header field the layer is responsible for is written on every path to a reply', floor=25)
        sp = some_points(f)
        for n in names:
            blocks = [b for b, t in f.calls(r"::Mutable\w+Packet::<'a>::%s$" % n) if 'Mutable' + {'layer_3::ipv4::repl': 'Ipv4', 'layer_3::ipv6::repl': 'Ipv6', 'layer_4::tcp::repl': 'Tcp', 'layer_4::udp::repl': 'Udp', 'layer_2::reply': 'Ethernet'}[f.id] in t['callee']]
            reach = f.reachable(0, removed_blocks=blocks)
            miss = [b for b in sp if b in reach]
            rep.check(r5, bool(blocks) and not miss, '%s:%s' % (f.id, n), 'reply reachable without %s: %s' % (n, bool(miss)), f.loc(blocks[0]) if blocks else '')
    # hop limit
    hs = v6.calls(r"set_hop_limit$")
    vals = sorted((const_val(v6.arg(b, 1)) for b, _ in hs), key=lambda x: -1 if x is None else x)
    ok = vals == [64, 255]
    det = 'set_hop_limit constants %s' % vals
    na = []
    if ok:
        b255 = [b for b, _ in hs if const_val(v6.arg(b, 1)) == 255][0]
        b64 = [b for b, _ in hs if const_val(v6.arg(b, 1)) == 64][0]
        na = value_edges(v6, lambda k: is_call(peel(k), r'get_icmpv6_type$'), 136)
        ok = bool(na) and not v6.must_pass(na, [b255])
        # converse: the NA edge leads straight to 255
        ok = ok and all(b255 in v6.reachable(s) and b255 in v6.dominators() and True for (_, s) in na)
        for (_, s) in na:
            r = v6.reachable(s, removed_blocks=[b255])
            if any(x in r for x in some_points(v6)):
                ok = False
                det += '; a Neighbor Advertisement can leave without hop limit 255'
        z = value_edges(v6, lambda k: is_call(peel(k), r'get_hop_limit$'), 0)
        ok = ok and bool(z) and not v6.must_pass(z, [b64])
        # every path to a reply passes the ==0 test
        test_blocks = sorted({b for (b, _) in z})
        r = v6.reachable(0, removed_blocks=test_blocks)
        if any(x in r for x in some_points(v6)):
            ok = False
            det += '; a reply can leave without the hop-limit-is-zero test'
        det += '; 255 only and always on the NeighborAdvert type edge, 64 under get_hop_limit()==0, test on every path: %s' % ok
    rep.check(r4, ok, 'ipv6:hop-limit', det, v6.loc(hs[0][0]) if hs else '')
    # the type tested is that of the ICMPv6 object being sent
    for bi in range(v6.n):
        se = v6.switch_edges(bi)
        if not se or not any(b_ == bi for (b_, _) in na):
            continue
        sites = [cb for cb, _ in v6.calls(r'get_icmpv6_type$') if any(x == v6.call_val(cb) for x in walk(se[0]))]
        if True:
            o = obj_of(v6.objview(v6.arg(sites[0], 0), sites[0])) if len(sites) == 1 else None
            cp = [b for b, tt in v6.calls(r"::MutableIpv6Packet::<'a>::set_payload$") if obj_of(v6.objview(v6.arg(b, 1), b)) == o]
            rep.check(r4, o is not None and len(cp) == 1, 'ipv6:hop-limit-object', 'type tested on the ICMPv6 object that is sent: %s' % (o is not None and len(cp) == 1), v6.loc(bi))
    hand_over_sound(ctx, 'C04')


