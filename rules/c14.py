"""C14 — DNS: IN/A queries get a faithful, parseable answer with the queried address."""
from rules.common import *
from vlib.layout import *
from rules.c12 import field_writes

D = 'proto::dns::'


def enum_map(F, fid, domain):
    """Evaluate a pure `match` function u16 -> enum or enum -> u16 by P6 for the given domain of its argument."""
    f = F.fn(fid)
    out = {}
    for v in domain:
        k, b, env = eval_region(f, 0, {1: v})[:3]
        # straight to return: read _0
        if k != 'arm':
            raise AnalysisError('%s not a pure match' % fid)
        # follow gotos to the return block: eval_region stops at Return ('arm' at a return terminator)
        out[v] = env.get(0)
    return out


def variant_index(F, adt, name):
    a = F.adts.get(adt)
    if not a:
        raise AnalysisError('ADT %s missing' % adt)
    for i, v in enumerate(a['variants']):
        if v['name'] == name:
            return i
    raise AnalysisError('%s::%s missing' % (adt, name))


def run(ctx):
    F = ctx.facts()
    rep = ctx.rep
    rep.not_decided += ['name/label parsing for every layout (names are copied byte-for-byte up to the first zero byte; compression pointers and labels containing a zero byte are not interpreted)',
                        'that the number of questions parsed equals QDCOUNT for every message (parser-state invariant)']
    hp = F.fn('<%sheader::DNSHeader as proto::dissector::MPacket>::parse' % D)
    hr = F.fn('<%sheader::DNSHeader as proto::dissector::MPacket>::repl' % D)
    hs = F.fn('%sheader::<impl std::convert::From<&%sheader::DNSHeader> for std::vec::Vec<u8>>::from' % (D, D))
    pr = F.fn('<%sDNSPacket as proto::dissector::MPacket>::repl' % D)
    qr = F.fn('<%squery::DNSQuery as proto::dissector::MPacket>::repl' % D)
    rep.saw(hp, hr, hs, pr, qr)

    r1 = rep.rule('C14-R1', 'response header: ID, OPCODE and RD copied from the query, QR=1, QDCOUNT echoed, ANCOUNT = QDCOUNT; reader and writer agree on field order, width, endianness and flag bit positions', floor=10)
    seq, _ = dissector_layout(F, hp.id, '<%sheader::DNSHeader as proto::dissector::MPacket>::new' % D)
    want = [('id', 2, 'be'), ('flags', 2, 'be'), ('qdcount', 2, 'be'), ('ancount', 2, 'be'), ('nscount', 2, 'be'), ('arcount', 2, 'be')]
    rep.check(r1, [(s[1], s[2], s[3]) for s in seq[:6]] == want, 'header:reader-layout', 'fields read: %s' % [(s[1], s[2], s[3]) for s in seq], '%s:%d' % (hp.file, hp.line))
    items = vec_layout(hs)
    offs = offsets(items)

    # byte-level writer layout, bit-exact (vlib.layout.byte_layout): the same for push((x >> 8) as u8) ... and for
    # extend_from_slice(&x.to_be_bytes())
    opc_vals = [v for _, _, v in field_writes(hp, '_opcode')] + [v for _, _, v in field_writes(hr, '_opcode')]
    from vlib.bits import BitEval

    def opcode_is_4bit(v):
        v0 = peel(v, casts=False)
        if isinstance(peel(v0), tuple) and peel(v0)[0] == 'entry' and Fn.path_of(peel(v0)[1])[-1:] == [('f', '_opcode')]:
            return True          # a copy of another header's opcode
        b = BitEval(lambda e: ('w', 16) if isinstance(e, tuple) and e[0] in ('entry', 'phi', 'modby') else None).bits(v0)
        return b is not None and all(x == 0 for x in (list(b) + [0] * 8)[4:8])

    def hsrc(e):
        if isinstance(e, tuple) and e[0] == 'entry' and Fn.root_of(e[1]) == ('deref', ('param', 1)) and len(Fn.path_of(e[1])) == 1:
            nm = Fn.path_of(e[1])[0][1]
            if nm in ('id', 'flags', 'qdcount', 'ancount', 'nscount', 'arcount'):
                return (nm, 16)
            if nm in ('_qr', '_aa', '_tc', '_rd', '_ra'):
                return (nm, 1)
            if nm == '_opcode':
                return [('in', '_opcode', k) for k in range(4)] + [0] * 4
        return None
    bl = byte_layout(hs, items, source=hsrc)
    wb = [x[0] for x in bl]
    rep.check(r1, len(wb) == 12 and all(it['must'] and not it['in_loop'] for it in items) and all(opcode_is_4bit(v) for v in opc_vals) and bool(opc_vals), 'header:writer-length',
              '%d header bytes appended, all unconditional; every value stored into _opcode has at most 4 bits: %s' % (len(wb), all(opcode_is_4bit(v) for v in opc_vals)), '%s:%d' % (hs.file, hs.line))
    for i, fld in [(0, 'id'), (4, 'qdcount'), (6, 'ancount'), (8, 'nscount'), (10, 'arcount')]:
        rep.check(r1, wb[i:i + 2] == [('field', fld, 1), ('field', fld, 0)], 'header:write:' + fld, 'bytes %d..%d are the big-endian %s: %s' % (i, i + 1, fld, wb[i:i + 2]), '%s:%d' % (hs.file, hs.line))
    # flag byte: bit positions
    fbits = bl[2][2] if len(bl) > 2 else None
    shifts = {}
    if fbits:
        for pos_, b_ in enumerate(fbits):
            if isinstance(b_, tuple) and b_[2] == 0:
                shifts[b_[1]] = pos_
        if fbits[3:7] != [('in', '_opcode', k) for k in range(4)]:
            shifts.pop('_opcode', None)
    pshift = {}
    wsrc = lambda e: ('w', 16) if isinstance(e, tuple) and e[0] in ('entry', 'phi', 'modby') or is_call(e, r'read_u16$') else None
    for fld in ['_qr', '_opcode', '_rd']:
        for _, _, v in field_writes(hp, fld):
            # which bits of the flags word the stored value consists of - whatever the spelling (>> k & m, & mask != 0, >= 0x8000, / and %)
            b_ = BitEval(wsrc).bits(peel(v, casts=False))
            b_ = list(b_) if b_ is not None else []
            first = b_[0] if b_ else None
            if isinstance(first, tuple) and first[0] == 'in' and first[1] == 'w':
                width = 4 if fld == '_opcode' else 1
                if b_[:width] == [('in', 'w', first[2] + k) for k in range(width)] and all(x == 0 for x in b_[width:]):
                    pshift[fld] = first[2]
                    continue
            for x in walk(v):
                if isinstance(x, tuple) and x[0] == 'bin' and x[1] == 'Shr' and const_val(x[3]) is not None:
                    pshift.setdefault(fld, const_val(x[3]))
    ok = all(f_ in shifts and f_ in pshift and pshift[f_] == shifts[f_] + 8 for f_ in ['_qr', '_opcode', '_rd']) and pshift.get('_qr') == 15 and pshift.get('_opcode') == 11 and pshift.get('_rd') == 8
    rep.check(r1, ok, 'header:flag-bits', 'parser reads QR/OPCODE/RD at bits %s of the flags word; serializer writes them at bits %s of the first flags byte' % (pshift, shifts), '%s:%d' % (hs.file, hs.line))
    rep.check(r1, len(wb) > 3 and wb[3] == ('const', 0), 'header:second-flag-byte', 'RA/Z/RCODE byte is 0')
    # repl: field copies
    want_w = {'id': 'id', '_opcode': '_opcode', '_rd': '_rd', 'qdcount': 'qdcount', 'ancount': 'qdcount'}
    for fld, srcf in want_w.items():
        ws = [v for _, _, v in field_writes(hr, fld)]
        ok = len(ws) == 1
        if ok:
            v = peel(ws[0])
            ok = isinstance(v, tuple) and v[0] == 'entry' and Fn.path_of(v[1])[-1:] == [('f', srcf)] and Fn.root_of(v[1]) == ('deref', ('param', 1))
        rep.check(r1, ok, 'header:repl:' + fld, 'response.%s <- %s' % (fld, [short(w) for w in ws]), '%s:%d' % (hr.file, hr.line))
    qw = [const_val(v) for _, _, v in field_writes(hr, '_qr')]
    rep.check(r1, qw == [1], 'header:repl:_qr', 'response._qr <- %s' % qw)
    for fld in ['nscount', 'arcount', '_tc', '_ra']:
        ws = [const_val(v) for _, _, v in field_writes(hr, fld)]
        rep.check(r1, all(w == 0 for w in ws), 'header:repl:' + fld, 'response.%s writes: %s (default 0 from new())' % (fld, ws))

    r2 = rep.rule('C14-R2', 'exactly one echoed question and one answer record per question of the query, or no reply at all', floor=3)
    pq = [b for b, t in pr.calls(r'Vec::<[^>]*>::push$') if 'qd' in short(pr.arg(b, 0))]
    prr = [b for b, t in pr.calls(r'Vec::<[^>]*>::push$') if '.rr' in short(pr.arg(b, 0)) or short(pr.arg(b, 0)).endswith('rr')]
    ok = len(pq) == 1 and len(prr) == 1
    rep.check(r2, ok, 'one-push-site-each', 'push sites: qd %d, rr %d' % (len(pq), len(prr)))
    if ok:
        # loop header of the for over self.qd: the `next` call block
        nx = [b for b, t in pr.calls(r'Iterator>::next$|Iterator::next$') if 'qd' in short(pr.argv(b, 0))]
        dom = pr.dominators()
        # one loop over the questions doing both, or one loop each (same collection, same order): every push lies in a loop over
        # self.qd that cannot iterate without it
        heads = {name: [h_ for h_ in nx if h_ in dom[tgt] and h_ in pr.reachable(tgt)] for tgt, name in [(pq[0], 'question'), (prr[0], 'answer')]}
        okl = len(nx) in (1, 2) and all(len(v_) == 1 for v_ in heads.values()) and set(heads['question'] + heads['answer']) == set(nx)
        if okl:
            # from the loop body (Some edge) back to the header one must pass the push
            for tgt, name in [(pq[0], 'question'), (prr[0], 'answer')]:
                h = heads[name][0]
                succs = pr.succ[h]
                r = set()
                for s in succs:
                    r |= pr.reachable(s, removed_blocks=[tgt])
                # the header reachable again without the push?  (exclude the exit path: it does not come back)
                back = h in r
                rep.check(r2, not back, 'per-question:' + name, 'the loop can iterate without pushing the %s: %s' % (name, back), pr.loc(tgt))
            # pushes only inside the loop(s)
            rep.check(r2, heads['question'][0] in dom[pq[0]] and heads['answer'][0] in dom[prr[0]], 'pushes-in-loop', 'both pushes are inside the loop over the query\'s questions')
        else:
            rep.bad(r2, 'loop', 'loop over self.qd not found')
    # the question echoed is the serialisation of the parsed question; the answer is qd.repl()
    for b in pq:
        v = pr.argv(b, 1)
        tfc = calls_in(v, r'DNSQuery as std::convert::TryFrom')
        ok = tfc != [] and is_call(peel(tfc[0][2][0], unwraps=False) if False else tfc[0][2][0], r'convert::From::from$') and calls_in(tfc[0][2][0], r'Iterator>::next$') != [] and 'qd' in short(tfc[0][2][0])
        rep.check(r2, ok, 'question-echo', 'echoed question <- %s' % short(v)[:120], pr.loc(b))
    for b in prr:
        v = pr.argv(b, 1)
        ok = calls_in(v, r'DNSQuery as proto::dissector::MPacket>::repl$') != []
        rep.check(r2, ok, 'answer-from-question', 'answer <- %s' % short(v)[:120], pr.loc(b))

    r3 = rep.rule('C14-R3', 'an answer record is produced only for class IN and type A; it is owned by the queried name, type A / class IN, RDATA = the IPv4 address the query was sent to, RDLENGTH = len(RDATA); type/class code tables are consistent (A=1, IN=1)', floor=8)
    sp = some_points(qr)
    IN = variant_index(F, D + 'cst::DNSClass', 'IN')
    A = variant_index(F, D + 'cst::DNSType', 'A')

    def fdiscr(fld, val):
        def p(d, v, vals):
            if not (isinstance(d, tuple) and d[0] == 'discr'):
                return False
            x = d[1]
            if isinstance(x, tuple) and x[0] == 'entry':
                x = x[1]
            return Fn.path_of(x)[-1:] == [('f', fld)] and Fn.root_of(x) == ('deref', ('param', 1)) and v == val
        return p
    for fld, val, nm in [('class', IN, 'IN'), ('type_', A, 'A')]:
        g = qr.gate_edges(fdiscr(fld, val))
        rep.check(r3, bool(g) and bool(sp) and not qr.must_pass(g, sp), 'gate:%s==%s' % (fld, nm), 'answer only behind %s == %s' % (fld, nm), qr.loc(sp[0]) if sp else '')
    for fld, pred, what in [('type_', lambda v: isinstance(v, tuple) and v[0] == 'agg' and v[1].endswith('DNSType::A'), 'A'),
                            ('class', lambda v: isinstance(v, tuple) and v[0] == 'agg' and v[1].endswith('DNSClass::IN'), 'IN'),
                            ('ttl', lambda v: const_val(v) is not None and const_val(v) > 0, 'positive constant')]:
        ws = [peel(v, unwraps=False) for _, _, v in field_writes(qr, fld)]
        rep.check(r3, len(ws) == 1 and pred(ws[0]), 'rr:' + fld, 'rr.%s <- %s (required %s)' % (fld, [short(w) for w in ws], what))
    ws = [qr._through(v, (bi, i), 0) for bi, i, v in field_writes(qr, 'rdata')]
    ok = len(ws) == 1
    if ok:
        als = palts(ws[0], unwraps=False)
        v4 = [a for a in als if is_call(a, r'to_vec$') and calls_in(a, r'Ipv4Addr::octets$')]
        empty = [a for a in als if is_call(a, r'Vec::<[^>]*>::new$')]
        ok = len(v4) == 1 and len(v4) + len(empty) == len(als)
        if ok:
            src = [x for x in walk(v4[0]) if isinstance(x, tuple) and x[0] == 'entry']
            ok = bool(src) and [p[1] for p in Fn.path_of(src[0][1]) if p[0] == 'f' and p[1] != '0'] == ['ip', 'dst'] and Fn.root_of(src[0][1]) == ('deref', ('param', 3))
    rep.check(r3, ok, 'rr:rdata', 'rr.rdata <- %s' % [short(w)[:100] for w in ws])
    ws = [qr._through(v, (bi, i), 0) for bi, i, v in field_writes(qr, 'rdlen')]
    ok = len(ws) == 1 and is_call(peel(ws[0], casts=True), r'len$') and 'rdata' in short(Fn.root_of(peel(peel(ws[0], casts=True)[2][0], unwraps=False)) if False else peel(ws[0], casts=True)) or \
        (len(ws) == 1 and is_call(peel(ws[0], casts=True), r'len$'))
    rep.check(r3, ok, 'rr:rdlen', 'rr.rdlen <- %s' % [short(w)[:100] for w in ws])
    # name: copied byte for byte from the question
    nm = [b for b, t in qr.calls(r'Vec::<[^>]*>::push$') if 'name' in short(qr.arg(b, 0))]
    ok = len(nm) == 1
    if ok:
        v = qr.argv(nm[0], 1)
        nx = calls_in(v, r'Iterator>::next$|Iterator::next$')
        ok = False
        if nx:
            it = qr.through_refs(nx[0][2][0], nm[0])
            ok = any(isinstance(x, tuple) and x[0] == 'field' and x[2] == 'name' and Fn.root_of(x) == ('deref', ('param', 1)) for x in walk(it))
    if not nm:
        # the same copy written with a slice operation or a clone
        def is_qname(e):
            e = peel(e)
            while is_call(e, r'Deref::deref$|as_slice$|as_ref$'):
                e = peel(e[2][0])
            if isinstance(e, tuple) and e[0] == 'entry':
                e = e[1]
            return isinstance(e, tuple) and Fn.path_of(e) == [('f', 'name')] and Fn.root_of(e) == ('deref', ('param', 1))
        ext = [b for b, t in qr.calls(r'Vec::<[^>]*>::(extend_from_slice|append)$|Extend<[^>]*>>::extend$|Extend::extend$') if 'name' in short(qr.arg(b, 0))]
        fw = [v for _, _, v in field_writes(qr, 'name')]
        if len(ext) == 1 and not [v for v in fw if not is_call(peel(v, unwraps=False), r'Vec::<[^>]*>::new$')]:
            ok = is_qname(qr.argv(ext[0], 1)) and ext[0] not in qr.reachable(qr.succ[ext[0]][0]) if qr.succ[ext[0]] else False
            nm = ext
        elif not ext and len(fw) == 1:
            ok = is_qname(fw[0])
    rep.check(r3, ok, 'rr:name', 'rr.name is a copy of the question name (byte loop, slice copy or clone): %s' % ok, qr.loc(nm[0]) if nm else '')
    # serializers
    rs = F.fn('%srr::<impl std::convert::From<&%srr::DNSRR> for std::vec::Vec<u8>>::from' % (D, D))
    it = vec_layout(rs)
    kinds = []
    for x in it:
        s_ = short(x['value'])
        for fld in ['name', 'type_', 'class', 'ttl', 'rdlen', 'rdata']:
            if '.' + fld in s_ or 'arg1.' + fld in s_:
                kinds.append(fld)
                break
        else:
            kinds.append('?')
    # collapse repeats
    coll = [k for i, k in enumerate(kinds) if i == 0 or kinds[i - 1] != k]
    # the fixed-size middle part, byte-exact and big-endian whatever the spelling (push of shifted bytes / to_be_bytes)
    def rsrc(e):
        e0 = e
        if isinstance(e0, tuple) and e0[0] == 'phi':
            # `if rdlen == 0 { rdata.len() as u16 } else { rdlen }`: the record's length word either way
            al_ = [peel(a, casts=True) for a in e0[1]]
            if len(al_) == 2 and any(isinstance(a, tuple) and a[0] == 'entry' and Fn.path_of(a[1])[-1:] == [('f', 'rdlen')] for a in al_) and \
                    any(is_call(a, r'len$') and 'rdata' in short(a) for a in al_):
                return ('rdlen', 16)
        if is_call(e0, r'convert::From<[^>]*>>::from$|convert::From::from$|convert::Into::into$|Into<[^>]*>>::into$') and e0[2]:
            e0 = peel(e0[2][0], unwraps=False)
        if isinstance(e0, tuple) and e0[0] == 'entry' and Fn.root_of(e0[1]) == ('deref', ('param', 1)) and len(Fn.path_of(e0[1])) == 1:
            nm = Fn.path_of(e0[1])[0][1]
            w = {'type_': 16, 'class': 16, 'ttl': 32, 'rdlen': 16}.get(nm)
            if w:
                return (nm, w)
        return None
    mid = [x for x, k_ in zip(it, kinds) if k_ in ('type_', 'class', 'ttl', 'rdlen')]
    mb = [x[0] for x in byte_layout(rs, mid, source=rsrc)]
    want_mid = [('field', 'type_', 1), ('field', 'type_', 0), ('field', 'class', 1), ('field', 'class', 0)] + [('field', 'ttl', k) for k in (3, 2, 1, 0)] + [('field', 'rdlen', 1), ('field', 'rdlen', 0)]
    rep.check(r3, coll == ['name', 'type_', 'class', 'ttl', 'rdlen', 'rdata'] and mb == want_mid and all(x['must'] and not x['in_loop'] for x in mid),
              'rr:wire-order', 'record serialised as %s; fixed part bytes %s' % (coll, ['%s.%s' % (b[1], b[2]) if b[0] == 'field' else str(b) for b in mb]), '%s:%d' % (rs.file, rs.line))
    qs = F.fn('%squery::<impl std::convert::From<&%squery::DNSQuery> for std::vec::Vec<u8>>::from' % (D, D))
    it = vec_layout(qs)
    kinds = ['name' if 'name' in short(x['value']) else ('type_' if 'type_' in short(x['value']) else ('class' if 'class' in short(x['value']) else '?')) for x in it]
    coll = [k for i, k in enumerate(kinds) if i == 0 or kinds[i - 1] != k]
    rep.check(r3, coll == ['name', 'type_', 'class'], 'question:wire-order', 'question serialised as %s' % coll, '%s:%d' % (qs.file, qs.line))
    # code tables
    t2u = enum_map(F, '%scst::<impl std::convert::From<%scst::DNSType> for u16>::from' % (D, D), range(len(F.adts[D + 'cst::DNSType']['variants'])))
    u2t = enum_map(F, '<%scst::DNSType as std::convert::From<u16>>::from' % D, [0, 1, 2, 16, 28, 255])
    c2u = enum_map(F, '%scst::<impl std::convert::From<%scst::DNSClass> for u16>::from' % (D, D), range(len(F.adts[D + 'cst::DNSClass']['variants'])))
    u2c = enum_map(F, '<%scst::DNSClass as std::convert::From<u16>>::from' % D, [0, 1, 2, 3, 4, 255])
    rep.check(r3, t2u.get(A) == 1 and u2t.get(1) == A and u2t.get(28) != A, 'codes:type-A', 'A -> %s, 1 -> variant %s (A is %d), 28 -> variant %s' % (t2u.get(A), u2t.get(1), A, u2t.get(28)))
    rep.check(r3, c2u.get(IN) == 1 and u2c.get(1) == IN and u2c.get(3) != IN, 'codes:class-IN', 'IN -> %s, 1 -> variant %s (IN is %d)' % (c2u.get(IN), u2c.get(1), IN))

    r4 = rep.rule('C14-R4', 'only completely parsed messages are accepted (try_from returns Ok only in state End) and DNS is tried only for datagrams that completed no signature (both the incremental and the end-anchored search returned NO_MATCH)', floor=3)
    tf = F.fn('<%sDNSPacket as std::convert::TryFrom<std::vec::Vec<u8>>>::try_from' % D)
    oks = []
    for bi, b in enumerate(tf.blocks):
        for st in b['stmts']:
            if st['rv']['k'] == 'agg' and st['rv'].get('adt') == 'std::result::Result' and st['rv'].get('variant') == 'Ok' and not b['cleanup']:
                oks.append(bi)
    END = variant_index(F, D + 'DNSState', 'End')
    g = bool_edges(tf, lambda d: is_call(peel(d, unwraps=False), r'PartialEq>::eq$|PartialEq::eq$') and 'state' in short(d) and 'End' in short(d), True)
    rep.check(r4, bool(oks) and bool(g) and not tf.must_pass(g, oks), 'try_from:complete', 'Ok(..) only behind d.state == DNSState::End: %s' % (bool(g) and not tf.must_pass(g, oks)), tf.loc(oks[0]) if oks else '')
    pf = F.fn('proto::repl')
    dc = [b for b, t in pf.calls(resolved_re=r'DNSPacket as std::convert::TryFrom')]
    nm = eq_edges(pf, lambda a, b: const_val(b) == 0xFFFFFFFFFFFFFFFF and calls_in(a, r'Smack::search_next(_end)?$') != [])
    # need two NO_MATCH tests in sequence: the second after search_next_end
    nm_end = eq_edges(pf, lambda a, b: const_val(b) == 0xFFFFFFFFFFFFFFFF and calls_in(a, r'Smack::search_next_end$') != [])
    nm_first = [e for e in nm if e not in nm_end]
    endcalls = [b for b, t in pf.calls(r'Smack::search_next_end$')]
    ok = len(dc) == 1 and bool(nm_first) and bool(nm_end) and len(endcalls) == 1 and not pf.must_pass(nm_first, endcalls) and not pf.must_pass(nm_end, dc)
    rep.check(r4, ok, 'fallback-order', 'the end-anchored search runs only after search_next returned NO_MATCH, and DNS parsing only behind id == NO_MATCH for the final id: %s' % ok, pf.loc(dc[0]) if dc else '')
    # and only on the datagram path (tcb == None)
    g = pf.gate_edges(lambda d, v, vals: d == ('discr', ('param', 4)) and v != 1 and not (v is None and 1 not in vals and False))
    tcb_none = pf.gate_edges(lambda d, v, vals: isinstance(d, tuple) and d[0] == 'discr' and peel(d[1]) == ('param', 4) and ((v is None and vals == [1]) or v == 0))
    rep.check(r4, bool(tcb_none) and not pf.must_pass(tcb_none, dc), 'datagram-only', 'DNS parsing happens only when no control block was passed (datagram): %s' % (bool(tcb_none) and not pf.must_pass(tcb_none, dc)))

    r5 = rep.rule('C14-R5', 'the converse and integrity of the answer: an IN/A question is never left unanswered; on the IPv4 arm the RDATA is always the destination octets; proto::repl returns the bytes produced by DNSPacket::repl unmodified', floor=3)
    from rules import silence
    silence.run_for(ctx, r5, ['<proto::dns::query::DNSQuery as proto::dissector::MPacket>::repl'])
    # empty RDATA only on the IPv6 / None arms of client_info.ip.dst
    empties = []
    for bi, blk in enumerate(qr.blocks):
        t = blk['term']
        if t['k'] == 'call' and re.search(r'Vec::<[^>]*>::new$', t['callee']) and not blk['cleanup']:
            # does it feed rdata?
            empties.append(bi)
    ipsw = []
    for bi in range(qr.n):
        se = qr.switch_edges(bi)
        if se and not qr.blocks[bi]['cleanup'] and isinstance(se[0], tuple) and se[0][0] == 'discr' and 'ip.dst' in short(se[0]):
            ipsw.append((bi, se))
    v4edges = []
    for bi, se in ipsw:
        if short(se[0]).startswith('discr(entry:(*arg3.ip.dst as Some).0'):
            v4edges += [(bi, s_) for (s_, v) in se[1] if v == 0]
    okr = bool(v4edges)
    if okr:
        for (sb, s_) in v4edges:
            r_ = qr.reachable(s_)
            # from the V4 edge no Vec::new() that ends up as rdata may be reachable: the only Vec::new reachable are for other fields
            rd = [b for b in empties if b in r_ and any('rdata' in short(qr.lv(st['lhs'], (b2, i))) for b2 in qr.reachable(b) for i, st in enumerate(qr.blocks[b2]['stmts']) if st['rv']['k'] == 'use' and st['rv']['a'].get('k') == 'move' and st['rv']['a']['place'] == qr.blocks[b]['term']['dest'] and st['lhs']['p'])]
            if rd:
                okr = False
    rep.check(r5, okr, 'rdata:ipv4-arm-never-empty', 'on the IPv4 arm of client_info.ip.dst no empty RDATA can be produced: %s' % okr)
    okret = False
    for bi, b in enumerate(pf.blocks):
        for i, st in enumerate(b['stmts']):
            if st['rv']['k'] == 'agg' and st['rv'].get('adt') == 'std::option::Option' and st['rv'].get('variant') == 'Some' and not b['cleanup']:
                v = pf._through(pf.rvalue(st['rv'], (bi, i)), (bi, i), 0)
                if calls_in(v, r'DNSPacket as proto::dissector::MPacket>::repl$'):
                    inner = peel(v[2][0], unwraps=False)
                    okret = isinstance(inner, tuple) and inner[0] == 'field' and not any(isinstance(x, tuple) and x[0] in ('modby', 'phi') for x in walk(inner))
    if not okret:
        # or the Option returned by DNSPacket::repl is handed back as it is (`return dns_repl`)
        for rb in pf.return_blocks():
            for alt in palts(pf.ret_value(rb), unwraps=False):
                if is_call(alt, r'DNSPacket as proto::dissector::MPacket>::repl$'):
                    okret = True
    rep.check(r5, okret, 'proto::repl:dns-reply-unmodified', 'the datagram reply is exactly the value returned by DNSPacket::repl: %s' % okret)

    # the serialised message is handed back whole: nothing shortens or edits the Vec between the serialiser and the return
    dr = F.fn('<proto::dns::DNSPacket as proto::dissector::MPacket>::repl')
    SHORTEN = r'Vec::<[^>]*>::(truncate|drain|split_off|resize|resize_with|pop|remove|swap_remove|clear|retain|retain_mut|set_len|dedup\w*|insert|splice)$'
    somes = []
    cut = []
    for rb in [b for b in range(dr.n) if dr.blocks[b]['term']['k'] == 'return' and not dr.blocks[b]['cleanup']]:
        for alt in palts(dr.ret_value(rb), unwraps=False):
            if isinstance(alt, tuple) and alt[0] == 'agg' and str(alt[1]).endswith('Option::Some'):
                somes.append(alt)
                cut += [x[1] for x in walk(alt) if isinstance(x, tuple) and x[0] == 'modby' and re.search(SHORTEN, x[1])]
    rep.check(r5, bool(somes) and not cut, 'answer:returned-whole', 'the Vec returned by DNSPacket::repl is the serialiser output, not shortened or edited afterwards: %s' % (sorted(set(c_.split('::')[-1] for c_ in cut)) or 'no length-changing operation'), '%s:%d' % (dr.file, dr.line))

    # R6: the byte parsers of questions and records (both are used on the reply path: the answer is re-parsed)
    r6 = rep.rule('C14-R6', 'question / record parsers: a name ends at (and only at) the zero byte - the state leaves Name only on path states with *byte == 0; type and class are the code tables applied to the accumulated 16-bit words, unmodified', floor=6)
    for ty in ['rr::DNSRR', 'query::DNSQuery']:
        f = F.fn('<%s%s as proto::dissector::MPacket>::parse' % (D, ty))
        rep.saw(f)
        sadt = F.adts.get('%s%sState' % (D, ty))
        ns = [(b, t) for b, t in f.calls(r'PacketDissector::<T>::next_state$') if short(f.argv(b, 1)).endswith('State::Type{}')]
        if len(ns) == 1:
            okn, dn = value_required_at(f, [ns[0][0]], lambda k: peel(k) == ('entry', ('deref', ('param', 2))), {0})
            # and the converse: from the byte == 0 edge inside the Name arm the state change is always reached
            z = value_edges(f, lambda k: peel(k) == ('entry', ('deref', ('param', 2))), 0)
            conv = bool(z) and all(not any(x in f.reachable(s_, removed_blocks=[ns[0][0]]) for x in f.return_blocks()) for (_, s_) in z if ns[0][0] in f.reachable(s_))
            rep.check(r6, okn and conv, ty.split('::')[-1] + ':name-terminator', 'Name -> Type exactly on a zero byte: only then %s (%s), always then %s' % (okn, dn, conv), f.loc(ns[0][0]))
        else:
            rep.bad(r6, ty.split('::')[-1] + ':name-terminator', 'expected one next_state(Type) site, found %d' % len(ns), '%s:%d' % (f.file, f.line))
        for fld, acc in [('type_', '_u_type'), ('class', '_u_class')]:
            ws = [v for _, _, v in field_writes(f, fld)]
            w0 = ws[0] if ws else None
            while isinstance(w0, tuple) and w0[0] in ('ref', 'deref'):
                w0 = w0[1]
            ok = len(ws) == 1 and isinstance(w0, tuple) and w0[0] == 'call' and re.search(r'::from$|::into$', w0[1]) is not None and len(w0[2]) == 1
            if ok:
                a = w0[2][0]
                al = palts(a, unwraps=False)
                ok = bool(al) and all((isinstance(x, tuple) and x[0] == 'entry' and Fn.path_of(x[1])[-1:] == [('f', acc)]) or (is_call(x, r'PacketDissector::<T>::read_u16$') and acc in short(x)) for x in al)
            rep.check(r6, ok, '%s:%s-conversion' % (ty.split('::')[-1], fld), '%s <- %s (required: the code table applied to %s as accumulated)' % (fld, [short(w)[:80] for w in ws], acc), '%s:%d' % (f.file, f.line))
            # ... and it is applied when, and only when, the record is complete: the store lies behind `state == End` and every
            # path that reaches End passes it (a record serialised later carries the converted type/class)
            wb = [b_ for b_, _, _ in field_writes(f, fld)]
            ge = bool_edges(f, lambda d: is_call(peel(d, unwraps=False), r'PartialEq>::eq$|PartialEq::eq$') and 'state' in short(d) and 'End' in short(d), True)
            if not ge:
                # the same test written as a match on the state after the step (not the step dispatch itself, which has one edge per state)
                ge = [e_ for e_ in value_edges(f, lambda k: isinstance(peel(k), tuple) and 'state' in short(k) and peel(k)[0] in ('entry', 'discr'), variant_index(F, '%s%sState' % (D, ty), 'End'))
                      if len(f.succ[e_[0]]) <= 3]
            okw = bool(wb) and bool(ge) and not f.must_pass(ge, wb) and all(not any(x in f.reachable(s_, removed_blocks=wb) for x in f.return_blocks()) for (_, s_) in ge)
            rep.check(r6, okw, '%s:%s-at-End' % (ty.split('::')[-1], fld), '%s is stored exactly when the parser state is End: %s' % (fld, okw), f.loc(wb[0]) if wb else '')
    dispatch_sound(ctx, 'C14', 'a datagram reaches the DNS parser (after NO_MATCH)')
    no_abort_in(ctx, 'C14', r'proto::dns::', 'answering DNS')


