"""The converse of the gating rules: a responder may stay silent only for the reasons the statements give.
For every path state (fact simulation) on which a function returns None, one of the allowed reasons must have been
established on that path."""
from rules.common import *


def option_tag_sim(f, track):
    """fact_sim plus the Option tag (Some/None) of the value being returned. -> list of (block, tag, facts)"""
    tags_at = {}

    def tag_of_rv(rv, tags):
        if rv['k'] == 'agg' and rv.get('adt') in ('std::option::Option', 'std::result::Result'):
            return rv['variant']
        if rv['k'] == 'use' and rv['a']['k'] in ('copy', 'move') and not rv['a']['place']['p']:
            return tags.get(rv['a']['place']['l'])
        if rv['k'] == 'agg' and rv.get('agg') == 'tuple' and rv['ops'] and rv['ops'][0]['k'] in ('copy', 'move') and not rv['ops'][0]['place']['p']:
            return tags.get(rv['ops'][0]['place']['l'])
        return None
    # piggy-back on fact_sim by encoding tags as flags
    def wrap():
        init = frozenset()

        def on_stmt_flags(bi, i, stmt, flags):
            lhs = stmt['lhs']
            if lhs['p']:
                return flags
            tags = {k: v for (tk, k, v) in [x for x in flags if isinstance(x, tuple) and x[0] == 'tag']}
            tg = tag_of_rv(stmt['rv'], tags)
            flags = frozenset(x for x in flags if not (isinstance(x, tuple) and x[0] == 'tag' and x[1] == lhs['l']))
            if tg:
                flags = flags | {('tag', lhs['l'], tg)}
            return flags
        return on_stmt_flags
    on_stmt_flags = wrap()
    # run a custom simulate: reuse fact_sim internals through its hooks is awkward; do a small dedicated simulation
    from rules.common import edge_fact, consistent

    def on_stmt(bi, i, stmt, st):
        flags, facts = st
        flags = on_stmt_flags(bi, i, stmt, flags)
        return sim_on_stmt(f, bi, i, stmt, (flags, facts))

    def on_term(bi, t, st):
        flags, facts = st
        if t['k'] == 'call' and not t['dest']['p']:
            l = t['dest']['l']
            flags = frozenset(x for x in flags if not (isinstance(x, tuple) and x[0] == 'tag' and x[1] == l))
        return sim_on_term(f, bi, t, (flags, facts))

    def on_edge(bi, s, v, d, vals, st):
        flags, facts = st
        kind, x = sim_discr(f, bi, d, st)
        if kind == 'const':
            taken = v == x if v is not None else x not in vals
            return (flags, facts) if taken else None
        nf = set(facts)
        for ef in edge_fact(x, v, vals):
            if not stable_expr(ef[0], f.facts.fns) or not track(ef[0]):
                continue
            if not consistent(nf, ef):
                return None
            nf.add(ef)
        return (flags, frozenset(nf))
    states, exits = f.simulate((frozenset(), frozenset()), on_stmt=on_stmt, on_term=on_term, on_edge=on_edge, maxstates=20000)
    out = []
    for (bi, (flags, facts)) in exits:
        tg = [x[2] for x in flags if isinstance(x, tuple) and x[0] == 'tag' and x[1] == 0]
        out.append((bi, tg[0] if tg else '?', facts))
    return out


def fact_is(facts, keypred, rel, c):
    for (k, r_, c_) in facts:
        if r_ == rel and c_ == c and keypred(k):
            return True
    return False


def neq(facts, keypred, c):
    """facts establish key != c (directly, or key == other constant)"""
    for (k, r_, c_) in facts:
        if keypred(k) and ((r_ == '!=' and c_ == c) or (r_ == '==' and c_ != c)):
            return True
    return False


def falsy_call(facts, keypred):
    """a bool expression satisfying keypred is false on this path"""
    for (k, r_, c_) in facts:
        if keypred(k) and ((r_ == '==' and c_ == 0) or (r_ == '!=' and c_ == 1)):
            return True
    return False


def truthy_call(facts, keypred):
    for (k, r_, c_) in facts:
        if keypred(k) and ((r_ == '!=' and c_ == 0) or (r_ == '==' and c_ == 1)):
            return True
    return False


def getter_key(name):
    def p(k):
        k = peel(k, unwraps=False)
        return is_call(k, r"Packet::<'a>::%s$" % name) and peel(k[2][0]) == ('param', 1)
    return p


def discr_of_call(callee_rx):
    def p(k):
        return isinstance(k, tuple) and k[0] == 'discr' and is_call(peel(k[1], unwraps=False), callee_rx)
    return p


def contains_key(listname, inner_getter):
    def p(k):
        k = peel(k, unwraps=False)
        if not is_call(k, r'HashSet::<[^>]*>::contains$'):
            return False
        return listname in short(k[2][0]) and inner_getter in short(k[2][1])
    return p


def option_absent(facts, *subs):
    """an Option-typed place whose rendering contains one of `subs` is None on this path, in any of the idioms
       x == None, x.is_none(), !x.is_some(), match/if-let on the discriminant"""
    def on(k):
        return any(sb in short(k) for sb in subs)
    for (k, r_, c_) in facts:
        if not on(k):
            continue
        kk = peel(k, unwraps=False)
        true_ = (r_ == '!=' and c_ == 0) or (r_ == '==' and c_ == 1)
        false_ = (r_ == '==' and c_ == 0) or (r_ == '!=' and c_ == 1)
        if is_call(kk, r'PartialEq(<[^>]*>)?>?::eq$|::eq$') and 'None' in short(kk) and true_:
            return True
        if is_call(kk, r'PartialEq(<[^>]*>)?>?::ne$|::ne$') and 'None' in short(kk) and false_:
            return True
        if is_call(kk, r'Option::<[^>]*>::is_none$') and true_:
            return True
        if is_call(kk, r'Option::<[^>]*>::is_some$') and false_:
            return True
        if isinstance(kk, tuple) and kk[0] == 'discr' and any(short(peel(kk[1], unwraps=False)).endswith(sb) for sb in subs) and false_:
            return True
    return False


def check(ctx, rid, fid, reasons, what, silent='None', loud='Some'):
    """reasons: list of (label, predicate(facts)->bool).  Every None-returning (Err-returning with silent='Err')
    path state must satisfy one."""
    F = ctx.facts()
    rep = ctx.rep
    f = F.fn(fid)
    rep.saw(f)
    exits = option_tag_sim(f, lambda k: True)
    nones = [(bi, facts) for (bi, tg, facts) in exits if tg == silent]
    somes = [1 for (bi, tg, facts) in exits if tg == loud]
    unknown = [1 for (bi, tg, facts) in exits if tg == '?']
    used = collections.Counter()
    bad = []
    for (bi, facts) in nones:
        alts_ = helper_alternatives(F, facts)
        ok_all = True
        for a_ in alts_:
            hit = [lab for lab, pred in reasons if pred(a_)]
            if hit:
                used[hit[0]] += 1
            else:
                ok_all = False
        if not ok_all:
            bad.append(sorted((short(k)[:70], r_, c_) for (k, r_, c_) in facts if not (isinstance(k, tuple) and k[0] == 'local'))[:6])
    rep.check(rid, bool(somes) and not unknown and not bad, fid + ':silence-only-for-stated-reasons',
              '%s: %d path states return %s, reasons %s; unjustified: %d%s' % (what, len(nones), silent, dict(used), len(bad), (' e.g. ' + str(bad[0])) if bad else ''),
              '%s:%d' % (f.file, f.line))


# ---------------------------------------------------------------------------------------
# allowed reasons for silence, per function (from the property statements)
def _s(k):
    return short(k)


def field_key(sub):
    return lambda k: sub in _s(k)


def list_absent_or(fn):
    return fn


def family_mismatch(facts, a_sub, b_sub):
    """the address variants (discriminants of the Some payloads) of two Option<IpAddr> places differ on this path"""
    da, db = {}, {}
    for (k, r_, c_) in facts:
        if isinstance(k, tuple) and k[0] == 'discr' and '.0' in short(k) and ' as Some)' in short(k):
            tgt = da if a_sub in short(k) else db if b_sub in short(k) else None
            if tgt is not None:
                tgt.setdefault(r_, set()).add(c_)
    for va in da.get('==', ()):
        if va in db.get('!=', ()) or any(vb != va for vb in db.get('==', ())):
            return True
    for vb in db.get('==', ()):
        if vb in da.get('!=', ()):
            return True
    return False


def excluded_all(facts, sub, n):
    """an enum discriminant containing `sub` is excluded from all n variants: the path is infeasible"""
    ex = collections.defaultdict(set)
    for (k, r_, c_) in facts:
        if isinstance(k, tuple) and k[0] == 'discr' and sub in short(k) and r_ == '!=':
            ex[k].add(c_)
    return any(v >= set(range(n)) for v in ex.values())


REASONS = {
    'synackcookie::generate': ('C06: the cookie is computed for every flow with known endpoints', [
        ('an endpoint field is absent', lambda f: option_absent(f, 'arg1.ip.src', 'arg1.ip.dst', 'arg1.port.src', 'arg1.port.dst')),
        ('source and destination address families differ', lambda f: family_mismatch(f, 'arg1.ip.src', 'arg1.ip.dst')),
        ('infeasible (address neither V4 nor V6)', lambda f: excluded_all(f, 'arg1.ip.src', 2)),
    ]),
    'layer_2::arp::repl': ('C05: only ARP requests for a handled address are answered', [
        ('operation != request', lambda f: neq(f, getter_key('get_operation'), 1)),
        ('target address not handled', lambda f: falsy_call(f, contains_key('self_ip_list', 'get_target_proto_addr'))),
    ]),
    'layer_4::icmpv4::repl': ('C05: only code-0 echo requests are answered', [
        ('type != echo request', lambda f: neq(f, getter_key('get_icmp_type'), 8)),
        ('code != 0', lambda f: neq(f, getter_key('get_icmp_code'), 0)),
    ]),
    'layer_4::icmpv6::repl': ('C05: only code-0 NS for a handled target and code-0 echo requests are answered', [
        ('code != 0', lambda f: neq(f, getter_key('get_icmpv6_code'), 0)),
        ('type not in {135,128}', lambda f: neq(f, getter_key('get_icmpv6_type'), 135) and neq(f, getter_key('get_icmpv6_type'), 128)),
        ('truncated solicitation', lambda f: neq(f, discr_of_call(r"NeighborSolicitPacket::<'a>::new$"), 1)),
        ('solicited target not handled', lambda f: neq(f, discr_of_call(r'icmpv6::nd_ns_repl$'), 1)),
    ]),
    'layer_4::icmpv6::nd_ns_repl': ('C05: a solicitation is answered unless its target is not handled', [
        ('target not handled', lambda f: falsy_call(f, contains_key('self_ip_list', 'get_target_addr'))),
    ]),
    'proto::stun::repl': ('C15: binding requests are answered', [
        ('unparsable message', lambda f: neq(f, discr_of_call(r'StunPacket::new$'), 0)),
        ('class != request', lambda f: neq(f, lambda k: _s(k).endswith('.class'), 0)),
        ('method != binding', lambda f: neq(f, lambda k: _s(k).endswith('.method'), 1)),
        ('client address unknown', lambda f: option_absent(f, 'arg3.ip.src', 'arg3.port.src')),
    ]),
    '<proto::dns::query::DNSQuery as proto::dissector::MPacket>::repl': ('C14: IN/A questions are answered', [
        ('class != IN', lambda f: neq(f, lambda k: isinstance(k, tuple) and k[0] == 'discr' and _s(k).endswith('.class)'), 1)),
        ('type != A', lambda f: neq(f, lambda k: isinstance(k, tuple) and k[0] == 'discr' and _s(k).endswith('.type_)'), 1)),
    ]),
    'proto::ssh::repl': ('C18: terminated identifications are answered', [
        ('banner not complete', lambda f: neq(f, lambda k: 'state' in _s(k) or 'ssh_parse' in _s(k), 8) or
         any(r_ == '!=' and c_ == 0 and 'Ne' in _s(k) and 'ssh_parse' in _s(k) for (k, r_, c_) in f)),
    ]),
    'layer_4::udp::repl': ('datagrams are answered whenever the application layer produced a reply', [
        ('no application reply', lambda f: neq(f, discr_of_call(r'^proto::repl$'), 1)),
    ]),
}


def run_for(ctx, rid, fids, silent='None', loud='Some'):
    for fid in fids:
        what, reasons = REASONS[fid]
        check(ctx, rid, fid, reasons, what, silent=silent, loud=loud)
