// scratch demonstrations (never committed)
use super::*;
use std::net::{Ipv4Addr, Ipv6Addr};
use std::sync::Mutex;
use pnet::packet::arp::ArpPacket;
use pnet::packet::icmpv6::Icmpv6Packet;
use crate::client::ClientInfo;

lazy_static::lazy_static! { static ref EVENTS: Mutex<Vec<String>> = Mutex::new(Vec::new()); }
struct Rec;
macro_rules! ev { ($s:expr) => { EVENTS.lock().unwrap().push($s.to_string()) } }
impl Logger for Rec {
    fn init(&self) {}
    fn arp_recv(&self, _p: &ArpPacket) { ev!("arp_recv") }
    fn arp_drop(&self, _p: &ArpPacket) { ev!("arp_drop") }
    fn arp_send(&self, _p: &pnet::packet::arp::MutableArpPacket) { ev!("arp_send") }
    fn icmpv6_recv(&self, _p: &Icmpv6Packet, _c: &ClientInfo) { ev!("icmpv6_recv") }
    fn icmpv6_drop(&self, _p: &Icmpv6Packet, _c: &ClientInfo) { ev!("icmpv6_drop") }
    fn icmpv6_send(&self, _p: &pnet::packet::icmpv6::MutableIcmpv6Packet, _c: &ClientInfo) { ev!("icmpv6_send") }
}
fn mk<'a>(ips: Option<&'a HashSet<IpAddr>>) -> Masscanned<'a> {
    let mut m = Masscanned { synack_key: [0,0], mac: MacAddr::new(0xc0,0xff,0xee,0xc0,0xff,0xee), iface: None,
        self_ip_list: ips, remote_ip_deny_list: None, log: MetaLogger::new() };
    m.log.add(Box::new(Rec));
    m
}
#[test]
fn d7_arp_balance() {
    let m = mk(None);
    // ARP request who-has 10.0.0.1 tell 10.0.0.2
    let mut f = vec![0xff,0xff,0xff,0xff,0xff,0xff, 2,2,2,2,2,2, 0x08,0x06];
    f.extend_from_slice(&[0,1, 8,0, 6,4, 0,1, 2,2,2,2,2,2, 10,0,0,2, 0,0,0,0,0,0, 10,0,0,1]);
    EVENTS.lock().unwrap().clear();
    let r = reply(&f, &m);
    assert!(r.is_some());
    let ev = EVENTS.lock().unwrap().clone();
    assert_eq!(ev, vec!["arp_recv", "arp_send"], "events: {:?}", ev);
}
#[test]
fn d7_icmpv6_code_nonzero() {
    let m = mk(None);
    let mut f = vec![0xc0,0xff,0xee,0xc0,0xff,0xee, 2,2,2,2,2,2, 0x86,0xdd];
    let mut ip = vec![0x60,0,0,0, 0,8, 58, 64];
    ip.extend_from_slice(&Ipv6Addr::new(0x2001,0,0,0,0,0,0,1).octets());
    ip.extend_from_slice(&Ipv6Addr::new(0x2001,0,0,0,0,0,0,2).octets());
    ip.extend_from_slice(&[128, 1, 0,0, 0,1,0,1]); // echo request, code 1
    f.extend(ip);
    EVENTS.lock().unwrap().clear();
    let r = reply(&f, &m);
    assert!(r.is_none());
    let ev = EVENTS.lock().unwrap().clone();
    assert_eq!(ev, vec!["icmpv6_recv", "icmpv6_drop"], "events: {:?}", ev);
}

pub fn udp4_frame(sport: u16, dport: u16, payload: &[u8]) -> Vec<u8> {
    let mut f = vec![0xc0,0xff,0xee,0xc0,0xff,0xee, 2,2,2,2,2,2, 0x08,0x00];
    let tl = (20 + 8 + payload.len()) as u16;
    let mut ip = vec![0x45,0, (tl>>8) as u8, tl as u8, 0,0, 0x40,0, 64, 17, 0,0, 10,0,0,2, 10,0,0,1];
    let ul = (8 + payload.len()) as u16;
    ip.extend_from_slice(&[(sport>>8) as u8, sport as u8, (dport>>8) as u8, dport as u8, (ul>>8) as u8, ul as u8, 0, 0]);
    ip.extend_from_slice(payload);
    f.extend(ip);
    f
}
#[test]
fn d11_stun_two_change_requests() {
    let m = mk(None);
    // binding request, length 0x0104, magic cookie, id, two CHANGE-REQUEST(change-port) + one 240-byte generic attribute
    let mut p = vec![0x00,0x01, 0x01,0x04, 0x21,0x12,0xa4,0x42];
    p.extend_from_slice(&[7u8;12]);
    p.extend_from_slice(&[0,3, 0,4, 0,0,0,2]);
    p.extend_from_slice(&[0,3, 0,4, 0,0,0,2]);
    p.extend_from_slice(&[0x80,0x22, 0,240]);
    p.extend_from_slice(&[b'x';240]);
    assert_eq!(p.len(), 20 + 0x104);
    let f = udp4_frame(40000, 3478, &p);
    let r = reply(&f, &m).expect("no reply");
    let b = r.packet();
    let src_port = ((b[34] as u16) << 8) | b[35] as u16;
    assert_eq!(src_port, 3479, "reply source port {}", src_port);
}

pub fn ip6_frame(src: Ipv6Addr, dst: Ipv6Addr, nh: u8, payload: &[u8]) -> Vec<u8> {
    let mut f = vec![0xc0,0xff,0xee,0xc0,0xff,0xee, 2,2,2,2,2,2, 0x86,0xdd];
    let pl = payload.len() as u16;
    let mut ip = vec![0x60,0,0,0, (pl>>8) as u8, pl as u8, nh, 64];
    ip.extend_from_slice(&src.octets());
    ip.extend_from_slice(&dst.octets());
    ip.extend_from_slice(payload);
    f.extend(ip);
    f
}
#[test]
fn d5_icmpv6_echo_foreign_destination() {
    let mut ips = HashSet::new();
    ips.insert(IpAddr::V6(Ipv6Addr::new(0x2001,0,0,0,0,0,0,2)));
    let m = mk(Some(&ips));
    let f = ip6_frame(Ipv6Addr::new(0x2001,0,0,0,0,0,0,1), Ipv6Addr::new(0x2001,0,0,0,0,0,0,0x99), 58, &[128,0,0,0, 0,1,0,1, 1,2,3,4]);
    let r = reply(&f, &m);
    assert!(r.is_none(), "answered an echo request sent to an address that is not ours, from {:?}", &r.unwrap().packet()[22..38]);
    // sanity: the handled address is still answered, and ND for a handled target still works from any destination
    let f = ip6_frame(Ipv6Addr::new(0x2001,0,0,0,0,0,0,1), Ipv6Addr::new(0x2001,0,0,0,0,0,0,2), 58, &[128,0,0,0, 0,1,0,1, 1,2,3,4]);
    assert!(reply(&f, &m).is_some());
    let mut ns = vec![135,0,0,0, 0,0,0,0];
    ns.extend_from_slice(&Ipv6Addr::new(0x2001,0,0,0,0,0,0,2).octets());
    let f = ip6_frame(Ipv6Addr::new(0x2001,0,0,0,0,0,0,1), Ipv6Addr::new(0xff02,0,0,0,0,1,0xff00,2), 58, &ns);
    let r = reply(&f, &m).expect("NS for a handled target must be answered");
    assert_eq!(&r.packet()[22..38], &Ipv6Addr::new(0x2001,0,0,0,0,0,0,2).octets());
}

#[test]
fn d8_udp6_zero_checksum() {
    let m = mk(None);
    // STUN binding request (20 bytes, end-anchored signature) over UDP/IPv6; sweep the last two id bytes
    let mut zero = None;
    for x in 0..=0xffffu32 {
        let mut p = vec![0x00,0x01, 0x00,0x00, 0x21,0x12,0xa4,0x42];
        p.extend_from_slice(&[0u8;10]);
        p.push((x >> 8) as u8); p.push(x as u8);
        let mut udp = vec![0x03,0xe8, 0x0d,0x96, 0,28, 0,0];
        udp.extend_from_slice(&p);
        let f = ip6_frame(Ipv6Addr::new(0x2001,0,0,0,0,0,0,1), Ipv6Addr::new(0x2001,0,0,0,0,0,0,2), 17, &udp);
        if let Some(r) = reply(&f, &m) {
            let b = r.packet();
            let ck = ((b[14+40+6] as u16) << 8) | b[14+40+7] as u16;
            if ck == 0 { zero = Some(x); break; }
        }
    }
    assert!(zero.is_none(), "UDP/IPv6 reply transmitted with checksum 0 for id suffix {:04x}", zero.unwrap());
}

#[test]
fn d6_dns_response_answered() {
    let m = mk(None);
    // DNS *response* (QR=1) with one IN/A question for "a."
    let p = vec![0x12,0x34, 0x80,0x00, 0,1, 0,0, 0,0, 0,0, 1,b'a',0, 0,1, 0,1];
    let f = udp4_frame(40000, 53, &p);
    let r = reply(&f, &m);
    assert!(r.is_none(), "a DNS message with QR=1 was answered");
}
#[test]
fn d6_dns_query_still_answered() {
    let m = mk(None);
    let p = vec![0x12,0x34, 0x01,0x00, 0,1, 0,0, 0,0, 0,0, 1,b'a',0, 0,1, 0,1];
    let f = udp4_frame(40000, 53, &p);
    assert!(reply(&f, &m).is_some());
}

fn no_panic(frame: &[u8], m: &Masscanned) -> bool {
    let f = frame.to_vec();
    let mref = std::panic::AssertUnwindSafe(m);
    std::panic::catch_unwind(move || { let _ = reply(&f, *mref); }).is_ok()
}
#[test]
fn d1_short_frame() {
    let m = mk(None);
    for n in 0..14 {
        assert!(no_panic(&vec![0xffu8; n], &m), "frame of {} bytes panics", n);
    }
}
#[test]
fn d2_short_neighbor_solicitation() {
    let m = mk(None);
    // ICMPv6 type 135 code 0 with an 8-byte body only (no target address)
    let f = ip6_frame(Ipv6Addr::new(0x2001,0,0,0,0,0,0,1), Ipv6Addr::new(0x2001,0,0,0,0,0,0,2), 58, &[135,0,0,0, 0,0,0,0]);
    assert!(no_panic(&f, &m), "truncated neighbor solicitation panics");
}
#[test]
fn d3_stun_attribute_overrun() {
    let m = mk(None);
    // attribute 0x0005 claims 0xffff bytes, 256 follow
    let mut p = vec![0x00,0x01, 0x01,0x04, 0x21,0x12,0xa4,0x42];
    p.extend_from_slice(&[7u8;12]);
    p.extend_from_slice(&[0x00,0x05, 0xff,0xff]);
    p.extend_from_slice(&[0u8;256]);
    assert!(no_panic(&udp4_frame(40000, 3478, &p), &m), "STUN attribute length overrun panics");
    // MAPPED-ADDRESS with unknown family
    let mut p = vec![0x00,0x01, 0x01,0x04, 0x21,0x12,0xa4,0x42];
    p.extend_from_slice(&[7u8;12]);
    p.extend_from_slice(&[0x00,0x01, 0x00,0x08, 0,9, 0,80, 1,2,3,4]);
    p.extend_from_slice(&[0x80,0x22, 0,244]);
    p.extend_from_slice(&[b'x';244]);
    assert!(no_panic(&udp4_frame(40000, 3478, &p), &m), "STUN MAPPED-ADDRESS with unknown family panics");
    // CHANGE-REQUEST of length 0 at the very end
    let mut p = vec![0x00,0x01, 0x01,0x05, 0x21,0x12,0xa4,0x42];
    p.extend_from_slice(&[7u8;12]);
    p.extend_from_slice(&[0x80,0x22, 0,252]);
    p.extend_from_slice(&[b'x';252]);
    p.extend_from_slice(&[0x00,0x03, 0x00,0x00, 0]);
    assert!(no_panic(&udp4_frame(40000, 3478, &p), &m), "short STUN CHANGE-REQUEST panics");
}
#[test]
fn d4_http_non_utf8_uri_with_warn_logging() {
    log::set_max_level(log::LevelFilter::Warn);
    let m = mk(None);
    let f = udp4_frame(40000, 80, b"GET /\xff HTTP/1.1\r\n\r\n");
    assert!(no_panic(&f, &m), "HTTP request with a non-UTF-8 target panics when warn logging is enabled");
}

#[test]
fn d10_http_content_length() {
    let m = mk(None);
    let f = udp4_frame(40000, 80, b"GET / HTTP/1.1\r\n\r\n");
    let r = reply(&f, &m).expect("no reply");
    let b = &r.packet()[14 + 20 + 8..];
    let s = String::from_utf8_lossy(b).to_string();
    let idx = s.find("\n\n").expect("no header/body separator");
    let body = &s[idx + 2..];
    let cl: usize = s.lines().find(|l| l.starts_with("Content-Length:")).unwrap()["Content-Length:".len()..].trim().parse().unwrap();
    assert_eq!(cl, body.len(), "Content-Length {} but {} body bytes", cl, body.len());
}

pub fn tcp4_frame(sport: u16, dport: u16, flags: u8, seq: u32, ack: u32, payload: &[u8]) -> Vec<u8> {
    let mut f = vec![0xc0,0xff,0xee,0xc0,0xff,0xee, 2,2,2,2,2,2, 0x08,0x00];
    let tl = (20 + 20 + payload.len()) as u16;
    let mut ip = vec![0x45,0, (tl>>8) as u8, tl as u8, 0,0, 0x40,0, 64, 6, 0,0, 10,0,0,2, 10,0,0,1];
    ip.extend_from_slice(&[(sport>>8) as u8, sport as u8, (dport>>8) as u8, dport as u8]);
    ip.extend_from_slice(&seq.to_be_bytes());
    ip.extend_from_slice(&ack.to_be_bytes());
    ip.extend_from_slice(&[0x50, flags, 0xff,0xff, 0,0, 0,0]);
    ip.extend_from_slice(payload);
    f.extend(ip);
    f
}
fn tcp_payload_of(r: &MutableEthernetPacket) -> Vec<u8> { r.packet()[14 + 20 + 20..].to_vec() }
fn handshake(m: &Masscanned, sport: u16) -> u32 {
    let r = reply(&tcp4_frame(sport, 80, 0x02, 1000, 0, b""), m).expect("no SYN-ACK");
    let b = r.packet();
    u32::from_be_bytes([b[14+20+4], b[14+20+5], b[14+20+6], b[14+20+7]])
}
#[test]
fn d9_http_split_in_method() {
    let m = mk(None);
    // unsegmented: answered with 401
    let c = handshake(&m, 41001);
    let r = reply(&tcp4_frame(41001, 80, 0x18, 1001, c.wrapping_add(1), b"GET / HTTP/1.1\r\n\r\n"), &m).expect("no reply");
    assert!(tcp_payload_of(&r).starts_with(b"HTTP/1.1 401"));
    // same stream cut inside the method token: the reply must come with the segment that completes the request
    let c = handshake(&m, 41002);
    let r1 = reply(&tcp4_frame(41002, 80, 0x18, 1001, c.wrapping_add(1), b"GE"), &m).expect("no ack");
    assert!(tcp_payload_of(&r1).is_empty());
    let r2 = reply(&tcp4_frame(41002, 80, 0x18, 1003, c.wrapping_add(1), b"T / HTTP/1.1\r\n\r\n"), &m).expect("no reply");
    assert!(tcp_payload_of(&r2).starts_with(b"HTTP/1.1 401"), "segmented request was not answered: {:?}", tcp_payload_of(&r2));
}

#[test]
fn d12_rpc_proc_unavail() {
    // ONC-RPC call over UDP: xid, CALL, rpc version 2, program 100000 (portmapper), version 2, procedure 1 (SET - not served),
    // AUTH_NULL credentials and verifier.  RFC 5531: accept_stat PROC_UNAVAIL = 3 (5 is SYSTEM_ERR).
    let m = mk(None);
    let mut p = Vec::new();
    for w in [0x1234_5678u32, 0, 2, 100000, 2, 1, 0, 0, 0, 0] { p.extend_from_slice(&w.to_be_bytes()); }
    let f = udp4_frame(40000, 111, &p);
    let r = reply(&f, &m).expect("no reply to a portmapper call");
    let b = &r.packet()[14 + 20 + 8..];
    assert_eq!(&b[0..4], &0x1234_5678u32.to_be_bytes(), "xid");
    assert_eq!(&b[4..12], &[0, 0, 0, 1, 0, 0, 0, 0], "REPLY / MSG_ACCEPTED");
    assert_eq!(&b[20..24], &[0, 0, 0, 3], "accept_stat for an unsupported procedure must be PROC_UNAVAIL (3), got {:?}", &b[20..24]);
}
