// scratch demonstrations (never committed)
use super::*;
use std::net::{Ipv4Addr, Ipv6Addr};
use std::sync::Mutex;
use pnet::packet::arp::ArpPacket;
use pnet::packet::icmpv6::Icmpv6Packet;
use crate::client::ClientInfo;

lazy_static::lazy_static! { static ref EVENTS: Mutex<Vec<String>> = Mutex::new(Vec::new()); }
struct Rec;
macro_rules! ev { ($s:expr) => { EVENTS.lock().unwrap().push($s.to_string()) } }
impl Logger for Rec {
    fn init(&self) {}
    fn arp_recv(&self, _p: &ArpPacket) { ev!("arp_recv") }
    fn arp_drop(&self, _p: &ArpPacket) { ev!("arp_drop") }
    fn arp_send(&self, _p: &pnet::packet::arp::MutableArpPacket) { ev!("arp_send") }
    fn icmpv6_recv(&self, _p: &Icmpv6Packet, _c: &ClientInfo) { ev!("icmpv6_recv") }
    fn icmpv6_drop(&self, _p: &Icmpv6Packet, _c: &ClientInfo) { ev!("icmpv6_drop") }
    fn icmpv6_send(&self, _p: &pnet::packet::icmpv6::MutableIcmpv6Packet, _c: &ClientInfo) { ev!("icmpv6_send") }
}
fn mk<'a>(ips: Option<&'a HashSet<IpAddr>>) -> Masscanned<'a> {
    let mut m = Masscanned { synack_key: [0,0], mac: MacAddr::new(0xc0,0xff,0xee,0xc0,0xff,0xee), iface: None,
        self_ip_list: ips, remote_ip_deny_list: None, log: MetaLogger::new() };
    m.log.add(Box::new(Rec));
    m
}
#[test]
fn d7_arp_balance() {
    let m = mk(None);
    // ARP request who-has 10.0.0.1 tell 10.0.0.2
    let mut f = vec![0xff,0xff,0xff,0xff,0xff,0xff, 2,2,2,2,2,2, 0x08,0x06];
    f.extend_from_slice(&[0,1, 8,0, 6,4, 0,1, 2,2,2,2,2,2, 10,0,0,2, 0,0,0,0,0,0, 10,0,0,1]);
    EVENTS.lock().unwrap().clear();
    let r = reply(&f, &m);
    assert!(r.is_some());
    let ev = EVENTS.lock().unwrap().clone();
    assert_eq!(ev, vec!["arp_recv", "arp_send"], "events: {:?}", ev);
}
#[test]
fn d7_icmpv6_code_nonzero() {
    let m = mk(None);
    let mut f = vec![0xc0,0xff,0xee,0xc0,0xff,0xee, 2,2,2,2,2,2, 0x86,0xdd];
    let mut ip = vec![0x60,0,0,0, 0,8, 58, 64];
    ip.extend_from_slice(&Ipv6Addr::new(0x2001,0,0,0,0,0,0,1).octets());
    ip.extend_from_slice(&Ipv6Addr::new(0x2001,0,0,0,0,0,0,2).octets());
    ip.extend_from_slice(&[128, 1, 0,0, 0,1,0,1]); // echo request, code 1
    f.extend(ip);
    EVENTS.lock().unwrap().clear();
    let r = reply(&f, &m);
    assert!(r.is_none());
    let ev = EVENTS.lock().unwrap().clone();
    assert_eq!(ev, vec!["icmpv6_recv", "icmpv6_drop"], "events: {:?}", ev);
}
