"""Variants of /repo used to test the checkers both ways (string edits: file, old, new)."""
VARIANTS = []


def benign(name, *edits):
    VARIANTS.append({'name': name, 'kind': 'benign', 'edits': list(edits)})


def breaking(name, expect, *edits):
    VARIANTS.append({'name': name, 'kind': 'breaking', 'expect': expect, 'edits': list(edits)})


T = 'src/layer_4/tcp.rs'
benign('rename-local-ackno',
       (T, 'let ackno = if tcp_req.get_acknowledgement() > 0 {', 'let expected_cookie = if tcp_req.get_acknowledgement() > 0 {'),
       (T, 'if cookie != ackno {', 'if cookie != expected_cookie {'))
V6 = 'src/layer_3/ipv6.rs'
benign('rename-locals-ipv6-src-dst',
       (V6, '    let src = ip_req.get_source();\n    let mut dst = ip_req.get_destination();', '    let peer = ip_req.get_source();\n    let mut local_addr = ip_req.get_destination();'),
       (V6, 'if !ip_addr_list.contains(&IpAddr::V6(dst))\n            && ip_req', 'if !ip_addr_list.contains(&IpAddr::V6(local_addr))\n            && ip_req'),
       (V6, 'if remote_ip_deny_list.contains(&IpAddr::V6(src)) {', 'if remote_ip_deny_list.contains(&IpAddr::V6(peer)) {'),
       (V6, '                    dst = ip;', '                    local_addr = ip;'),
       (V6, '                    if !ip_addr_list.contains(&IpAddr::V6(dst)) {', '                    if !ip_addr_list.contains(&IpAddr::V6(local_addr)) {'),
       (V6, 'icmpv6_checksum(&icmp_repl.to_immutable(), &src, &dst)', 'icmpv6_checksum(&icmp_repl.to_immutable(), &peer, &local_addr)'),
       (V6, '    ip_repl.set_source(dst);\n    ip_repl.set_destination(src);', '    ip_repl.set_source(local_addr);\n    ip_repl.set_destination(peer);'))
V4 = 'src/layer_3/ipv4.rs'
benign('reorder-independent-setters-ipv4',
       (V4, '    ip_repl.set_version(4);\n    ip_repl.set_ttl(64);\n    ip_repl.set_identification(0);', '    ip_repl.set_identification(0);\n    ip_repl.set_ttl(64);\n    ip_repl.set_version(4);'))
benign('iflet-to-match-deny-list-ipv4',
       (V4, '''    if let Some(remote_ip_deny_list) = masscanned.remote_ip_deny_list {
        if remote_ip_deny_list.contains(&IpAddr::V4(ip_req.get_source())) {
            masscanned.log.ipv4_drop(&ip_req, &client_info);
            return None;
        }
    }''', '''    match masscanned.remote_ip_deny_list {
        Some(denied) if denied.contains(&IpAddr::V4(ip_req.get_source())) => {
            masscanned.log.ipv4_drop(&ip_req, &client_info);
            return None;
        }
        _ => {}
    }'''))
benign('add-log-statements',
       ('src/layer_4/udp.rs', '    let payload = udp_req.payload();', '    let payload = udp_req.payload();\n    log::warn!("udp payload of {} bytes to port {}", payload.len(), udp_req.get_destination());'),
       ('src/layer_4/icmpv4.rs', '            let payload_len = icmp_req.payload().len();', '            let payload_len = icmp_req.payload().len();\n            log::debug!("echo request with {} bytes", payload_len);'))
benign('temporary-for-payload-length',
       (T, '''            tcp_repl.set_acknowledgement(
                tcp_req
                    .get_sequence()
                    .wrapping_add(tcp_req.payload().len() as u32),
            );''', '''            let consumed = tcp_req.payload().len() as u32;
            let next_expected = tcp_req.get_sequence().wrapping_add(consumed);
            tcp_repl.set_acknowledgement(next_expected);'''))
benign('drop-redundant-to_owned-arp',
       ('src/layer_2/arp.rs', 'arp_repl.set_target_hw_addr(arp_req.get_sender_hw_addr().to_owned());', 'arp_repl.set_target_hw_addr(arp_req.get_sender_hw_addr());'),
       ('src/layer_2/arp.rs', 'arp_repl.set_sender_proto_addr(arp_req.get_target_proto_addr().to_owned());', 'let wanted = arp_req.get_target_proto_addr();\n            arp_repl.set_sender_proto_addr(wanted);'))
benign('temporary-for-destination-mac',
       ('src/layer_2/mod.rs', '''    if !get_authorized_eth_addr(&masscanned.mac, masscanned.self_ip_list)
        .contains(&eth_req.get_destination())
    {''', '''    let wanted_mac = eth_req.get_destination();
    let allowed = get_authorized_eth_addr(&masscanned.mac, masscanned.self_ip_list);
    if !allowed.contains(&wanted_mac) {'''))
benign('wrapping_sub-instead-of-underflow-hack',
       (T, '''            let ackno = if tcp_req.get_acknowledgement() > 0 {
                tcp_req.get_acknowledgement() - 1
            } else {
                /* underflow hack */
                0xFFFFFFFF
            };''', '''            let ackno = tcp_req.get_acknowledgement().wrapping_sub(1);'''))
benign('match-instead-of-if-stun-class',
       ('src/proto/stun.rs', '''    if stun_req.class != STUN_CLASS_REQUEST {
        info!(
            "STUN packet not handled (class unknown: 0b{:b})",
            stun_req.class
        );
        return None;
    }''', '''    match stun_req.class {
        STUN_CLASS_REQUEST => {}
        other => {
            info!("STUN packet not handled (class unknown: 0b{:b})", other);
            return None;
        }
    }'''))
benign('swap-independent-assignments-dns-header',
       ('src/proto/dns/header.rs', '        r.id = self.id;\n        r._qr = true;\n        r._opcode = self._opcode;', '        r._opcode = self._opcode;\n        r._qr = true;\n        r.id = self.id;'))
benign('rename-parameter-build_repl',
       ('src/proto/rpc.rs', '''fn build_repl_unknownprog(pstate: &mut ProtocolState, _client_info: &ClientInfo) -> Vec<u8> {
    warn!(
        "Unknown program {}, procedure {}: accepted state 1",
        pstate.program, pstate.procedure
    );''', '''fn build_repl_unknownprog(call: &mut ProtocolState, _client_info: &ClientInfo) -> Vec<u8> {
    warn!(
        "Unknown program {}, procedure {}: accepted state 1",
        call.program, call.procedure
    );'''))
benign('extract-helper-deny-list',
       (V4, '''    if let Some(remote_ip_deny_list) = masscanned.remote_ip_deny_list {
        if remote_ip_deny_list.contains(&IpAddr::V4(ip_req.get_source())) {
            masscanned.log.ipv4_drop(&ip_req, &client_info);
            return None;
        }
    }''', '''    if is_denied(masscanned, IpAddr::V4(ip_req.get_source())) {
        masscanned.log.ipv4_drop(&ip_req, &client_info);
        return None;
    }'''),
       (V4, 'pub fn repl<\'a, \'b>(\n    ip_req: &\'a Ipv4Packet,', '''fn is_denied(masscanned: &Masscanned, ip: IpAddr) -> bool {
    match masscanned.remote_ip_deny_list {
        Some(list) => list.contains(&ip),
        None => false,
    }
}

pub fn repl<'a, 'b>(
    ip_req: &'a Ipv4Packet,'''))
