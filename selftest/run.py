#!/usr/bin/env python3
"""Self-test of the checkers: applies each variant of selftest/variants.py to /repo (string edits), runs the checks,
reverts.  benign variants: every check must stay silent (rc 0).  breaking variants: the listed properties must fire (rc 1).
   selftest/run.py [name-substring]"""
import sys, os, subprocess, json, importlib.util
HERE = os.path.dirname(os.path.abspath(__file__))
ROOT = os.path.dirname(HERE)
REPO = '/repo'
spec = importlib.util.spec_from_file_location('variants', os.path.join(HERE, 'variants.py'))
V = importlib.util.module_from_spec(spec); spec.loader.exec_module(V)


def sh(*a, **k):
    return subprocess.run(*a, **k)


def main():
    flt = sys.argv[1] if len(sys.argv) > 1 else ''
    st = sh(['git', '-C', REPO, 'status', '--porcelain', '--untracked-files=no'], capture_output=True, text=True).stdout
    if st.strip():
        print('repo not clean'); sys.exit(3)
    props = [c['property_id'] for c in json.load(open(os.path.join(ROOT, 'MANIFEST.json')))['checks']]
    bad = 0
    for v in V.VARIANTS:
        if flt not in v['name']:
            continue
        try:
            okapply = True
            for (fn, old, new) in v['edits']:
                p = os.path.join(REPO, fn)
                s = open(p).read()
                if old not in s:
                    print('%-40s EDIT DOES NOT APPLY (%s)' % (v['name'], fn)); okapply = False; break
                open(p, 'w').write(s.replace(old, new, 1))
            if not okapply:
                bad += 1
                continue
            fired, broken = [], []
            run_props = props if v['kind'] == 'benign' else (v.get('expect') or props)
            for pid in run_props:
                r = sh([os.path.join(ROOT, 'check'), pid], capture_output=True, text=True)
                if r.returncode == 1:
                    fired.append(pid)
                elif r.returncode != 0:
                    broken.append(pid)
            if v['kind'] == 'benign':
                ok = not fired and not broken
            else:
                ok = set(v['expect']) <= set(fired)
            print('%-44s %-8s %s fired=%s%s' % (v['name'], v['kind'], 'OK ' if ok else 'FAIL', fired, ' broken=%s' % broken if broken else ''))
            if not ok:
                bad += 1
        finally:
            sh(['git', '-C', REPO, 'checkout', '--', '.'])
    print('selftest failures:', bad)
    sys.exit(1 if bad else 0)


main()
